# Per-property claims (exec'd by mkmanifest.py).
claim('C11', 'proof',
      'Lean 4 theorems on py2lean-generated kernels and on literal models of the composite polygon / polyline / face / polyface routines (folds over the kernels) + kernel and model correspondence at Q',
      'Soundness/completeness theorems for the intersection kernels are proved in Lean for '
      'every input over any ordered field; the kernels are regenerated from the source on '
      'every run and additionally executed at Q against the real functions.',
      'Trusted: Lean kernel, py2lean translator, harness; floating-point rounding and libm '
      'are outside the model. Composite routines (Polygon2D/Polyline2D with line/ray, '
      'Polyline3D/Face3D/Polyface3D with plane and ray) are literal hand models: result = the '
      'kernel hits in edge order (sound, complete, start/orientation invariant up to '
      'permutation), tied by correspondence; arc-with-plane is covered by the oracle only.',
      'DESIGN.md 4 C11')

claim('C03', 'proof',
      'Lean 4 invariant + induction over operation lists on the py2lean-generated Polygon2D cache machine and on literal cache machines of Mesh2D/3D, Polyline2D/3D, Face3D, Polyface3D + model/code correspondence on random histories; history replay vs fresh objects',
      'For Polygon2D the memoising getters and every transform/transfer method are regenerated '
      'from the source into a Lean state machine over all __slots__; Inv (no filled slot is '
      'stale) is proved for fresh objects and preserved by every operation, hence for every '
      'history of every length (read_after_history). The generated machine is tied to the code '
      'slot-for-slot by the kernel correspondence. For Mesh2D (all 8 slots, 18 operations), '
      'reduced Mesh3D, Polyline2D/3D (all slots), Face3D (all slots) and Polyface3D literal '
      'hand models (state = defining data + every slot as Option with its value) carry the same '
      'theorems (inv_step for every operation, inv_history by induction, read_after_history; '
      'e.g. read length, scale k, read length gives |k| x length for every k) and are tied to '
      'the classes by replaying random histories on model and object and comparing every slot '
      'after every step. All seven classes are additionally decided by exhaustive short + '
      'sampled long history replay against fresh objects, factory-built starts included.',
      'Trusted: Lean kernel, py2lean, harness, model correspondence. Hand models assume, where a '
      'flag slot is cached, that is_convex / is_self_intersecting are invariant under the rigid '
      'map (stated as hypotheses), k != 0 for Face3D.scale flags and closedness for the '
      'Polyface3D volume transfer (both outside the valid inputs; witnesses kept as examples). '
      'Zero-area loops are excluded.',
      'DESIGN.md 4 C03')

claim('C02', 'proof',
      'Lean 4 theorems (isometry / orientation / measure laws) on py2lean-generated transform kernels + kernel correspondence at Q; whole-object oracle on the real code',
      '242 theorems about the regenerated transform kernels of points, vectors, segments, rays, '
      'planes, arcs, spheres, cones and cylinders: for every (cos,sin) on the unit circle, every '
      'unit mirror normal and every k: images of defining points, dot/det/cross preservation or '
      'sign flip, inverse maps, measure scaling, frame validity of transformed planes. '
      'Composite classes (polygons, meshes, faces, polyfaces) are covered by the generated '
      'Polygon2D machine (C03) and a whole-object oracle against an independent map.',
      'Trusted: Lean kernel, py2lean, harness. sqrt/cos/sin/floor enter as abstract MathOps with '
      'explicit law hypotheses (witnessed over R in Props/C02Real.lean). Float rounding is '
      'outside the model. Mesh/Face3D/Polyface3D transform methods are not generated: '
      'correspondence only.',
      'DESIGN.md 4 C02')
claim('C12', 'proof',
      'Lean 4 minimality / on-object / Lipschitz theorems on py2lean-generated closest-point kernels and on literal models of polygon distances, the segment-pair routines and the polylabel search (loop invariant, termination) + kernel and model correspondence',
      'For the generated closest-point kernels of segments, rays, infinite lines (2D/3D), planes, '
      'line-plane pairs and arcs: the result lies on the object, minimises the squared distance '
      'over the whole object (convexity argument, all inputs), is zero exactly for queries on '
      'the object and is non-expansive; distances are 1-Lipschitz under the sqrt laws '
      '(segments, planes, and in Props/C12h the generated Ray2D/Ray3D.distance_to_point: '
      'non-negative, zero iff on the ray, lower bound over the ray, attained, 1-Lipschitz). '
      'Model/PolyDistance: edge distance = sqrt of the minimum over the whole outline, invariant '
      'under start vertex and reversal, 1-Lipschitz; distance_to_point is 0 where the crossing '
      'test says inside; the signed cell distance of polylabel is 1-Lipschitz across the outline '
      '(parity separation lemma for arbitrary loops), cell.max bounds it on the cell; priority '
      'queue invariant: when the queue empties the result is within the tolerance of the best '
      'signed distance over the bounding rectangle, inside whenever a point deeper than the '
      'tolerance exists; termination with an explicit fuel bound; segment-pair routines: '
      'symmetric, on both objects, a lower bound for non-crossing pairs.',
      'Trusted: Lean kernel, py2lean, harness, model correspondence. Proper-arc minimality is '
      'proved only for full circles (needs an acos monotonicity law). The early return of '
      'pole_of_inaccessibility (area < largest dimension x tolerance) is excluded from the '
      'theorems and is an open finding (returns the bounding-box centre).',
      'DESIGN.md 4 C12')

claim('C10', 'proof',
      'Lean 4 theorems on py2lean-generated min/max kernels (finite table analysis for arcs, scan invariant) + exact support-function oracle on the real code',
      'Proved for every input: segment/ray/sphere/cone/cylinder boxes contain the object, are '
      'tight and centred; the Arc2D extremum matrices and quadrant thresholds (regenerated from '
      'the source) give a containing and tight box for all 16 quadrant pairs, inverted or not, '
      'under abstract trig monotonicity laws witnessed over R; the literal vertex scan with its '
      'elif returns the true min/max of any list; 3D circle boxes. Collections, overlap '
      'predicates, polylines/polygons/meshes/faces/polyfaces and the repaired Arc3D partial-arc '
      'branch are decided by an exact oracle on the real code (all 65x65 angle pairs on a '
      '1/64-turn grid, collections of 1..8, rotated frames).',
      'Trusted: Lean kernel, py2lean, harness. The vertex-scan loops (_calculate_min_max of '
      'the 2D/3D base classes and of Face3D) and the bounding.py helpers are generated kernels; '
      'the generated scans are proved equal to the hand-proved scan (Props/C10g, C09g), the '
      'collection box contains every member box and is tight; the Arc3D partial-arc branch is '
      'oracle-only; float rounding outside the model.',
      'DESIGN.md 4 C10')
claim('C17', 'proof',
      'Lean 4 theorems on generated parametrisation / split kernels, exact-field loop model, IEEE-double loop model run for every n <= 500; exact oracle on the real code',
      'Proved: point_at is the affine parametrisation, subdivide_evenly over an exact field '
      'returns exactly n+1 equally spaced points (fuel-bounded loop model), arc points lie on '
      'the circle at the stated angle, cc_difference ordering, segment/plane split pieces meet '
      'at the cut and lengths add. The double-precision counter loop is modelled in Lean '
      '(Model/SubdivFloat) and compared with the real count for every n in 1..500. Arc and '
      'polyline splitting: Model/IsectComposite transcribes Polyline3D.split_with_plane and '
      'LineSegment3D.split_with_plane (pieces = cuts + 1, consecutive pieces meet at the cut, '
      'gluing gives the original vertex list, lengths add up), tied by correspondence. Arc '
      'splitting, to_polyline and subdivide(distances) are decided on the real code.',
      'Trusted: Lean kernel, py2lean, harness, model correspondence; Lean Float = platform IEEE '
      'double for the counter model; splitting of arcs is oracle-only.',
      'DESIGN.md 4 C17')

claim('C13', 'proof',
      'Lean 4 theorems on py2lean-generated to_dict/from_dict/to_array/from_array/__copy__/__eq__ compositions (14 simple classes) and on a literal model of the 7 composite classes and the dict dispatcher + model/code correspondence; exact round-trip oracle on all 21 types',
      'The translator symbolically executes from_dict(to_dict(x)), from_array(to_array(x)), '
      'duplicate() and x == y of the real classes; 196 theorems state that the round trips are '
      'the identity on the defining slots (unit-vector fields up to re-normalisation, made '
      'explicit), that duplicate() is the identity (unconditionally for Plane after the repair), '
      'that == is exactly equality of the defining fields (reflexive, symmetric, transitive, '
      'any differing coordinate gives False) and that equal keys hash equal for any hash '
      'function. Model/SerialComposite transcribes __init__ (asserts), to_dict, from_dict, '
      'to_array, from_array, __copy__, __key of Polygon2D, Polyline2D/3D, Mesh2D/3D, Face3D, '
      'Polyface3D over a JSON-like value type (key presence, type strings, optional/null keys) '
      'and dictutil.geometry_dict_to_object; 71 theorems: round trips return the same defining '
      'data under exactly the constructor guards (and raise where it raises), == is an '
      'equivalence equal to same-class-and-equal-key, different classes never compare equal, '
      'the dispatcher agrees with the class from_dict on the 21 registered names and rejects '
      'the rest. JSON text and bit-exactness are decided by the oracle on the real code.',
      'Trusted: Lean kernel, py2lean, harness, model correspondence (composite model is hand '
      'written). Face3D round trip with a plane computed from the vertices assumes the plane is '
      'valid (proved only for a given plane); Color (de)serialisation and '
      'from_shape_with_holes are uninterpreted; a stub ladybug.color module is used.',
      'DESIGN.md 4 C13')
claim('C14', 'proof',
      'Lean 4 checked certificate over an effect table regenerated from the source (decide +kernel) + dynamic snapshot oracle across hash seeds and clocks',
      'A static effect table of all ~1220 functions (direct parameter writes, call edges with '
      'argument-to-parameter maps, self-slot stores, set/dict iterations, clock/PRNG uses) is '
      'regenerated from the source; Lean proves (decide +kernel over the whole table) that the '
      'certified mutation sets are closed under the call edges, hence contain the inductively '
      'defined Mutates relation, that no public callable can mutate a parameter outside the '
      'documented in-place updates, that every self-slot store is a guarded memoisation and '
      'that no clock/PRNG/id value is used; every public callable is also executed with deep '
      'value snapshots, repeated, and recomputed under 4 hash seeds and 2 patched clocks.',
      'Trusted: Lean kernel; the syntactic effect extractor (over-approximating, name-based call '
      'resolution, listed blind spots: captured objects, function-valued variables, lambdas) - '
      'cross-checked by the dynamic oracle; CPython object semantics are not modelled.',
      'DESIGN.md 4 C14')

claim('C01', 'proof',
      'Lean 4 theorems on py2lean-generated area/centroid/closed-form kernels using a shoelace/Newell lemma library + exact whole-object oracle on the real code',
      'The generated Polygon2D.area / is_clockwise folds are proved equal to the shoelace '
      'functional, which is proved start-invariant, reversal-antisymmetric, invariant under the '
      'generated move/rotate/reflect maps, scaled by k^2, additive over ears, chords and hole '
      'bridges (the algebraic content of "equals the sum of the triangles of any '
      'triangulation"); generated mesh triangle/quad kernels (incl. the repaired planar quad), '
      'centroids, Sphere/Cone/Cylinder/arc closed forms; volume laws on a hand model. Faces '
      'with holes, meshes, polyfaces in random placements, every cyclic start, are decided by '
      'an exact rational oracle on the real code. Model/HoleMerge transcribes the boundary-hole '
      'merging (closest-pair choice, orientation flip, list surgery): shoelace(merged) = '
      'shoelace(boundary) + sum shoelace(holes), hence area = boundary - holes for either input '
      'winding; Model/Outward ties the literal volume loop to the proved functional.',
      'Trusted: Lean kernel, py2lean, harness, model correspondence. "shoelace = Lebesgue area" and the divergence '
      'theorem for general closed polyfaces are used as definitions of the intended quantity, '
      'not proved; Polyface3D.volume loop, hole merging and Mesh2D.centroid loop are not '
      'generated (hand model + oracle). One open finding (get_outward_faces) affects volume.',
      'DESIGN.md 4 C01')
claim('C16', 'proof',
      'Lean 4 sibling corollaries on generated 2D and 3D kernels under embedding and any valid plane frame + sibling-agreement oracle',
      'For the generated kernels of the 2D/3D siblings (mesh face areas/centroids, segment '
      'length/point_at/midpoint, closest points, intersections, Arc3D delegation to Arc2D, face '
      'normal fan) the 3D result on embedded / plane-mapped data is proved equal to the image '
      'of the 2D result, for every valid frame. Whole-object siblings (Polygon2D/Face3D, '
      'Mesh2D/3D, polylines, subdivision counts, join_segments, clean-up) are compared on the '
      'real code in the XY plane and random planes.',
      'Trusted: Lean kernel, py2lean, harness; float rounding outside the model.',
      'DESIGN.md 4 C16')
claim('C04', 'proof',
      'Lean 4 decide over the regenerated fill-selection tables; literal models of the segment chainer, the selectors and the whole sweep pipeline (conservation, order independence, fill completeness, error classes) + model/code correspondence stage by stage; exact cell-set specification (Lean Spec/CellBool) against the real output',
      'The five 16-entry tables, the index formula of __select and the inversion flags are '
      'regenerated from boolean.py and proved to be the truth tables of the operations (every '
      'cell, uniqueness: any wrong cell fails); point predicates characterised. Model/Chainer, '
      'BoolSelect, PolyBool transcribe _segmentChainer, __select (calling the generated tables) '
      'and the _Intersecter sweep with events, status, divides, fill annotation, combine and the '
      'public operations (exceptions as values): proved - chains always have >= 2 points; when '
      'distinct end points are separated by the tolerance the chainer uses every input segment '
      'exactly once, leaves open chains exactly at odd-degree vertices and its edge multiset '
      'does not depend on the input order; a segment is kept iff its table entry is non-zero '
      'and, if the four fill bits are geometrically correct, the kept segments are exactly the '
      'boundary of op(A,B) with the right inside side; the sweep never emits an incomplete '
      'fill, every output end point is an input vertex or a computed intersection point, the '
      'only possible exceptions are the named ones. The operation as a whole is decided by an '
      'executable Lean specification (even-odd cell sets over Q) on the real output.',
      'Trusted: Lean kernel, py2lean, harness, model correspondence, Spec/CellBool. Partial: '
      'that the sweep computes geometrically correct fill bits (hypothesis FillsCorrect) and '
      'termination without fuel are not theorems. One open finding (zero-length segment on '
      'steep edges), reproduced on the model.',
      'DESIGN.md 4 C04')
claim('C06', 'proof',
      'Lean 4 theorems on generated Plane.__init__/xyz_to_xy/xy_to_xyz/flip/_normal_from_3pts + Newell lemma library; constructor oracle on the real code',
      'Proved for every input: Plane.__init__ (both x-axis branches, user x-axis) yields an '
      'orthonormal right-handed frame; 2D<->3D round trips and isometry; the fan sum of '
      '_normal_from_3pts over a planar loop equals shoelace * n, hence the normal is the '
      'right-hand-rule normal for every start vertex incl. concave/collinear first corners; '
      'the enforce_right_hand step leaves a positive shoelace; flip restores it. The '
      'constructor loop and factories are hand-modelled and tied by an oracle over 11 '
      'constructors, random and near-axis planes, all cyclic starts, holes of either winding.',
      'Trusted: Lean kernel, py2lean, harness; sqrt laws as hypotheses (witnessed over R); '
      '_plane_from_vertices loop and hole merging are hand models.',
      'DESIGN.md 4 C06')
claim('C05', 'proof',
      'Lean 4 theorems on the generated earcut predicates and on a literal model of the ear-clipping loop (provenance, orientation, area conservation by induction over the run) + model/code correspondence; Lean triangulation certificate (Spec/TriCert) on the real output',
      'Proved for every input: the generated _area/_point_in_triangle/_equals/_intersects '
      'kernels (sign/orientation characterisations, incl. the repaired chained comparison), the '
      'ear-removal / chord-split / hole-bridge additivity of the shoelace functional (a clipped '
      'ear sequence sums to the polygon area), the fan shortcut for convex input. Model/Earcut is '
      'a literal model of earcut() incl. filter/cure/split passes and hole elimination, agreeing '
      'with the real code index for index (also on the hashed path); proved for every input and '
      'fuel: emitted indices are input indices, every ear passed its test and is positively '
      'oriented, emitted area + remaining ring = input ring at every step, so a clean run tiles '
      '|boundary| - sum|holes| exactly; triangle count formula; fuel irrelevance. Every '
      'triangulation returned by the real code is additionally certified clause by clause '
      '(provenance, orientation, strict edge incidence, exact area, centroids inside) by a Lean '
      'specification run at Q and by its integer twin.',
      'Trusted: Lean kernel, py2lean, harness, model correspondence, Spec/TriCert. Not proved: '
      'that a valid input always gives a clean run, no-overlap / inside-the-shape (per-output '
      'certificate only), hashed == unhashed ear test. Two open findings (T-junction at a vertex '
      'collinear with a hole bridge - reproduced on the model; fan shortcut with a straight '
      'corner at vertex 0).',
      'DESIGN.md 4 C05')
claim('C07', 'proof',
      'Lean 4 theorems on literal models of Polyface3D edge bookkeeping (loop invariant, induction over faces) and of get_outward_faces / _point_on_face / volume (parity form, conditional outwardness, kernel-checked counterexamples) + model/code correspondence; oracle on the real code',
      'Model/EdgeInfo is a literal transcription of Polyface3D.__init__/_compute_edge_info '
      '(first-occurrence lookup, reversed side first). Proved for every face list: edge_types[i]+1 '
      'is the number of uses of edge i, stored edges are exactly the used ones without '
      'duplicates, naked/internal/non-manifold classes equal the specification, is_solid iff '
      'every edge is used twice, invariance under face order / loop rotation / reversal, '
      'removing one face of a solid exposes exactly its edges, duplicating one makes exactly '
      'them non-manifold, the extrusion prism is closed for every n >= 3, the from_box tables '
      'are the computed ones; flipping faces negates volume terms, outward star-shaped solids '
      'have positive volume. The model is run against the real class on random face lists on '
      'every check.',
      'Trusted: Lean kernel, harness, model correspondence (hand model, not generated). '
      'Outwardness by ray parity: Model/Outward transcribes get_outward_faces; proved: a face is '
      'flipped iff an odd number of other faces report a hit, and IF the hit test agrees with '
      'geometric crossing for the test ray and the Jordan-Brouwer parity fact holds (both '
      'hypotheses) THEN exactly the inward faces are flipped; the unconditional claim is refuted '
      'in Lean on two rational witnesses on which model and code agree (open finding). '
      'Tolerance welding in from_faces has a literal model (Model/Weld: welded vertices are '
      'input points, presentation-independent edge classes when the tolerance test is an '
      'equivalence on the input points); overlapping-edge merging: oracle only.',
      'DESIGN.md 4 C07')
claim('C08', 'proof',
      'Lean 4 theorems on a literal model of the crossing-number tests built from generated intersection kernels + model/code correspondence; exact winding oracle on the real code',
      'Model/PointInside transcribes is_point_inside / is_point_inside_bound_rect / '
      'is_point_on_edge / point_relationship on top of the generated segment-ray kernels. '
      'Proved for every polygon and point: the test is the parity of the closed-form per-edge '
      'predicate; invariance under start vertex, reversal, translation, invertible linear maps '
      'and scaling of the test direction; for horizontal rays in general position it equals the '
      'even-odd specification (Spec/Contain); the bounding-rectangle shortcut only rejects '
      'points outside the vertex hull; point_relationship is 0 exactly within tolerance of an '
      'edge (using the C12 minimality theorems); the decision tables of polygon_relationship and '
      'does_polygon_touch.',
      'Trusted: Lean kernel, py2lean, harness, model correspondence. Not proved: the Jordan '
      'curve theorem (parity = containment); the geometric sub-results of polygon_relationship '
      '(inputs of the decision model). Polyface3D.is_point_inside has a literal model '
      '(Model/Outward: parity form, invariance under face order and start vertex, tied by '
      'correspondence); Face3D.is_point_on_face has a literal model (Props/C08b: distance test '
      'and parity on plane coordinates, equals the even-odd specification in general position).',
      'DESIGN.md 4 C08')
claim('C09', 'proof',
      'Lean 4 theorems on plane lifting of set operations and on literal models of the loop-grouping step and of the graph-based split (DirectedGraphNetwork: pre-splitting, filters, cycle search) + model/code correspondence; exact cell-set oracle on the real code',
      'Proved: the plane map is injective and commutes with union/intersection/difference, '
      'lifted faces lie on the plane with Newell vector shoelace*n; the model of '
      'Face3D._from_bool_poly grouping (sorted loops, containment tests) yields faces that are '
      'disjoint and whose union is the even-odd region, for any nesting depth, under a laminar '
      'containment relation; area identities of split/difference/union. Model/Network transcribes '
      'the graph-based split (node keys by rounded coordinates, from_shape_to_split with both '
      'filters, min_cycle walk, all_min_cycles with its fallback, merge_faces_to_holes) and agrees '
      'with the real code graph for graph: every returned cycle is a closed walk on graph edges, '
      'every edge is a sub-segment of an input edge or cut, kept cut pieces have their midpoint '
      'strictly inside the face and are connected at both ends, and under the decidable '
      'certificate cleanSplit the pieces conserve the shoelace sum; the defects found by the '
      'model (dangling cut, pieces across a concavity, cut along an edge, unsplit holed face) '
      'were repaired in the library and are kept as kernel-checked history; the remaining ones '
      '(key rounding, hole-to-boundary bridge) are refuted on the model as well. The Boolean '
      'sweep behind coplanar_* has its own literal model (C04). Whole operations are decided by '
      'the exact cell-set specification (Spec/CellBool) on the real outputs.',
      'Trusted: Lean kernel, py2lean, harness, Spec/CellBool, model correspondence. Partial: the '
      'correctness of the smallest-angle face tracing (cleanSplit from input hypotheses) is not '
      'proved. Open findings: the sweep exception swallowed by coplanar_*, node-key rounding, and '
      '21 recorded inputs of a fixed lattice stream on which the split is still wrong (cuts '
      'through vertices / holes / self-crossing polylines); listed with their inputs in '
      'known_findings.json and re-confirmed on every run.',
      'DESIGN.md 4 C09')
claim('C15', 'proof',
      'Lean 4 theorems on literal models of the colinear / duplicate vertex scans (index loops proved equal to a list recursion) + model/code correspondence over every rotation',
      'Model/Colinear transcribes Polygon2D/Face3D/Polyline2D/3D.remove_colinear_vertices '
      '(skip counters, seam patch, Python negative indices) and remove_duplicate_vertices. '
      'Proved for every list length: the source test equals its squared form; the output is a '
      'sublist of a rotation of the input (end points kept for open chains); every dropped '
      'vertex is within the tolerance band of the chord that replaces it; the duplicate filter '
      'is idempotent when equivalence is transitive on the input; exactly collinear decorations '
      'are removed and corners kept for every start position (two _partial theorems: corner '
      'hypotheses stated on the chords the scan uses).',
      'Trusted: Lean kernel, harness, model correspondence (hand model; float ties within 1e-9 '
      'of the threshold are skipped). The derivation of the corner hypotheses from generator '
      'parameters is left to the oracle over every rotation.',
      'DESIGN.md 4 C15')
claim('C18', 'proof',
      'Lean 4 theorems on literal models of join_segments/_group_vertices and of the outline pipeline (T-junction insertion, naked-edge selection, hole grouping, join_coplanar_faces) + model/code correspondence stage by stage; exact cell-set oracle on the real code',
      'Model/JoinSegments transcribes the chain builder for any point type and any equivalence '
      'test. Proved for every segment soup, order and orientation: the chain edges are in '
      'one-to-one correspondence with the input segments (multiset equality in the exact case), '
      'every chain has >= 2 vertices that are input end points, total length is preserved, no '
      'two chains have equivalent ends left (maximality), and the fuel bound is never reached. '
      'Model/JoinOutline transcribes _insert_updates_in_order, intersect_polygon_segments, the '
      'naked-edge selection of joined_intersected_boundary (vertex classes by first equivalent '
      'vertex, edge counters), merge_faces_to_holes and join_coplanar_faces on top of generated '
      'kernels: inserted points form a block sorted by distance for any update order and start '
      'vertex; polygons keep their vertices, order and shoelace sum; an edge is kept iff its '
      'undirected multiplicity is one; shared edges cancel, so the returned loops carry the '
      'total shoelace sum of the tiles (edge-to-edge, no pinch vertex, all chains closed); '
      'grouping equals the proved even-odd grouping; boundary and holes of a face enter as '
      'separate loops.',
      'Trusted: Lean kernel, py2lean, harness, model correspondence. Tolerance-equivalence is '
      'abstract (no transitivity assumed). Not proved: that all chains of an edge-to-edge tiling '
      'come back closed; polygon containment is a parameter of the grouping theorems.',
      'DESIGN.md 4 C18')
claim('C19', 'proof',
      'Lean 4 theorems on generated scale kernels and literal models of perimeter/core quads and offset vertices + model/code correspondence; exact oracle on the real code',
      'Proved for every input: perimeter quads + core have the shoelace of the polygon (with '
      'holes of either winding), scaling about a point multiplies the shoelace/Newell vector by '
      's^2 so a sub-face by ratio has area ratio*A on the parent plane, scaled vertices stay in '
      'every half-space containing centre and vertices (0<=k<=1), the offset vertex formula is at '
      'distance d from both adjacent edges, LineSegment2D.offset is parallel at distance |d| on '
      'the left. Trig/sqrt enter as law hypotheses witnessed over R (Props/C19Real). '
      'Model/SubRects transcribes sub_rects_from_rect_ratio / _dimensions, '
      'sub_faces_by_ratio_rectangle and the Polygon2D.offset loop: rectangle lists in closed '
      'form, counts, total area = ratio x base x height in every branch, inside the parent for '
      'ratio <= 0.9702 (the property quantifies over [0.01, 0.95]), pairwise separated, '
      'congruent; offset keeps the vertex count, is vertex-wise the proved per-vertex formula '
      'and commutes with rotating the vertex list. Polygon2D.offset, Polyline2D.offset and '
      'perimeter_core_by_offset are also generated kernels.',
      'Trusted: Lean kernel, py2lean, harness, model correspondence. Not proved: simplicity / '
      'non-overlap of offset loops; extract_rectangle has a literal model (Props/C19c: '
      'rejection conditions, corner positions, area conservation given the walked lists).',
      'DESIGN.md 4 C19')
claim('C20', 'proof',
      'Lean 4 theorems on literal models of grid generation and vertex/face removal (index closed forms, filter alignment) + model/code correspondence; exact oracle incl. OBJ/STL round trips',
      'Proved for every nx, ny: grid vertex (i,j) and face (i,j) closed forms, indices in range, '
      'every cell a translate of one rectangle with area |dx*dy| and the reported centroid, '
      '_domain_dimensions (num*dim = domain; equals the requested size iff it divides - the '
      'repaired cached-area defect in theorem form); remove_vertices/remove_faces_only keep '
      'faces, per-face data and re-indexed vertices aligned (filter/zip alignment, same points); '
      'the STL quad split preserves area and Newell vector. Model/Interop transcribes the OBJ '
      'and STL writers and readers at the level of token lines (all index forms, colour '
      'unrolling, triangulate_quads, materials, the 7-digit STL format, welding in from_stl) and '
      'Mesh2D.triangulated: read(write(m)) has the same vertices and faces for every option '
      'combination, STL returns exactly the split triangles with the face normals, counts, '
      'colour alignment.',
      'Trusted: Lean kernel, harness, model correspondence; float printing / parsing is the '
      'identity (OBJ) or 7-significant-digit rounding (STL) in the model. The inside filter of '
      'from_polygon_grid, float accumulation in the grid loops, the binary STL reader and '
      'multi-material files are decided by correspondence / the oracle only.',
      'DESIGN.md 4 C20')
