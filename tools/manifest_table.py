# Per-property claims (exec'd by mkmanifest.py).
claim('C11', 'proof',
      'Lean 4 theorems on py2lean-generated kernels + kernel correspondence at Q',
      'Soundness/completeness theorems for the intersection kernels are proved in Lean for '
      'every input over any ordered field; the kernels are regenerated from the source on '
      'every run and additionally executed at Q against the real functions.',
      'Trusted: Lean kernel, py2lean translator, harness; floating-point rounding and libm '
      'are outside the model; composite (face/polyface/polygon) intersections are covered '
      'by correspondence only.',
      'DESIGN.md 4 C11')
