# Per-property claims (exec'd by mkmanifest.py).
claim('C11', 'proof',
      'Lean 4 theorems on py2lean-generated kernels + kernel correspondence at Q',
      'Soundness/completeness theorems for the intersection kernels are proved in Lean for '
      'every input over any ordered field; the kernels are regenerated from the source on '
      'every run and additionally executed at Q against the real functions.',
      'Trusted: Lean kernel, py2lean translator, harness; floating-point rounding and libm '
      'are outside the model; composite (face/polyface/polygon) intersections are covered '
      'by correspondence only.',
      'DESIGN.md 4 C11')

claim('C03', 'proof',
      'Lean 4 invariant + induction over operation lists on the py2lean-generated cache machine; history replay vs fresh objects',
      'For Polygon2D the memoising getters and every transform/transfer method are regenerated '
      'from the source into a Lean state machine over all __slots__; Inv (no filled slot is '
      'stale) is proved for fresh objects and preserved by every operation, hence for every '
      'history of every length (read_after_history). The generated machine is tied to the code '
      'slot-for-slot by the kernel correspondence. For Polyline2D/3D, Mesh2D/3D, Face3D and '
      'Polyface3D the same statement is decided by exhaustive short + sampled long history '
      'replay against fresh objects on the real code.',
      'Trusted: Lean kernel, py2lean, harness. Proved slots: _area, _is_clockwise and the '
      'clearing of positional slots of Polygon2D; _perimeter/_is_convex/_is_self_intersecting '
      'and the other six classes are covered by replay only (not proved). Zero-area loops '
      'are excluded (not valid inputs).',
      'DESIGN.md 4 C03')

claim('C02', 'proof',
      'Lean 4 theorems (isometry / orientation / measure laws) on py2lean-generated transform kernels + kernel correspondence at Q; whole-object oracle on the real code',
      '242 theorems about the regenerated transform kernels of points, vectors, segments, rays, '
      'planes, arcs, spheres, cones and cylinders: for every (cos,sin) on the unit circle, every '
      'unit mirror normal and every k: images of defining points, dot/det/cross preservation or '
      'sign flip, inverse maps, measure scaling, frame validity of transformed planes. '
      'Composite classes (polygons, meshes, faces, polyfaces) are covered by the generated '
      'Polygon2D machine (C03) and a whole-object oracle against an independent map.',
      'Trusted: Lean kernel, py2lean, harness. sqrt/cos/sin/floor enter as abstract MathOps with '
      'explicit law hypotheses (witnessed over R in Props/C02Real.lean). Float rounding is '
      'outside the model. Mesh/Face3D/Polyface3D transform methods are not generated: '
      'correspondence only.',
      'DESIGN.md 4 C02')
claim('C12', 'proof',
      'Lean 4 minimality / on-object / Lipschitz theorems on py2lean-generated closest-point kernels + kernel correspondence at Q',
      'For the generated closest-point kernels of segments, rays, infinite lines (2D/3D), planes, '
      'line-plane pairs and arcs: the result lies on the object, minimises the squared distance '
      'over the whole object (convexity argument, all inputs), is zero exactly for queries on '
      'the object and is non-expansive; distances are 1-Lipschitz under the sqrt laws.',
      'Trusted: Lean kernel, py2lean, harness. Proper-arc minimality is proved only for full '
      'circles (needs an acos monotonicity law); polygon/face distances and '
      'pole_of_inaccessibility are covered by the property oracle only.',
      'DESIGN.md 4 C12')

claim('C10', 'proof',
      'Lean 4 theorems on py2lean-generated min/max kernels (finite table analysis for arcs, scan invariant) + exact support-function oracle on the real code',
      'Proved for every input: segment/ray/sphere/cone/cylinder boxes contain the object, are '
      'tight and centred; the Arc2D extremum matrices and quadrant thresholds (regenerated from '
      'the source) give a containing and tight box for all 16 quadrant pairs, inverted or not, '
      'under abstract trig monotonicity laws witnessed over R; the literal vertex scan with its '
      'elif returns the true min/max of any list; 3D circle boxes. Collections, overlap '
      'predicates, polylines/polygons/meshes/faces/polyfaces and the repaired Arc3D partial-arc '
      'branch are decided by an exact oracle on the real code (all 65x65 angle pairs on a '
      '1/64-turn grid, collections of 1..8, rotated frames).',
      'Trusted: Lean kernel, py2lean, harness. The vertex-scan loops of the composite classes '
      'are hand-modelled (Lemmas/MinMax) and tied by the oracle, not generated; bounding.py '
      'helpers are oracle-only; float rounding outside the model.',
      'DESIGN.md 4 C10')
claim('C17', 'proof',
      'Lean 4 theorems on generated parametrisation / split kernels, exact-field loop model, IEEE-double loop model run for every n <= 500; exact oracle on the real code',
      'Proved: point_at is the affine parametrisation, subdivide_evenly over an exact field '
      'returns exactly n+1 equally spaced points (fuel-bounded loop model), arc points lie on '
      'the circle at the stated angle, cc_difference ordering, segment/plane split pieces meet '
      'at the cut and lengths add. The double-precision counter loop is modelled in Lean '
      '(Model/SubdivFloat) and compared with the real count for every n in 1..500. Arc and '
      'polyline splitting, to_polyline and subdivide(distances) are decided on the real code.',
      'Trusted: Lean kernel, py2lean, harness; Lean Float = platform IEEE double for the counter '
      'model; splitting of arcs/polylines is oracle-only.',
      'DESIGN.md 4 C17')

claim('C13', 'proof',
      'Lean 4 theorems on py2lean-generated to_dict/from_dict/to_array/from_array/__copy__/__eq__ compositions (14 classes) + exact round-trip oracle on all 21 types',
      'The translator symbolically executes from_dict(to_dict(x)), from_array(to_array(x)), '
      'duplicate() and x == y of the real classes; 196 theorems state that the round trips are '
      'the identity on the defining slots (unit-vector fields up to re-normalisation, made '
      'explicit), that duplicate() is the identity (unconditionally for Plane after the repair), '
      'that == is exactly equality of the defining fields (reflexive, symmetric, transitive, '
      'any differing coordinate gives False) and that equal keys hash equal for any hash '
      'function. Composite types (polygons, polylines, meshes, faces, polyfaces), JSON text, '
      'the dispatcher and optional fields are decided by a bit-exact oracle on the real code.',
      'Trusted: Lean kernel, py2lean, harness. The key tuples used for hashing are hand-written '
      'mirrors of __key (tied by the oracle); list-valued classes are oracle-only; a stub '
      'ladybug.color module is used for mesh colours.',
      'DESIGN.md 4 C13')
claim('C14', 'proof',
      'Lean 4 checked certificate over an effect table regenerated from the source (decide +kernel) + dynamic snapshot oracle across hash seeds and clocks',
      'A static effect table of all ~1220 functions (direct parameter writes, call edges with '
      'argument-to-parameter maps, self-slot stores, set/dict iterations, clock/PRNG uses) is '
      'regenerated from the source; Lean proves (decide +kernel over the whole table) that the '
      'certified mutation sets are closed under the call edges, hence contain the inductively '
      'defined Mutates relation, that no public callable can mutate a parameter outside the '
      'documented in-place updates, that every self-slot store is a guarded memoisation and '
      'that no clock/PRNG/id value is used; every public callable is also executed with deep '
      'value snapshots, repeated, and recomputed under 4 hash seeds and 2 patched clocks.',
      'Trusted: Lean kernel; the syntactic effect extractor (over-approximating, name-based call '
      'resolution, listed blind spots: captured objects, function-valued variables, lambdas) - '
      'cross-checked by the dynamic oracle; CPython object semantics are not modelled.',
      'DESIGN.md 4 C14')

claim('C01', 'proof',
      'Lean 4 theorems on py2lean-generated area/centroid/closed-form kernels using a shoelace/Newell lemma library + exact whole-object oracle on the real code',
      'The generated Polygon2D.area / is_clockwise folds are proved equal to the shoelace '
      'functional, which is proved start-invariant, reversal-antisymmetric, invariant under the '
      'generated move/rotate/reflect maps, scaled by k^2, additive over ears, chords and hole '
      'bridges (the algebraic content of "equals the sum of the triangles of any '
      'triangulation"); generated mesh triangle/quad kernels (incl. the repaired planar quad), '
      'centroids, Sphere/Cone/Cylinder/arc closed forms; volume laws on a hand model. Faces '
      'with holes, meshes, polyfaces in random placements, every cyclic start, are decided by '
      'an exact rational oracle on the real code.',
      'Trusted: Lean kernel, py2lean, harness. "shoelace = Lebesgue area" and the divergence '
      'theorem for general closed polyfaces are used as definitions of the intended quantity, '
      'not proved; Polyface3D.volume loop, hole merging and Mesh2D.centroid loop are not '
      'generated (hand model + oracle). One open finding (get_outward_faces) affects volume.',
      'DESIGN.md 4 C01')
claim('C16', 'proof',
      'Lean 4 sibling corollaries on generated 2D and 3D kernels under embedding and any valid plane frame + sibling-agreement oracle',
      'For the generated kernels of the 2D/3D siblings (mesh face areas/centroids, segment '
      'length/point_at/midpoint, closest points, intersections, Arc3D delegation to Arc2D, face '
      'normal fan) the 3D result on embedded / plane-mapped data is proved equal to the image '
      'of the 2D result, for every valid frame. Whole-object siblings (Polygon2D/Face3D, '
      'Mesh2D/3D, polylines, subdivision counts, join_segments, clean-up) are compared on the '
      'real code in the XY plane and random planes.',
      'Trusted: Lean kernel, py2lean, harness; float rounding outside the model.',
      'DESIGN.md 4 C16')
claim('C04', 'proof',
      'Lean 4 decide over the regenerated fill-selection tables + proved point predicates; exact cell-set specification (Lean Spec/CellBool) against the real sweep',
      'The five 16-entry tables, the index formula of __select and the inversion flags are '
      'regenerated from boolean.py and proved to be the truth tables of the operations (every '
      'cell, uniqueness: any wrong cell fails); point predicates characterised. The Martinez '
      'sweep and the segment chainer are NOT modelled: the operation itself is decided by an '
      'executable Lean specification (even-odd cell sets over Q) that certifies the loops '
      'returned by the real code on lattice polygons (shared edges, corners, nesting, lists) '
      'and by exact point membership + area identities in general position.',
      'Trusted: Lean kernel, py2lean, harness, Spec/CellBool (small, lemmas proved). Partial: '
      'global correctness of the sweep is not a theorem. One open finding (zero-length segment '
      'on steep edges).',
      'DESIGN.md 4 C04')
claim('C06', 'proof',
      'Lean 4 theorems on generated Plane.__init__/xyz_to_xy/xy_to_xyz/flip/_normal_from_3pts + Newell lemma library; constructor oracle on the real code',
      'Proved for every input: Plane.__init__ (both x-axis branches, user x-axis) yields an '
      'orthonormal right-handed frame; 2D<->3D round trips and isometry; the fan sum of '
      '_normal_from_3pts over a planar loop equals shoelace * n, hence the normal is the '
      'right-hand-rule normal for every start vertex incl. concave/collinear first corners; '
      'the enforce_right_hand step leaves a positive shoelace; flip restores it. The '
      'constructor loop and factories are hand-modelled and tied by an oracle over 11 '
      'constructors, random and near-axis planes, all cyclic starts, holes of either winding.',
      'Trusted: Lean kernel, py2lean, harness; sqrt laws as hypotheses (witnessed over R); '
      '_plane_from_vertices loop and hole merging are hand models.',
      'DESIGN.md 4 C06')
