# Per-property claims (exec'd by mkmanifest.py).
claim('C11', 'proof',
      'Lean 4 theorems on py2lean-generated kernels + kernel correspondence at Q',
      'Soundness/completeness theorems for the intersection kernels are proved in Lean for '
      'every input over any ordered field; the kernels are regenerated from the source on '
      'every run and additionally executed at Q against the real functions.',
      'Trusted: Lean kernel, py2lean translator, harness; floating-point rounding and libm '
      'are outside the model; composite (face/polyface/polygon) intersections are covered '
      'by correspondence only.',
      'DESIGN.md 4 C11')

claim('C03', 'proof',
      'Lean 4 invariant + induction over operation lists on the py2lean-generated cache machine; history replay vs fresh objects',
      'For Polygon2D the memoising getters and every transform/transfer method are regenerated '
      'from the source into a Lean state machine over all __slots__; Inv (no filled slot is '
      'stale) is proved for fresh objects and preserved by every operation, hence for every '
      'history of every length (read_after_history). The generated machine is tied to the code '
      'slot-for-slot by the kernel correspondence. For Polyline2D/3D, Mesh2D/3D, Face3D and '
      'Polyface3D the same statement is decided by exhaustive short + sampled long history '
      'replay against fresh objects on the real code.',
      'Trusted: Lean kernel, py2lean, harness. Proved slots: _area, _is_clockwise and the '
      'clearing of positional slots of Polygon2D; _perimeter/_is_convex/_is_self_intersecting '
      'and the other six classes are covered by replay only (not proved). Zero-area loops '
      'are excluded (not valid inputs).',
      'DESIGN.md 4 C03')

claim('C02', 'proof',
      'Lean 4 theorems (isometry / orientation / measure laws) on py2lean-generated transform kernels + kernel correspondence at Q; whole-object oracle on the real code',
      '242 theorems about the regenerated transform kernels of points, vectors, segments, rays, '
      'planes, arcs, spheres, cones and cylinders: for every (cos,sin) on the unit circle, every '
      'unit mirror normal and every k: images of defining points, dot/det/cross preservation or '
      'sign flip, inverse maps, measure scaling, frame validity of transformed planes. '
      'Composite classes (polygons, meshes, faces, polyfaces) are covered by the generated '
      'Polygon2D machine (C03) and a whole-object oracle against an independent map.',
      'Trusted: Lean kernel, py2lean, harness. sqrt/cos/sin/floor enter as abstract MathOps with '
      'explicit law hypotheses (witnessed over R in Props/C02Real.lean). Float rounding is '
      'outside the model. Mesh/Face3D/Polyface3D transform methods are not generated: '
      'correspondence only.',
      'DESIGN.md 4 C02')
claim('C12', 'proof',
      'Lean 4 minimality / on-object / Lipschitz theorems on py2lean-generated closest-point kernels + kernel correspondence at Q',
      'For the generated closest-point kernels of segments, rays, infinite lines (2D/3D), planes, '
      'line-plane pairs and arcs: the result lies on the object, minimises the squared distance '
      'over the whole object (convexity argument, all inputs), is zero exactly for queries on '
      'the object and is non-expansive; distances are 1-Lipschitz under the sqrt laws.',
      'Trusted: Lean kernel, py2lean, harness. Proper-arc minimality is proved only for full '
      'circles (needs an acos monotonicity law); polygon/face distances and '
      'pole_of_inaccessibility are covered by the property oracle only.',
      'DESIGN.md 4 C12')

claim('C10', 'proof',
      'Lean 4 theorems on py2lean-generated min/max kernels (finite table analysis for arcs, scan invariant) + exact support-function oracle on the real code',
      'Proved for every input: segment/ray/sphere/cone/cylinder boxes contain the object, are '
      'tight and centred; the Arc2D extremum matrices and quadrant thresholds (regenerated from '
      'the source) give a containing and tight box for all 16 quadrant pairs, inverted or not, '
      'under abstract trig monotonicity laws witnessed over R; the literal vertex scan with its '
      'elif returns the true min/max of any list; 3D circle boxes. Collections, overlap '
      'predicates, polylines/polygons/meshes/faces/polyfaces and the repaired Arc3D partial-arc '
      'branch are decided by an exact oracle on the real code (all 65x65 angle pairs on a '
      '1/64-turn grid, collections of 1..8, rotated frames).',
      'Trusted: Lean kernel, py2lean, harness. The vertex-scan loops of the composite classes '
      'are hand-modelled (Lemmas/MinMax) and tied by the oracle, not generated; bounding.py '
      'helpers are oracle-only; float rounding outside the model.',
      'DESIGN.md 4 C10')
claim('C17', 'proof',
      'Lean 4 theorems on generated parametrisation / split kernels, exact-field loop model, IEEE-double loop model run for every n <= 500; exact oracle on the real code',
      'Proved: point_at is the affine parametrisation, subdivide_evenly over an exact field '
      'returns exactly n+1 equally spaced points (fuel-bounded loop model), arc points lie on '
      'the circle at the stated angle, cc_difference ordering, segment/plane split pieces meet '
      'at the cut and lengths add. The double-precision counter loop is modelled in Lean '
      '(Model/SubdivFloat) and compared with the real count for every n in 1..500. Arc and '
      'polyline splitting, to_polyline and subdivide(distances) are decided on the real code.',
      'Trusted: Lean kernel, py2lean, harness; Lean Float = platform IEEE double for the counter '
      'model; splitting of arcs/polylines is oracle-only.',
      'DESIGN.md 4 C17')

claim('C13', 'proof',
      'Lean 4 theorems on py2lean-generated to_dict/from_dict/to_array/from_array/__copy__/__eq__ compositions (14 classes) + exact round-trip oracle on all 21 types',
      'The translator symbolically executes from_dict(to_dict(x)), from_array(to_array(x)), '
      'duplicate() and x == y of the real classes; 196 theorems state that the round trips are '
      'the identity on the defining slots (unit-vector fields up to re-normalisation, made '
      'explicit), that duplicate() is the identity (unconditionally for Plane after the repair), '
      'that == is exactly equality of the defining fields (reflexive, symmetric, transitive, '
      'any differing coordinate gives False) and that equal keys hash equal for any hash '
      'function. Composite types (polygons, polylines, meshes, faces, polyfaces), JSON text, '
      'the dispatcher and optional fields are decided by a bit-exact oracle on the real code.',
      'Trusted: Lean kernel, py2lean, harness. The key tuples used for hashing are hand-written '
      'mirrors of __key (tied by the oracle); list-valued classes are oracle-only; a stub '
      'ladybug.color module is used for mesh colours.',
      'DESIGN.md 4 C13')
claim('C14', 'proof',
      'Lean 4 checked certificate over an effect table regenerated from the source (decide +kernel) + dynamic snapshot oracle across hash seeds and clocks',
      'A static effect table of all ~1220 functions (direct parameter writes, call edges with '
      'argument-to-parameter maps, self-slot stores, set/dict iterations, clock/PRNG uses) is '
      'regenerated from the source; Lean proves (decide +kernel over the whole table) that the '
      'certified mutation sets are closed under the call edges, hence contain the inductively '
      'defined Mutates relation, that no public callable can mutate a parameter outside the '
      'documented in-place updates, that every self-slot store is a guarded memoisation and '
      'that no clock/PRNG/id value is used; every public callable is also executed with deep '
      'value snapshots, repeated, and recomputed under 4 hash seeds and 2 patched clocks.',
      'Trusted: Lean kernel; the syntactic effect extractor (over-approximating, name-based call '
      'resolution, listed blind spots: captured objects, function-valued variables, lambdas) - '
      'cross-checked by the dynamic oracle; CPython object semantics are not modelled.',
      'DESIGN.md 4 C14')
