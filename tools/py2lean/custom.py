"""Extractors that do not fit the kernel mould: literal tables and table-index
expressions of boolean.py.  Each returns Lean text for the group file `Tables`."""
import ast

import emit
from symexec import Interp, Frame, Obj, Bo, Unsupported
from pyindex import FuncInfo


def _find_list_literal(fn_node):
    for node in ast.walk(fn_node):
        if isinstance(node, ast.Call):
            for a in node.args:
                if isinstance(a, ast.List) and all(isinstance(e, ast.Constant) for e in a.elts):
                    return [e.value for e in a.elts]
    raise Unsupported('no literal table in %s' % fn_node.name)


def _find_keyword(fn_node, name):
    for node in ast.walk(fn_node):
        if isinstance(node, ast.Call):
            for kw in node.keywords:
                if kw.arg == name:
                    return kw.value
    raise Unsupported('no keyword %s in %s' % (name, fn_node.name))


def boolean_tables(index):
    mod = index.module('boolean')
    out = []
    touched = {}
    import hashlib
    for op in ('union', 'intersect', 'difference', 'difference_rev', 'xor'):
        fi = mod.functions['_select_' + op]
        touched['boolean:_select_' + op] = hashlib.sha256(
            ast.dump(fi.node).encode()).hexdigest()[:16]
        table = _find_list_literal(fi.node)
        if len(table) != 16 or not all(isinstance(v, int) and v in (0, 1, 2) for v in table):
            raise Unsupported('_select_%s table is not 16 entries of 0/1/2' % op)
        out.append('/-- the fill-selection table literal of `boolean._select_%s` -/' % op)
        out.append('def select_%s_table : List Nat := [%s]\n' % (
            op, ', '.join(str(v) for v in table)))
        # result inversion flag
        inv = _find_keyword(fi.node, 'is_inverted')
        I = Interp(index)
        ci = mod.classes['_CombinedPolySegments']
        ps = Obj(ci)
        ps.slots['is_inverted1'] = Bo(('bvar', 'i1'))
        ps.slots['is_inverted2'] = Bo(('bvar', 'i2'))
        ps.slots['combined'] = []
        fr = Frame(I, fi, {'polyseg': ps})
        tree = I.explore(lambda: I.truth(fr.eval(inv)))
        body = emit.emit_tree(tree, 'B', index, 1)
        out.append('/-- the `is_inverted` flag `boolean._select_%s` gives its result -/' % op)
        out.append('def select_%s_inverted (i1 i2 : Bool) : Bool :=\n%s\n' % (op, body))
    # index expression of __select
    sel = mod.functions['__select']
    touched['boolean:__select'] = hashlib.sha256(ast.dump(sel.node).encode()).hexdigest()[:16]
    idx_expr = None
    for node in ast.walk(sel.node):
        if isinstance(node, ast.Assign) and len(node.targets) == 1 and \
                isinstance(node.targets[0], ast.Name) and node.targets[0].id == 'index':
            idx_expr = node.value
    if idx_expr is None:
        raise Unsupported('no index expression in __select')
    I = Interp(index)
    seg = Obj(mod.classes['_Segment'])
    mf = Obj(mod.classes['_Fill'])
    mf.slots['above'] = Bo(('bvar', 'a1'))
    mf.slots['below'] = Bo(('bvar', 'b1'))
    of = Obj(mod.classes['_Fill'])
    of.slots['above'] = Bo(('bvar', 'a2'))
    of.slots['below'] = Bo(('bvar', 'b2'))
    seg.slots['myfill'] = mf
    seg.slots['otherfill'] = of
    fr = Frame(I, sel, {'seg': seg})
    tree = I.explore(lambda: fr.eval(idx_expr))
    body = emit.emit_tree(tree, 'N', index, 1)
    out.append('/-- table index computed by `boolean.__select` from the fill flags of a segment '
               '(other polygon\'s fill present) -/')
    out.append('def select_index (a1 b1 a2 b2 : Bool) : Nat :=\n%s\n' % body)
    seg2 = Obj(mod.classes['_Segment'])
    seg2.slots['myfill'] = mf
    seg2.slots['otherfill'] = None
    fr2 = Frame(I, sel, {'seg': seg2})
    tree2 = I.explore(lambda: fr2.eval(idx_expr))
    body2 = emit.emit_tree(tree2, 'N', index, 1)
    out.append('/-- the same index when the segment has no fill from the other polygon -/')
    out.append('def select_index_nofill (a1 b1 : Bool) : Nat :=\n%s\n' % body2)
    return '\n'.join(out), touched


CUSTOM = {'Tables': boolean_tables}
