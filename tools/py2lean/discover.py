#!/venv/bin/python
"""Auto-discovery of further translatable members of the simple geometry classes.

For every public method / property of the listed classes that is not yet in kernels.py,
guess parameter model types from the parameter names, try the translator with a list of
candidate return types and print ready-to-paste K(...) lines for those that translate.
(The output is reviewed and pasted into kernels.py by hand; nothing is registered
automatically.)"""
import os
import sys

HERE = os.path.dirname(os.path.abspath(__file__))
sys.path.insert(0, HERE)
sys.setrecursionlimit(10000)
from pyindex import Index, FuncInfo            # noqa: E402
import gen                                     # noqa: E402
import kernels                                 # noqa: E402
from symexec import Unsupported, PyRaise       # noqa: E402

CLASSES = [
    ('geometry2d.pointvector', 'Vector2D', 'W2', 2), ('geometry2d.pointvector', 'Point2D', 'P2', 2),
    ('geometry3d.pointvector', 'Vector3D', 'W3', 3), ('geometry3d.pointvector', 'Point3D', 'P3', 3),
    ('geometry2d.line', 'LineSegment2D', 'SEG2', 2), ('geometry2d.ray', 'Ray2D', 'RAY2', 2),
    ('geometry3d.line', 'LineSegment3D', 'SEG3', 3), ('geometry3d.ray', 'Ray3D', 'RAY3', 3),
    ('geometry3d.plane', 'Plane', 'PL', 3), ('geometry2d.arc', 'Arc2D', 'A2', 2),
    ('geometry3d.arc', 'Arc3D', 'A3', 3), ('geometry3d.sphere', 'Sphere', 'SPH', 3),
    ('geometry3d.cone', 'Cone', 'CON', 3), ('geometry3d.cylinder', 'Cylinder', 'CYL', 3),
]
RETS = ['S', 'B', 'V2', 'V3', 'LR2', 'LR3', 'PlaneS', 'Arc2S', 'Arc3S', 'SphereS', 'ConeS',
        'CylS', 'Opt V2', 'Opt V3', 'Opt S', 'Opt LR3', 'List V2', 'List V3', 'List LR3',
        'PtList V2', 'PtList V3', 'Tup S V2', 'Tup S V3', 'Tup V3 V3', 'Opt (Tup V3 V3)',
        'Tup V2 V2', 'Tup S (Tup V2 V2)', 'Tup S (Tup V3 V3)', 'N']


def guess(pname, dim):
    P, W = ('P2', 'W2') if dim == 2 else ('P3', 'W3')
    n = pname.lower()
    if n in ('point', 'origin', 'o', 'pt', 'p', 'point2d', 'point3d', 'center', 'c'):
        return "p('%s', %s)" % (pname, P)
    if n in ('normal',):
        return "p('%s', %s, 'unit')" % (pname, W)
    if n in ('axis',):
        return "p('%s', %s, 'nonzero')" % (pname, W)
    if n in ('moving_vec', 'vector', 'vec', 'v', 'direction', 'test_vector',
             'projection_direction'):
        return "p('%s', %s)" % (pname, W)
    if n == 'other':
        return None     # filled by caller with the class's own type
    if n in ('angle',):
        return "S('%s', 'angle')" % pname
    if n in ('factor',):
        return "S('%s', 'factor')" % pname
    if n in ('tolerance', 'angle_tolerance', 'tol'):
        return "S('%s', 'tol')" % pname
    if n in ('parameter',):
        return "S('%s', 'unitinterval')" % pname
    if n in ('length', 'distance', 'z', 'k', 'radius', 'r'):
        return "S('%s', 'pos')" % pname
    if n in ('plane', 'plane_a', 'plane_b'):
        return "p('%s', PL)" % pname
    if n in ('line_ray', 'line', 'ray', 'line_a', 'line_b', 'line_ray_a', 'line_ray_b'):
        return "p('%s', %s)" % (pname, 'SEG2' if dim == 2 else 'SEG3')
    if n == 'arc':
        return "p('%s', %s)" % (pname, 'A2' if dim == 2 else 'A3')
    if n == 'sphere':
        return "p('%s', SPH)" % pname
    return False


def main():
    index = Index('/repo')
    have = set((k['target']) for k in kernels.all_kernels())
    ns = {}
    exec(open(os.path.join(HERE, 'kernels.py')).read(), ns)
    out = []
    for (mod, cls, tname, dim) in CLASSES:
        ci = index.module(mod).classes[cls]
        seen = set()
        for c in index.mro(ci):
            for mname, m in c.members.items():
                if not isinstance(m, FuncInfo) or mname in seen:
                    continue
                seen.add(mname)
                if mname.startswith('_') or m.kind in ('class', 'static'):
                    continue
                if mname in ('to_dict', 'to_array', 'duplicate', 'ToString', 'min', 'max'):
                    pass
                target = '%s:%s.%s' % (mod, cls, mname)
                if target in have:
                    continue
                params = [a.arg for a in m.node.args.args][1:]
                ndef = len(m.node.args.defaults)
                # skip optional trailing parameters (use defaults)
                req = params[:len(params) - ndef] if ndef else params
                specs = ["p('x', %s)" % tname]
                ok = True
                for pn in req:
                    g = guess(pn, dim)
                    if g is None:
                        g = "p('%s', %s)" % (pn, tname)
                    if g is False:
                        ok = False
                        break
                    specs.append(g)
                if not ok:
                    continue
                plist = eval('[' + ', '.join(specs) + ']', ns)
                for ret in RETS:
                    k = dict(name='auto', target=target, params=plist, ret=ret, group='Auto',
                             props=[])
                    try:
                        text, info = gen.translate(index, k)
                    except (Unsupported, PyRaise, KeyError, AssertionError):
                        continue
                    except Exception:
                        continue
                    if info['paths'] > 64:
                        break
                    nm = '%s_%s' % (cls.lower().replace('linesegment', 'seg').replace(
                        'vector', 'v').replace('point', 'p').replace('cylinder', 'cyl'), mname)
                    out.append("K('%s', '%s', [%s], '%s', 'Auto', [])" % (
                        nm, target, ', '.join(specs), ret))
                    break
    print('\n'.join(out))
    print('# %d candidates' % len(out), file=sys.stderr)


if __name__ == '__main__':
    main()
