"""Model type expressions: 'S', 'B', 'N', 'I', struct names, 'Opt T', 'List T',
'PtList T', 'Tup T1 T2 ...', 'Sum T1 T2', with parentheses for nesting."""


def parse_type(t):
    if isinstance(t, tuple):
        return t
    toks = t.replace('(', ' ( ').replace(')', ' ) ').split()
    pos = [0]

    def atom():
        tok = toks[pos[0]]
        pos[0] += 1
        if tok == '(':
            r = expr()
            assert toks[pos[0]] == ')', t
            pos[0] += 1
            return r
        return tok

    def expr():
        tok = toks[pos[0]]
        low = tok.lower()
        if low in ('opt', 'list', 'ptlist'):
            pos[0] += 1
            return (low, expr_arg())
        if low in ('tup', 'sum'):
            pos[0] += 1
            args = []
            while pos[0] < len(toks) and toks[pos[0]] != ')':
                args.append(expr_arg())
            return (low,) + tuple(args)
        return atom()

    def expr_arg():
        tok = toks[pos[0]]
        if tok == '(':
            return atom()
        if tok.lower() in ('opt', 'list', 'ptlist'):
            return expr()
        pos[0] += 1
        return tok

    r = expr()
    assert pos[0] == len(toks), t
    return r
