"""Model types: how repository classes are carried in Lean and on the wire.

STRUCTS[name] = (lean structure name, [(field, model type, python slot, python class)])
The python class of a field is only needed for struct-typed fields (so that a symbolic
input object of the right class can be built)."""
from symexec import Sc, Bo, Si, Obj, SList, SOpt, Unsupported, to_sc, to_bo

STRUCTS = {
    'V2': [('x', 'S', '_x', None), ('y', 'S', '_y', None)],
    'V3': [('x', 'S', '_x', None), ('y', 'S', '_y', None), ('z', 'S', '_z', None)],
    'LR2': [('p', 'V2', '_p', 'Point2D'), ('v', 'V2', '_v', 'Vector2D')],
    'LR3': [('p', 'V3', '_p', 'Point3D'), ('v', 'V3', '_v', 'Vector3D')],
    'PlaneS': [('n', 'V3', '_n', 'Vector3D'), ('o', 'V3', '_o', 'Point3D'),
               ('k', 'S', '_k', None), ('x', 'V3', '_x', 'Vector3D'),
               ('y', 'V3', '_y', 'Vector3D')],
    'Arc2S': [('c', 'V2', '_c', 'Point2D'), ('r', 'S', '_r', None),
              ('a1', 'S', '_a1', None), ('a2', 'S', '_a2', None),
              ('cos_a1', 'S', '_cos_a1', None), ('sin_a1', 'S', '_sin_a1', None),
              ('cos_a2', 'S', '_cos_a2', None), ('sin_a2', 'S', '_sin_a2', None)],
    'Arc3S': [('plane', 'PlaneS', '_plane', 'Plane'), ('arc2d', 'Arc2S', '_arc2d', 'Arc2D')],
    'SphereS': [('center', 'V3', '_center', 'Point3D'), ('radius', 'S', '_radius', None)],
    'ConeS': [('vertex', 'V3', '_vertex', 'Point3D'), ('axis', 'V3', '_axis', 'Vector3D'),
              ('angle', 'S', '_angle', None)],
    'CylS': [('center', 'V3', '_center', 'Point3D'), ('axis', 'V3', '_axis', 'Vector3D'),
             ('radius', 'S', '_radius', None)],
}

STRUCTS['Poly2C'] = [
    ('vertices', 'List V2', '_vertices', 'Point2D'),
    ('min', 'Opt V2', '_min', 'Point2D'), ('max', 'Opt V2', '_max', 'Point2D'),
    ('center', 'Opt V2', '_center', 'Point2D'),
    ('segments', 'Opt X', '_segments', None),
    ('inside_angles', 'Opt X', '_inside_angles', None),
    ('outside_angles', 'Opt X', '_outside_angles', None),
    ('perimeter', 'Opt S', '_perimeter', None), ('area', 'Opt S', '_area', None),
    ('is_clockwise', 'Opt B', '_is_clockwise', None),
    ('is_convex', 'Opt B', '_is_convex', None),
    ('is_self_intersecting', 'Opt B', '_is_self_intersecting', None),
]
# BooleanPoint (boolean.py) and earcut _Node carry plain attributes x, y
STRUCTS['BP'] = [('x', 'S', 'x', None), ('y', 'S', 'y', None)]
LEAN_NAME = {'BP': 'V2'}

# struct types that must list exactly the class's __slots__ (a new slot breaks translation)
SLOT_COMPLETE = {'Poly2C': 'Polygon2D'}

# python classes that may stand for a struct when it comes back as a result
RESULT_CLASSES = {
    'V2': ('Vector2D', 'Point2D'),
    'V3': ('Vector3D', 'Point3D'),
    'LR2': ('LineSegment2D', 'Ray2D'),
    'LR3': ('LineSegment3D', 'Ray3D'),
    'PlaneS': ('Plane',),
    'Arc2S': ('Arc2D',),
    'Arc3S': ('Arc3D',),
    'SphereS': ('Sphere',),
    'ConeS': ('Cone',),
    'CylS': ('Cylinder',),
    'Poly2C': ('Polygon2D',),
    'BP': ('BooleanPoint', '_Node'),
}


from tyspec import parse_type  # noqa: E402,F401


def lean_type(t):
    t = parse_type(t)
    if t == 'S':
        return 'α'
    if t == 'B':
        return 'Bool'
    if t == 'N':
        return 'Nat'
    if t == 'I':
        return 'Int'
    if t == 'X':
        return 'Opq'
    if isinstance(t, str):
        return '%s α' % LEAN_NAME.get(t, t)
    if t[0] == 'opt':
        return 'Option (%s)' % lean_type(t[1])
    if t[0] in ('list', 'ptlist'):
        return 'List (%s)' % lean_type(t[1])
    if t[0] == 'tup':
        return '(' + ' × '.join(lean_type(x) for x in t[1:]) + ')'
    if t[0] == 'sum':
        return '(Sum (%s) (%s))' % (lean_type(t[1]), lean_type(t[2]))
    raise ValueError(t)


def make_input(index, term, mtype, pycls):
    """Symbolic input value of model type `mtype` whose Lean term is `term`."""
    mtype = parse_type(mtype)
    if mtype == 'S':
        return Sc(('var', term))
    if mtype == 'B':
        return Bo(('bvar', term))
    if mtype == 'I':
        return Si(('ivar', term))
    if isinstance(mtype, str):
        ci = index.find_class(pycls)
        o = Obj(ci)
        pycls = ci.name
        if mtype in SLOT_COMPLETE:
            have = set(index.all_slots(ci))
            want = set(sl for (_, _, sl, _) in STRUCTS[mtype])
            if have != want:
                raise Unsupported('__slots__ of %s changed: model has %s, class has %s' % (
                    pycls, sorted(want - have), sorted(have - want)))
        for s in index.all_slots(ci):
            o.slots[s] = None
        for (f, ft, slot, fcls) in STRUCTS[mtype]:
            o.slots[slot] = make_input(index, '%s.%s' % (term, f), ft, fcls)
        return o
    if mtype[0] == 'list':
        return SList(('lvar', term), mtype[1], pycls)
    if mtype[0] == 'tup':
        # a python tuple of inputs: pycls is a tuple of classes
        out = []
        for i, sub in enumerate(mtype[1:]):
            proj = term + '.%d' % (i + 1) if len(mtype) == 3 else _proj(term, i, len(mtype) - 1)
            out.append(make_input(index, proj, sub, pycls[i] if pycls else None))
        return tuple(out)
    if mtype[0] == 'opt':
        return SOpt(term, mtype[1])
    raise ValueError(mtype)


def _proj(term, i, n):
    # right-nested products
    s = term
    for _ in range(i):
        s = '%s.2' % s
    if i < n - 1:
        s = '%s.1' % s
    return s
