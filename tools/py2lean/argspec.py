"""Declarative construction of a kernel's call arguments from its (flat) parameters.

A kernel may register `build=[spec, ...]` (positional arguments of the target) and
`prelink=[('ring', [names])]`.  The same specification is interpreted twice: by gen.py on
symbolic values and by the correspondence harness on real objects, so both sides call the
target with the same object graph.

  spec ::= 'name'                                  the parameter itself
         | ('obj', 'mod:Class', {slot: spec}, 'ctor')  new object; real side: Class(*slot values)
         | ('obj', 'mod:Class', {attr: spec}, 'raw')   new object; real side: __new__ + setattr
         | ('obj', 'mod:Class', {slot: spec}, ('args', [slot | ('const', v) ...]))
                                                   real side: Class(*those values)
         | ('with', 'name', {attr: spec})          the parameter object with extra attributes
         | ('const', value)
  prelink ::= ('ring', [names])   doubly linked ring: x.prev / x.next / x.i = position
"""


def build(spec, vals, mk):
    """vals: name -> value;  mk: object with new(cls, slots, mode) and setattr(o, a, v)."""
    if isinstance(spec, str):
        return vals[spec]
    k = spec[0]
    if k == 'const':
        return spec[1]
    if k == 'obj':
        slots = [(a, build(s, vals, mk)) for a, s in spec[2].items()]
        return mk.new(spec[1], slots, spec[3] if len(spec) > 3 else 'raw')
    if k == 'with':
        o = vals[spec[1]]
        for a, s in spec[2].items():
            mk.setattr(o, a, build(s, vals, mk))
        return o
    raise ValueError('bad argument spec %r' % (spec,))


def prelink(links, vals, mk):
    for ln in links or ():
        if ln[0] == 'ring':
            objs = [vals[n] for n in ln[1]]
            n = len(objs)
            for i, o in enumerate(objs):
                mk.setattr(o, 'prev', objs[(i - 1) % n])
                mk.setattr(o, 'next', objs[(i + 1) % n])
                mk.setattr(o, 'i', i)
        else:
            raise ValueError('bad link %r' % (ln,))
