"""effects.py -- static *effect table* of ladybug_geometry for property C14
("operations are pure and deterministic").

`generate(index) -> (lean_text, touched)` produces `LbgVerif/Gen/Effects.lean`.  Everything
is recomputed from the working tree on every run (stdlib `ast` only).

For EVERY function / method / property / setter / nested function of the package one record:

  writes    virtual parameters the body may mutate in place (direct, syntactic)
  calls     call edges, grouped: ([callee indices], [packed pairs c*1000+m]) = the callee's
            virtual parameter c may be (part of) my virtual parameter m
  mutates   the least fixpoint  writes + {i | edge (g, j->i), j in mutates(g)}   (CERTIFICATE,
            re-checked in Lean by `certificate_closed`, see Props/C14.lean)
  allowed   virtual parameters documented as updated in place (ALLOWED below)

plus the lists `selfStores` (attribute stores on the receiver outside constructors/setters) and
`nondetUses` (clock / PRNG / id / global state / set- and dict-iteration).

Virtual parameters.  Parameter p (0-based, `self`/`cls` is 0) is split in K = 5 depths
    K*p + 0   the object bound to the parameter itself      (boundary.append(..))
    K*p + 1   its elements / attributes                     (for h in holes: h.reverse())
    K*p + d   elements of elements ... ; d = K-1 stands for every depth >= K-1
so that `helper(list(arg))` (a fresh outer list) is not confused with `helper(arg)`.

Abstract value of an expression = tuple (L0, .., L4) of sets of virtual parameters:
L0 = caller objects the value itself may BE, L1 = what its elements may be, ...
The abstract interpreter is flow sensitive for local names (strong updates, joins at
branches, loop fixpoints, break/continue/except edges) so a rebinding
`boundary = list(boundary)` cuts the alias exactly where the Python code cuts it.

Over-approximations (sound direction): calls are resolved BY NAME (`obj.foo(..)` -> every
`foo` of the package whose signature accepts the call; `self.foo(..)` -> the definitions
reachable in the class hierarchy of the enclosing class; property reads and setter writes
are calls too), every branch is taken, nested functions are analysed once on their own
and once inlined in the encloser with the encloser's environment.

Refinements that keep the table usable (each one is an ASSUMPTION, listed again in the
generated file):
  * `x.reverse()` (the one builtin mutator name that is also a geometry method) is the
    geometry method when its result is used, the list method when it is a statement;
    builtin mutator names called with an impossible arity (`ev.remove()`) are not builtin.
  * an attribute store `o.a = v` where every class declaring attribute `a` is PRIVATE
    (`_Node.next`, `_LinkedList...`) mutates an object no caller can own; it is counted
    (`private_class_attr_stores`) but is not a write on a parameter.  Likewise stores on
    `self` inside methods of private classes.
  * parameters named `tolerance` / `angle_tolerance` / `tol` are numbers (immutable).
  * `x = Class(..)` with a single resolvable `__init__`: the attribute cells `x.a` start
    with what that `__init__` stores.
  * augmented assignment mutates in place only with list/set type evidence on either side
    (the others are listed: `untyped_augassign`).
Known blind spots (counted in the comment at the end of the generated file, cross-checked
by the dynamic snapshot harness): calls through function-valued variables, lambdas'
parameters, objects captured by a callee into another argument / the new object and
mutated through it later, `getattr/setattr` with computed names, C-level aliasing of
stdlib results, set/dict typing of parameters (`untyped_iterations`).
"""
import ast
import hashlib

K = 5
EMPTYSET = frozenset()
EMPTY = (EMPTYSET,) * K

# --------------------------------------------------------------------------- whitelists
# Parameters DOCUMENTED as updated in place.  key: table name, value: {param index:
# (depths, quoted docstring / justification)}.  Keep minimal.
ALLOWED = {
    'geometry2d.polygon:Polygon2D.intersect_polygon_segments': {
        0: ((0,), 'docstring Returns: "The input list of Polygon2D objects with extra '
                  'vertices inserted where necessary." -- polygon_list[i] = ... replaces '
                  'the items of the input list, the Polygon2D objects are not touched'),
    },
    # DirectedGraphNetwork is the package's one mutable builder class; its four editing
    # methods are documented as editing the graph / the node they are given.
    'network:DirectedGraphNetwork.add_node': {
        0: ((1, 2, 3), 'docstring: "Add a node into the PolygonDirectedGraph. This method '
                       'consumes a Point2D, computes its key value, and adds it in the graph '
                       'if it doesn\'t exist. If it does exist it appends adj_lst to '
                       'existing pt."'),
    },
    'network:DirectedGraphNetwork.add_adj': {
        0: ((1,), 'adds the missing adjacent nodes to the graph (self._add_node), see the '
                  'docstring of add_node'),
        1: ((1,), 'docstring: "Adds nodes to node.adj_lst."'),
    },
    'network:DirectedGraphNetwork.remove_adj': {
        1: ((0,), 'docstring: "Removes nodes in node.adj_lst."'),
    },
    'network:DirectedGraphNetwork.insert_node': {
        0: ((1, 2, 3), 'docstring: "Insert node in the middle of an edge defined by node '
                       'and next_node."'),
        1: ((0, 1), 'same docstring; code comment "update parent by adding new adjacency, '
                    'and removing old adjacency" (base_node.adj_lst)'),
    },
}
# constructors initialise their (fresh) receiver: parameter 0 of __init__/__new__ at every
# depth is allowed by construction (justification: the receiver does not exist before).
CTOR_NAMES = ('__init__', '__new__')

# Parameters that are numbers by the library's documented convention.  Python floats/ints
# are immutable, so such a parameter cannot be mutated at any depth; its abstract value is
# empty.  (justification: every docstring of the package describes them as a number, e.g.
# Polygon2D.intersect_segments "tolerance: Distance within which two points are considered
# to be co-located.", Face3D.__init__ docs, network "tolerance: The minimum difference
# between the coordinate values of two points ...")
SCALAR_PARAM_NAMES = frozenset(('tolerance', 'angle_tolerance', 'tol'))

MUTATORS = frozenset((
    'append', 'extend', 'insert', 'pop', 'remove', 'reverse', 'sort', 'clear', 'update',
    'add', 'discard', 'setdefault', 'popitem',
    'appendleft', 'popleft', 'extendleft', 'put', 'put_nowait', 'get_nowait',
    'intersection_update', 'difference_update', 'symmetric_difference_update'))
NONE_RETURNING = frozenset((
    'append', 'extend', 'insert', 'remove', 'reverse', 'sort', 'clear', 'update', 'add',
    'discard', 'appendleft', 'extendleft', 'put', 'put_nowait', 'rotate',
    'intersection_update', 'difference_update', 'symmetric_difference_update'))
# (min, max) number of positional arguments of the builtin container methods
MUTATOR_ARITY = {
    'append': (1, 1), 'extend': (1, 1), 'insert': (2, 2), 'pop': (0, 2), 'remove': (1, 1),
    'reverse': (0, 0), 'sort': (0, 0), 'clear': (0, 0), 'update': (0, 1), 'add': (1, 1),
    'discard': (1, 1), 'setdefault': (1, 2), 'popitem': (0, 1), 'appendleft': (1, 1),
    'popleft': (0, 0), 'extendleft': (1, 1), 'put': (1, 3), 'put_nowait': (1, 1),
    'get_nowait': (0, 0), 'intersection_update': (0, 99), 'difference_update': (0, 99),
    'symmetric_difference_update': (1, 1), 'rotate': (0, 1)}
DEQUE_ONLY_MUTATORS = frozenset(('rotate',))       # `rotate` is also a geometry method
INSERT_ONE = frozenset(('append', 'add', 'appendleft', 'put', 'put_nowait', 'insert',
                        'setdefault'))
INSERT_MANY = frozenset(('extend', 'update', 'extendleft'))
# stdlib functions that mutate their first argument
STDLIB_MUTATORS = {('heapq', 'heappush'), ('heapq', 'heappop'), ('heapq', 'heapify'),
                   ('heapq', 'heapreplace'), ('heapq', 'heappushpop'),
                   ('bisect', 'insort'), ('bisect', 'insort_left'),
                   ('bisect', 'insort_right'), ('random', 'shuffle')}
NONDET_MODULES = {'time': 'time', 'random': 'random', 'datetime': 'time',
                  'uuid': 'random', 'secrets': 'random'}
# methods of builtin containers / str / float that do not mutate their receiver
PURE_METHODS = frozenset((
    'index', 'count', 'copy', 'keys', 'values', 'items', 'get', 'join', 'format', 'split',
    'strip', 'lstrip', 'rstrip', 'startswith', 'endswith', 'lower', 'upper', 'replace',
    'union', 'intersection', 'difference', 'symmetric_difference', 'isdisjoint',
    'issubset', 'issuperset', 'is_integer', 'encode', 'decode', 'splitlines', 'find',
    'read', 'readline', 'readlines', 'write', 'writelines', 'close', 'seek', 'tell',
    'title', 'capitalize', 'isdigit', 'zfill', 'rjust', 'ljust', 'center', 'rfind',
    'rsplit', 'partition', 'rpartition', 'isalpha', 'isspace', 'hex', 'bit_length',
    'conjugate', 'as_integer_ratio', 'empty', 'qsize', 'full', 'unpack', 'pack',
    'unpack_from', 'group', 'groups', 'match', 'search', 'findall', 'sub', 'fromkeys',
    '__class__', 'mro', 'with_traceback', 'flush', 'fileno', 'isatty', 'tobytes'))
# free functions known not to mutate arguments; value = how the result aliases
SHALLOW_COPY = frozenset(('list', 'tuple', 'sorted', 'reversed', 'set', 'frozenset',
                          'iter', 'dict', 'deque', 'OrderedDict', 'defaultdict',
                          'Counter'))
SCALAR_FUNCS = frozenset((
    'len', 'abs', 'float', 'int', 'str', 'round', 'isinstance', 'issubclass', 'range',
    'xrange', 'print', 'type', 'hash', 'bool', 'any', 'all', 'repr', 'hasattr', 'callable',
    'ord', 'chr', 'divmod', 'pow', 'format', 'open', 'super', 'object', 'bytes',
    'bytearray', 'complex', 'slice', 'id', 'input', 'unicode', 'long', 'basestring',
    'PriorityQueue', 'Exception', 'ValueError', 'TypeError', 'AssertionError',
    'AttributeError', 'IndexError', 'KeyError', 'ZeroDivisionError', 'RuntimeError',
    'NotImplementedError', 'StopIteration', 'ImportError', 'OverflowError', 'IOError',
    'OSError', 'DeprecationWarning', 'UserWarning', 'locals', 'globals', 'vars', 'dir'))


# --------------------------------------------------------------------------- abstract values
def vjoin(a, b):
    if a is b or b == EMPTY:
        return a
    if a == EMPTY:
        return b
    return tuple(x | y for x, y in zip(a, b))


def vjoin_all(vals):
    out = EMPTY
    for v in vals:
        out = vjoin(out, v)
    return out


def param_val(p):
    return tuple(frozenset([(p, d)]) for d in range(K))


def shift(v):
    """an element / attribute of v"""
    return v[1:] + (v[K - 1],)


def fresh_of(v):
    """a new container with the elements of v (shallow copy)"""
    return (EMPTYSET,) + v[1:]


def wrap(v):
    """a new container / object holding v"""
    return (EMPTYSET,) + v[:K - 2] + (v[K - 2] | v[K - 1],)


def wrap2(v):
    """a new container of new containers of the ELEMENTS of v (zip, enumerate, items)"""
    return wrap(fresh_of(v))


def deep(v):
    s = frozenset().union(*v)
    return (s,) * K


def env_join(a, b):
    """pointwise join.  Keys `name.attr` are attribute cells (strong updates of
    `name.attr = v`); a cell known on one side only is joined with the default value
    of that attribute on the other side (an attribute of whatever `name` is there)."""
    if a is b:
        return a
    out = dict(a)
    for k, v in b.items():
        if k in out:
            out[k] = vjoin(out[k], v)
        elif '.' in k:
            out[k] = vjoin(v, shift(a.get(k.split('.')[0], EMPTY)))
        else:
            out[k] = v
    for k, v in a.items():
        if k not in b and '.' in k:
            out[k] = vjoin(v, shift(b.get(k.split('.')[0], EMPTY)))
    return out


def venc(tag):
    assert K == 5 and K * tag[0] + tag[1] < 1000      # documented encoding / packing
    return K * tag[0] + tag[1]


# --------------------------------------------------------------------------- records
class FnRec(object):
    def __init__(self, name, node, mod, cls, kind, outer):
        self.name = name
        self.node = node
        self.mod = mod
        self.cls = cls            # pyindex.ClassInfo or None
        self.kind = kind          # function|method|static|class|property|setter|nested
        self.outer = outer
        self.idx = -1
        a = node.args
        self.pos = [x.arg for x in getattr(a, 'posonlyargs', [])] + [x.arg for x in a.args]
        self.vararg = a.vararg.arg if a.vararg else None
        self.kwonly = [x.arg for x in a.kwonlyargs]
        self.kwarg = a.kwarg.arg if a.kwarg else None
        self.params = list(self.pos)
        if self.vararg:
            self.params.append(self.vararg)
        self.params += self.kwonly
        if self.kwarg:
            self.params.append(self.kwarg)
        self.nested = {}          # name -> FnRec
        # facts
        self.writes = set()       # tags
        self.why = {}             # tag -> (line, reason) of the first direct write
        self.edges = {}           # callee idx -> set of (callee tag, my tag)
        self.self_stores = []     # (slot, guarded, ctx, line)
        self.nondet = []          # (kind, detail, line)
        self.ret = EMPTY          # abstract return value over my own tags
        self.unresolved = []      # (text, line)
        self.lambdas = 0
        self.dyn_attr = 0
        self.untyped_aug = []
        self.private_stores = []
        self.init_fields = None   # __init__ only: attribute -> value stored (own tags)

    @property
    def simple(self):
        return self.node.name

    @property
    def is_instance_method(self):
        return self.kind in ('method', 'property', 'setter')

    @property
    def is_public(self):
        if self.kind == 'nested':
            return False
        n = self.node.name
        dunder = n.startswith('__') and n.endswith('__')
        if n.startswith('_') and not dunder:
            return False
        if self.cls is not None and self.cls.name.startswith('_'):
            return False
        return True


def _kind_of(node, in_class):
    if not in_class:
        return 'function'
    kind = 'method'
    for d in node.decorator_list:
        if isinstance(d, ast.Name):
            if d.id == 'staticmethod':
                kind = 'static'
            elif d.id == 'classmethod':
                kind = 'class'
            elif d.id == 'property':
                kind = 'property'
        elif isinstance(d, ast.Attribute) and d.attr in ('setter', 'deleter'):
            kind = 'setter'
    if node.name == '__new__':
        kind = 'class'
    return kind


class Registry(object):
    def __init__(self, index):
        self.index = index
        self.recs = []
        self.by_node = {}
        self.by_name = {}         # simple name -> [FnRec] (not nested, not setters)
        self.setters = {}         # property name -> [FnRec]
        self.properties = {}      # property name -> [FnRec]
        self.class_of_node = {}
        self.subclasses = {}      # ClassInfo -> [ClassInfo]
        names = set()
        pref = index.package + '.'
        for mname in sorted(index.modules):
            mod = index.modules[mname]
            short = mname[len(pref):] if mname.startswith(pref) else mname
            if mname == index.package:
                short = '__init__'
            self._collect(mod.tree.body, mod, short, None, None, '', names)
        for i, r in enumerate(self.recs):
            r.idx = i
        for r in self.recs:
            if r.kind == 'nested':
                continue
            if r.kind == 'setter':
                self.setters.setdefault(r.simple, []).append(r)
                continue
            self.by_name.setdefault(r.simple, []).append(r)
            if r.kind == 'property':
                self.properties.setdefault(r.simple, []).append(r)
        for mod in index.modules.values():
            for ci in mod.classes.values():
                for c in index.mro(ci)[1:]:
                    self.subclasses.setdefault(c, []).append(ci)
        self.build_carriers()

    def _collect(self, body, mod, short, ci, outer, prefix, names):
        for st in body:
            if isinstance(st, (ast.FunctionDef, ast.AsyncFunctionDef)):
                if outer is not None:
                    kind = 'nested'
                else:
                    kind = _kind_of(st, ci is not None)
                nm = prefix + st.name + ('.setter' if kind == 'setter' else '')
                full = short + ':' + nm
                k = 2
                while full in names:
                    full = '%s:%s#%d' % (short, nm, k)
                    k += 1
                names.add(full)
                rec = FnRec(full, st, mod, ci, kind, outer)
                self.recs.append(rec)
                self.by_node[st] = rec
                if outer is not None:
                    outer.nested[st.name] = rec
                self._collect(st.body, mod, short, ci, rec, prefix + st.name + '.<locals>.',
                              names)
            elif isinstance(st, ast.ClassDef):
                if outer is None and ci is None and st.name in mod.classes and \
                        mod.classes[st.name].node is st:
                    c2 = mod.classes[st.name]
                else:
                    from pyindex import ClassInfo
                    c2 = ClassInfo(st.name, st, mod)
                self._collect(st.body, mod, short, c2, outer, prefix + st.name + '.', names)
            else:
                for fld in ('body', 'orelse', 'finalbody'):
                    sub = getattr(st, fld, None)
                    if isinstance(sub, list) and sub and isinstance(sub[0], ast.stmt):
                        self._collect(sub, mod, short, ci, outer, prefix, names)
                for h in getattr(st, 'handlers', []) or []:
                    self._collect(h.body, mod, short, ci, outer, prefix, names)

    def build_carriers(self):
        """attribute name -> classes that DECLARE it (in __slots__, by `self.A = ..` in one
        of their methods, at class level, or by a property setter), plus subclasses"""
        car = {}
        self.plain_attrs = set()     # names stored as ordinary instance / class attributes
        classes = []
        for r in self.recs:
            if r.cls is not None and r.cls not in classes:
                classes.append(r.cls)
        for mod in self.index.modules.values():
            for ci in mod.classes.values():
                if ci not in classes:
                    classes.append(ci)
        for ci in classes:
            names = set()
            plain = set()
            for sl in ci.slots:
                names.add(sl)
                plain.add(sl)
            for st in ci.node.body:
                if isinstance(st, ast.Assign):
                    for t in st.targets:
                        if isinstance(t, ast.Name):
                            names.add(t.id)
                            plain.add(t.id)
                elif isinstance(st, ast.FunctionDef):
                    rec = self.by_node.get(st)
                    if rec is not None and rec.kind == 'setter':
                        names.add(st.name)
                    if rec is None or not rec.params or rec.kind in ('static', 'class'):
                        continue
                    sn = rec.params[0]
                    for n in ast.walk(st):
                        if isinstance(n, ast.Attribute) and isinstance(n.ctx, ast.Store) \
                                and isinstance(n.value, ast.Name) and n.value.id == sn:
                            names.add(n.attr)
                            if not self.setters_by_class(ci, n.attr):
                                plain.add(n.attr)
            for a in names:
                for c in [ci] + self.subclasses.get(ci, []):
                    car.setdefault(a, set()).add(c)
            for a in plain:
                self.plain_attrs.add(a)
        self.carriers = car

    def setters_by_class(self, ci, attr):
        for c in self.index.mro(ci):
            if self._own(c, attr, True) is not None:
                return True
        return False

    def private_only(self, attr):
        """True when every class declaring `attr` is private (name starts with `_`)"""
        cs = self.carriers.get(attr)
        return bool(cs) and all(c.name.startswith('_') for c in cs)

    def _own(self, c, name, setter):
        for st in c.node.body:
            if isinstance(st, ast.FunctionDef) and st.name == name and st in self.by_node \
                    and (self.by_node[st].kind == 'setter') == setter:
                return self.by_node[st]
        return None

    def mro_lookup(self, ci, name, setter=False):
        for c in self.index.mro(ci):
            r = self._own(c, name, setter)
            if r is not None:
                return r
        return None

    def hierarchy(self, ci, name, setter=False):
        """what `obj.name` can be when obj is an instance of ci or of a subclass"""
        out = []
        for c in [ci] + self.subclasses.get(ci, []):
            r = self.mro_lookup(c, name, setter)
            if r is not None and r not in out:
                out.append(r)
        return out

    def class_method(self, ci, name):
        """FnRecs for `name` looked up through the MRO of ci and in its subclasses."""
        out = []
        for c in self.index.mro(ci):
            for st in c.node.body:
                if isinstance(st, ast.FunctionDef) and st.name == name and \
                        st in self.by_node and self.by_node[st].kind != 'setter':
                    out.append(self.by_node[st])
                    break
            if out:
                break
        for c in self.subclasses.get(ci, []):
            for st in c.node.body:
                if isinstance(st, ast.FunctionDef) and st.name == name and \
                        st in self.by_node and self.by_node[st].kind != 'setter':
                    out.append(self.by_node[st])
        return out


# --------------------------------------------------------------------------- set/dict typing
class Typer(object):
    """Very small flow-insensitive inference of which expressions are sets / dicts."""

    def __init__(self, reg):
        self.reg = reg
        self.attr_types = {}      # attribute name -> 'set'|'dict'
        self.ret_types = {}       # simple function name -> 'set'|'dict'
        self.local = {}           # FnRec -> {name: type}
        for _ in range(3):
            for r in reg.recs:
                self._scan(r)

    def _scan(self, rec):
        loc = self.local.setdefault(rec, {})
        for node in _walk_own(rec.node):
            if isinstance(node, ast.Assign):
                t = self.type_of(node.value, rec)
                if t:
                    for tg in node.targets:
                        if isinstance(tg, ast.Name):
                            loc[tg.id] = t
                        elif isinstance(tg, ast.Attribute):
                            self.attr_types[tg.attr] = t
            elif isinstance(node, ast.Return) and node.value is not None:
                t = self.type_of(node.value, rec)
                if t and rec.kind != 'nested':
                    self.ret_types[rec.simple] = t
        # parameter defaults
        a = rec.node.args
        for arg, d in zip(reversed(a.args), reversed(a.defaults)):
            t = self.type_of(d, rec)
            if t:
                loc.setdefault(arg.arg, t)

    def type_of(self, e, rec):
        if isinstance(e, (ast.List, ast.ListComp)):
            return 'list'
        if isinstance(e, ast.Subscript) and isinstance(e.slice, ast.Slice):
            return 'list' if self.type_of(e.value, rec) == 'list' else None
        if isinstance(e, ast.BinOp) and isinstance(e.op, (ast.Add, ast.Mult)):
            if 'list' in (self.type_of(e.left, rec), self.type_of(e.right, rec)):
                return 'list'
            return None
        if isinstance(e, (ast.Set, ast.SetComp)):
            return 'set'
        if isinstance(e, (ast.Dict, ast.DictComp)):
            return 'dict'
        if isinstance(e, ast.Name):
            r = rec
            while r is not None:
                t = self.local.get(r, {}).get(e.id)
                if t:
                    return t
                r = r.outer
            return None
        if isinstance(e, ast.Attribute):
            return self.attr_types.get(e.attr)
        if isinstance(e, ast.IfExp):
            return self.type_of(e.body, rec) or self.type_of(e.orelse, rec)
        if isinstance(e, ast.BoolOp):
            for v in e.values:
                t = self.type_of(v, rec)
                if t:
                    return t
            return None
        if isinstance(e, ast.BinOp) and isinstance(e.op, (ast.BitOr, ast.BitAnd, ast.Sub,
                                                          ast.BitXor)):
            l, r = self.type_of(e.left, rec), self.type_of(e.right, rec)
            if l == 'set' or r == 'set':
                return 'set'
            return None
        if isinstance(e, ast.Call):
            f = e.func
            if isinstance(f, ast.Name):
                if f.id in ('list', 'sorted'):
                    return 'list'
                if f.id in ('set', 'frozenset'):
                    return 'set'
                if f.id in ('dict', 'defaultdict', 'OrderedDict', 'Counter'):
                    return 'dict'
                return self.ret_types.get(f.id)
            if isinstance(f, ast.Attribute):
                if f.attr in ('keys', 'values', 'items', 'iterkeys', 'itervalues',
                              'iteritems'):
                    return 'dict'
                if f.attr in ('union', 'intersection', 'difference',
                              'symmetric_difference'):
                    return 'set'
                if f.attr == 'copy':
                    return self.type_of(f.value, rec)
                return self.ret_types.get(f.attr)
        return None


def _walk_own(fn_node):
    """ast.walk over a function body without descending into nested defs / classes."""
    stack = list(fn_node.body)
    while stack:
        n = stack.pop()
        yield n
        for c in ast.iter_child_nodes(n):
            if isinstance(c, (ast.FunctionDef, ast.AsyncFunctionDef, ast.ClassDef)):
                continue
            stack.append(c)


def _src(e):
    try:
        s = ast.unparse(e)
    except Exception:
        s = '<expr>'
    s = ' '.join(s.split())
    return s if len(s) <= 60 else s[:57] + '...'


# --------------------------------------------------------------------------- the analysis
class Sink(object):
    """where facts of one analysis run go (the function's own record, or the enclosing
    function's record for an inlined nested function)"""

    def __init__(self, rec, record_nondet=True, record_ret=True):
        self.rec = rec
        self.record_nondet = record_nondet
        self.record_ret = record_ret


class Analyzer(object):
    def __init__(self, ctx, rec, sink, env, self_name):
        self.ctx = ctx                  # Effects
        self.reg = ctx.reg
        self.index = ctx.reg.index
        self.rec = rec                  # the function whose BODY is walked
        self.sink = sink
        self.facts = sink.rec           # the function whose record is filled
        self.env = env
        self.self_name = self_name      # name bound to the receiver (or None)
        self.env_all = dict(env)
        self.loop_stack = []            # [(break_envs, continue_envs)]
        self.try_stack = []             # [accumulated env]
        self.guards = []                # stack of frozensets of guarded slot names
        self.pending_nested = []
        self._argval = {}
        self._stmt_calls = set()
        self._ctor_fields = (None, None)
        self._all_args = EMPTY
        self._block_guards = []
        self.local_imports = {}
        self.locals = self._local_names(rec)
        self._scan_local_imports()
        self.deque_names = set()
        for n in _walk_own(rec.node):
            if isinstance(n, ast.Assign) and isinstance(n.value, ast.Call) and \
                    isinstance(n.value.func, ast.Name) and n.value.func.id == 'deque':
                for t in n.targets:
                    if isinstance(t, ast.Name):
                        self.deque_names.add(t.id)

    @staticmethod
    def _local_names(rec):
        names = set()
        r = rec
        while r is not None:
            names.update(r.params)
            for n in _walk_own(r.node):
                if isinstance(n, ast.Name) and isinstance(n.ctx, (ast.Store, ast.Del)):
                    names.add(n.id)
                elif isinstance(n, ast.ExceptHandler) and n.name:
                    names.add(n.name)
            for st in ast.walk(r.node):
                if isinstance(st, (ast.FunctionDef, ast.ClassDef)) and st is not r.node:
                    names.add(st.name)
            r = r.outer
        return names

    def _scan_local_imports(self):
        r = self.rec
        chain = []
        while r is not None:
            chain.append(r)
            r = r.outer
        for r in reversed(chain):
            for n in _walk_own(r.node):
                if isinstance(n, ast.Import):
                    for a in n.names:
                        self.local_imports[a.asname or a.name.split('.')[0]] = \
                            ('module', a.name)
                elif isinstance(n, ast.ImportFrom):
                    base = self.index._resolve_relative(self.rec.mod, n.level, n.module)
                    for a in n.names:
                        self.local_imports[a.asname or a.name] = ('from', base, a.name)

    def resolve(self, name):
        """resolve a non-local name: function-level imports first, then the module"""
        imp = self.local_imports.get(name)
        if imp is not None:
            if imp[0] == 'module':
                if imp[1] in self.index.modules:
                    return ('lbgmodule', self.index.modules[imp[1]])
                return ('pymodule', imp[1])
            _, base, nm = imp
            if base in self.index.modules:
                r = self.index.resolve_name(self.index.modules[base], nm)
                if r is not None:
                    return r
                if base + '.' + nm in self.index.modules:
                    return ('lbgmodule', self.index.modules[base + '.' + nm])
                return None
            return ('pyname', base, nm)
        return self.index.resolve_name(self.rec.mod, name)

    # ------------------------------------------------------------------ fact recording
    def write(self, val, node, what):
        """in-place mutation of the object(s) `val` may be"""
        for tag in val[0]:
            self.facts.writes.add(tag)
            self.facts.why.setdefault(tag, (node.lineno, what))

    def attr_store(self, obj_expr, attr, val, node):
        ov = self.eval(obj_expr)
        for tag in ov[0]:
            if tag == (0, 0) and self.self_name is not None and \
                    self._receiver_fn().is_instance_method:
                fn = self._receiver_fn()
                if fn.simple in CTOR_NAMES or fn.kind == 'setter':
                    continue
                if fn.cls.name.startswith('_'):
                    # receiver of a method of a private class: never a caller's object
                    item = (attr, node.lineno)
                    if item not in self.facts.private_stores:
                        self.facts.private_stores.append(item)
                    continue
                guarded = any(attr in g for g in self.guards)
                ctx = 'guard' if guarded else ('property' if fn.kind == 'property'
                                               else 'plain')
                self.facts.self_stores.append((attr, guarded or fn.kind == 'property', ctx,
                                               node.lineno))
            elif self.reg.private_only(attr):
                # only instances of private classes carry this attribute: such objects are
                # created inside the package and never owned by a caller
                item = (attr, node.lineno)
                if item not in self.facts.private_stores:
                    self.facts.private_stores.append(item)
            else:
                self.facts.writes.add(tag)
                self.facts.why.setdefault(tag, (node.lineno, 'attribute store .' + attr))
        if isinstance(obj_expr, ast.Name) and obj_expr.id == 'cls' and \
                self._receiver_fn().kind == 'class':
            self.nondet('global-write', 'cls.%s = ...' % attr, node)
        # a setter of that name may run
        if self._is_self_expr(obj_expr, ov):
            setters = self.reg.hierarchy(self._receiver_fn().cls, attr, setter=True)
        else:
            setters = self.reg.setters.get(attr, [])
        for g in setters:
            self.edge(g, {0: ov, 1: val})
        self.update_contents(obj_expr, wrap(val))
        if isinstance(obj_expr, ast.Name):
            # strong update of the attribute cell `name.attr` (flow sensitive, dropped
            # when `name` is rebound)
            self.env[obj_expr.id + '.' + attr] = val

    def _receiver_fn(self):
        r = self.facts
        while r.kind == 'nested' and r.outer is not None:
            r = r.outer
        return r

    def _unres(self, item):
        if item not in self.facts.unresolved:
            self.facts.unresolved.append(item)

    def nondet(self, kind, detail, node):
        if self.sink.record_nondet:
            item = (kind, detail, node.lineno)
            if item not in self.facts.nondet:
                self.facts.nondet.append(item)

    def edge(self, callee, argvals):
        """argvals: callee parameter index -> abstract value of the argument"""
        pairs = set()
        for j, a in argvals.items():
            for d in range(K):
                for tag in a[d]:
                    pairs.add(((j, d), tag))
        if pairs:
            self.facts.edges.setdefault(callee.idx, set()).update(pairs)

    def ret_of(self, callee, argvals):
        rv = self.ctx.ret.get(callee.idx, EMPTY)
        if rv == EMPTY:
            return EMPTY
        out = []
        for k in range(K):
            s = set()
            for (j, d) in rv[k]:
                a = argvals.get(j)
                if a is not None:
                    s |= a[d]
            out.append(frozenset(s))
        return tuple(out)

    def update_contents(self, container_expr, content):
        """weak update: `content` is stored into the object named by container_expr"""
        if content == EMPTY:
            return
        depth = 0
        e = container_expr
        while isinstance(e, (ast.Attribute, ast.Subscript)):
            e = e.value
            depth += 1
        if isinstance(e, ast.Name) and e.id in self.env:
            c = content
            for _ in range(depth):
                c = wrap(c)
            self.env[e.id] = vjoin(self.env[e.id], c)
        elif isinstance(e, ast.Name) and e.id in self.locals:
            c = content
            for _ in range(depth):
                c = wrap(c)
            self.env[e.id] = c
        if isinstance(container_expr, ast.Attribute) and \
                isinstance(container_expr.value, ast.Name):
            key = container_expr.value.id + '.' + container_expr.attr
            if key in self.env:
                self.env[key] = vjoin(self.env[key], content)

    def root_global(self, e):
        while isinstance(e, (ast.Attribute, ast.Subscript)):
            e = e.value
        if isinstance(e, ast.Name) and e.id not in self.locals:
            return e.id
        return None

    # ------------------------------------------------------------------ expressions
    def eval(self, e):
        m = getattr(self, 'e_' + type(e).__name__, None)
        if m is None:
            for c in ast.iter_child_nodes(e):
                if isinstance(c, ast.expr):
                    self.eval(c)
            return EMPTY
        return m(e)

    def e_Constant(self, e):
        return EMPTY

    def e_Name(self, e):
        if e.id in self.env:
            return self.env[e.id]
        if e.id not in self.locals:
            r = self.resolve(e.id)
            if isinstance(r, tuple) and r[0] in ('pymodule', 'pyname'):
                base = r[1].split('.')[0]
                if base in NONDET_MODULES:
                    self.nondet(NONDET_MODULES[base], e.id, e)
        return EMPTY

    def e_Attribute(self, e):
        base = self.eval(e.value)
        val = shift(base)
        if isinstance(e.value, ast.Name):
            cell = self.env.get(e.value.id + '.' + e.attr)
            if cell is not None:
                val = cell
        if self._is_self_expr(e.value, base):
            props = [g for g in self.reg.hierarchy(self._receiver_fn().cls, e.attr)
                     if g.kind == 'property']
        else:
            props = self.reg.properties.get(e.attr)
        if props and isinstance(e.ctx, ast.Load):
            if e.attr not in self.reg.plain_attrs and \
                    not (isinstance(e.value, ast.Name) and
                         e.value.id + '.' + e.attr in self.env):
                val = EMPTY     # only ever a property: the value is what a getter returns
            for g in props:
                self.edge(g, {0: base})
                val = vjoin(val, self.ret_of(g, {0: base}))
        return val

    def e_Subscript(self, e):
        base = self.eval(e.value)
        self.eval(e.slice)
        if isinstance(e.slice, ast.Slice):
            return fresh_of(base)
        return shift(base)

    def e_Slice(self, e):
        for c in (e.lower, e.upper, e.step):
            if c is not None:
                self.eval(c)
        return EMPTY

    def _display(self, elts):
        v = EMPTY
        for x in elts:
            if isinstance(x, ast.Starred):
                v = vjoin(v, fresh_of(self.eval(x.value)))
                self.iter_site(x.value, 'unpack', x)
            else:
                v = vjoin(v, wrap(self.eval(x)))
        return v

    def e_List(self, e):
        return self._display(e.elts)

    e_Tuple = e_List
    e_Set = e_List

    def e_Dict(self, e):
        v = EMPTY
        for k, x in zip(e.keys, e.values):
            if k is None:
                v = vjoin(v, fresh_of(self.eval(x)))
            else:
                v = vjoin(v, wrap(self.eval(k)))
                v = vjoin(v, wrap(self.eval(x)))
        return v

    def _comp(self, e, elts):
        saved = self.env
        self.env = dict(saved)
        for g in e.generators:
            it = self.eval(g.iter)
            self.iter_site(g.iter, 'comprehension', g.iter)
            self.bind_iter(g.target, g.iter, it)
            for c in g.ifs:
                self.eval(c)
        v = EMPTY
        for x in elts:
            v = vjoin(v, wrap(self.eval(x)))
        # comprehension variables do not leak, but weak updates of outer names do
        for k in saved:
            saved[k] = vjoin(saved[k], self.env.get(k, EMPTY)) if k in self.env else saved[k]
        self.env = saved
        return v

    def e_ListComp(self, e):
        return self._comp(e, [e.elt])

    e_SetComp = e_ListComp
    e_GeneratorExp = e_ListComp

    def e_DictComp(self, e):
        return self._comp(e, [e.key, e.value])

    def e_BinOp(self, e):
        l, r = self.eval(e.left), self.eval(e.right)
        return vjoin(fresh_of(l), fresh_of(r))

    def e_BoolOp(self, e):
        return vjoin_all([self.eval(v) for v in e.values])

    def e_IfExp(self, e):
        self.eval(e.test)
        return vjoin(self.eval(e.body), self.eval(e.orelse))

    def e_Lambda(self, e):
        self.facts.lambdas += 1
        saved = self.env
        self.env = dict(saved)
        for a in e.args.args:
            self.env[a.arg] = EMPTY
        self.eval(e.body)
        self.env = saved
        return EMPTY

    def e_Starred(self, e):
        return shift(self.eval(e.value))

    def e_NamedExpr(self, e):
        v = self.eval(e.value)
        self.bind(e.target, v)
        return v

    def e_Await(self, e):
        return self.eval(e.value)

    def e_Yield(self, e):
        if e.value is not None:
            v = self.eval(e.value)
            if self.sink.record_ret:
                self.facts.ret = vjoin(self.facts.ret, wrap(v))
        return EMPTY

    def e_YieldFrom(self, e):
        v = self.eval(e.value)
        if self.sink.record_ret:
            self.facts.ret = vjoin(self.facts.ret, fresh_of(v))
        return EMPTY

    # ------------------------------------------------------------------ iteration sites
    def iter_site(self, it, how, node):
        t = self.ctx.typer.type_of(it, self.rec)
        if t in ('set', 'dict'):
            self.nondet(t + '-iter', '%s over %s' % (how, _src(it)), node)
        elif t is None and self.sink.record_nondet:
            self.ctx.untyped_iters += 1

    # ------------------------------------------------------------------ calls
    def _map_args(self, callee, call, offset, recv=None):
        """abstract values for the callee's parameters.  offset = index of the callee
        parameter that receives the first positional argument."""
        argvals = {}

        def put(j, v):
            if v == EMPTY:
                return
            argvals[j] = vjoin(argvals.get(j, EMPTY), v)
        if recv is not None:
            put(0, recv)
        npos = len(callee.pos)
        pnames = callee.params
        for i, a in enumerate(call.args):
            if isinstance(a, ast.Starred):
                v = shift(self._argval[id(a)])
                for j in range(offset + i, npos):
                    put(j, v)
                if callee.vararg:
                    put(pnames.index(callee.vararg), deep(v))
                continue
            v = self._argval[id(a)]
            j = offset + i
            if j < npos:
                put(j, v)
            elif callee.vararg:
                put(pnames.index(callee.vararg), deep(v))
        for kw in call.keywords:
            v = self._argval[id(kw)]
            if kw.arg is None:
                for j in range(len(pnames)):
                    put(j, deep(v))
            elif kw.arg in pnames:
                put(pnames.index(kw.arg), v)
            elif callee.kwarg:
                put(pnames.index(callee.kwarg), deep(v))
        return argvals

    def _apply(self, callee, call, offset, recv=None):
        argvals = self._map_args(callee, call, offset, recv)
        self.edge(callee, argvals)
        return self.ret_of(callee, argvals)

    def _call_method_candidates(self, cands, call, recv):
        val = EMPTY
        for g in cands:
            if g.kind in ('method', 'property'):
                val = vjoin(val, self._apply(g, call, 1, recv))
            elif g.kind == 'class':
                val = vjoin(val, self._apply(g, call, 1, None))
            elif g.kind in ('static', 'function'):
                val = vjoin(val, self._apply(g, call, 0, None))
        return val

    def _construct(self, ci, call, subclasses=False):
        """ClassName(args): runs __init__/__new__ (found through the MRO; also those of
        subclasses when the class object is `cls` / type(self)) on a fresh receiver"""
        cands = []
        for nm in CTOR_NAMES:
            if subclasses:
                cands += self.reg.hierarchy(ci, nm)
            else:
                g = self.reg.mro_lookup(ci, nm)
                if g is not None:
                    cands.append(g)
        fields = None
        for g in cands:
            self._apply(g, call, 1, None)
        if len(cands) == 1 and cands[0].init_fields is not None:
            g = cands[0]
            argvals = self._map_args(g, call, 1, None)
            if not any((0, d) in lv for v in g.init_fields.values() for lv in v
                       for d in range(K)):
                fields = {}
                for a, v in g.init_fields.items():
                    fields[a] = tuple(
                        frozenset(t for (j, d) in v[k] for t in argvals.get(j, EMPTY)[d])
                        for k in range(K))
        self._ctor_fields = (id(call), fields)
        return wrap(self._all_args)

    def _is_self_expr(self, e, val=None):
        fn = self._receiver_fn()
        if not (isinstance(e, ast.Name) and e.id == self.self_name and
                fn.is_instance_method and fn.cls is not None):
            return False
        v = self.env.get(e.id, EMPTY) if val is None else val
        return (0, 0) in v[0]

    @staticmethod
    def _compatible(g, call, offset):
        """can `call` be a call of g (first positional argument -> parameter `offset`)?"""
        if any(isinstance(a, ast.Starred) for a in call.args) or \
                any(kw.arg is None for kw in call.keywords):
            return True
        npos = len(call.args) + offset
        if npos > len(g.pos) and not g.vararg:
            return False
        kws = set(kw.arg for kw in call.keywords)
        if not g.kwarg and not kws <= set(g.params):
            return False
        a = g.node.args
        nreq = len(g.pos) - len(a.defaults)
        for j in range(npos, nreq):
            if g.pos[j] not in kws:
                return False
        for x, d in zip(a.kwonlyargs, a.kw_defaults):
            if d is None and x.arg not in kws:
                return False
        return True

    def _construct_any(self, obj_expr, call):
        """type(obj)(args) / obj.__class__(args)"""
        fn = self._receiver_fn()
        if isinstance(obj_expr, ast.Name) and obj_expr.id == self.self_name and \
                fn.cls is not None:
            return self._construct(fn.cls, call, subclasses=True)
        for g in self.reg.by_name.get('__init__', []) + self.reg.by_name.get('__new__', []):
            self._apply(g, call, 1, None)
        return wrap(self._all_args)

    def e_Call(self, e):
        f = e.func
        # evaluate arguments once
        vals = []
        for a in e.args:
            v = self.eval(a.value) if isinstance(a, ast.Starred) else self.eval(a)
            vals.append((a, v))
        for kw in e.keywords:
            vals.append((kw, self.eval(kw.value)))
        for a, v in vals:
            self._argval[id(a)] = v
        allv = EMPTY
        for a, v in vals:
            allv = vjoin(allv, shift(v) if isinstance(a, ast.Starred) else v)
        self._all_args = allv
        args = [v for a, v in vals if not isinstance(a, ast.keyword)]

        if isinstance(f, ast.Name):
            return self._call_name(e, f, args, allv)
        if isinstance(f, ast.Attribute):
            return self._call_attr(e, f, args, allv)
        if isinstance(f, ast.Call) and isinstance(f.func, ast.Name) and f.func.id == 'type' \
                and len(f.args) == 1:
            self.eval(f.args[0])
            return self._construct_any(f.args[0], e)
        # call of a computed callee: f(...)(...), table[i](...)
        fv = self.eval(f)
        self._unres((_src(f), e.lineno))
        return deep(vjoin(fv, allv))

    def _call_name(self, e, f, args, allv):
        nm = f.id
        a0 = args[0] if args else EMPTY
        # nested function in scope
        r = self.rec
        while r is not None:
            if nm in r.nested:
                return self._apply(r.nested[nm], e, 0, None)
            r = r.outer
        recv_fn = self._receiver_fn()
        if recv_fn.kind == 'class' and recv_fn.params and nm == recv_fn.params[0] and \
                recv_fn.cls is not None and self.env.get(nm, EMPTY) == EMPTY:
            return self._construct(recv_fn.cls, e, subclasses=True)
        if nm in self.env or (nm in self.locals and nm not in ('super',)):
            # a function-valued local / parameter
            self._unres((nm + '(..) [local callable]', e.lineno))
            return deep(allv)
        res = self.resolve(nm)
        from pyindex import ClassInfo, FuncInfo
        if isinstance(res, ClassInfo):
            return self._construct(res, e)
        if isinstance(res, FuncInfo):
            g = self.reg.by_node.get(res.node)
            if g is not None:
                return self._apply(g, e, 0, None)
        if isinstance(res, tuple) and res[0] == 'pyname':
            base = res[1].split('.')[0]
            if base in NONDET_MODULES:
                self.nondet(NONDET_MODULES[base], '%s.%s' % (res[1], res[2]), e)
            if (base, res[2]) in STDLIB_MUTATORS:
                self.write(a0, e, nm)
        # builtins
        if nm in SHALLOW_COPY:
            if nm not in ('sorted', 'set', 'frozenset') and e.args:
                self.iter_site(e.args[0], nm + '()', e)
            return fresh_of(vjoin_all(args))
        if nm in ('zip', 'izip', 'enumerate', 'izip_longest', 'zip_longest'):
            for a in e.args:
                self.iter_site(a, nm + '()', e)
            return wrap2(vjoin_all(args))
        if nm in ('map', 'filter', 'chain', 'islice', 'imap', 'ifilter'):
            for a in e.args[1:] if nm in ('map', 'filter', 'imap', 'ifilter') else e.args:
                self.iter_site(a, nm + '()', e)
            if nm in ('map', 'imap', 'filter', 'ifilter') and e.args:
                self._unres(('%s(%s, ..)' % (nm, _src(e.args[0])),
                                              e.lineno))
            return fresh_of(vjoin_all(args))
        if nm in ('min', 'max', 'next'):
            for a in e.args:
                self.iter_site(a, nm + '()', e)
            if len(args) == 1:
                return shift(args[0])
            return vjoin_all(args + [shift(v) for v in args])
        if nm == 'sum':
            for a in e.args[:1]:
                self.iter_site(a, 'sum()', e)
            return fresh_of(shift(a0))
        if nm == 'getattr':
            if len(e.args) > 1 and not isinstance(e.args[1], ast.Constant):
                self.facts.dyn_attr += 1
            return shift(vjoin_all(args))
        if nm == 'setattr':
            self.facts.dyn_attr += 1
            if len(e.args) == 3 and isinstance(e.args[1], ast.Constant):
                self.attr_store(e.args[0], str(e.args[1].value), args[2], e)
            else:
                self.write(a0, e, 'setattr')
            return EMPTY
        if nm == 'delattr':
            self.write(a0, e, 'delattr')
            return EMPTY
        if nm == 'id':
            self.nondet('id', _src(e), e)
            return EMPTY
        if nm in SCALAR_FUNCS:
            return EMPTY
        if isinstance(res, tuple) and res[0] in ('pyname',):
            # imported stdlib function (math names etc.)
            return fresh_of(allv) if res[1].split('.')[0] in ('itertools', 'copy') else EMPTY
        self._unres((nm + '(..)', e.lineno))
        return deep(allv)

    def _call_attr(self, e, f, args, allv):
        m = f.attr
        a0 = args[0] if args else EMPTY
        from pyindex import ClassInfo
        recv_expr = f.value
        if m == '__class__':
            self.eval(recv_expr)
            return self._construct_any(recv_expr, e)
        # --- stdlib submodule: os.path.isfile(...)
        root = recv_expr
        while isinstance(root, ast.Attribute):
            root = root.value
        if root is not recv_expr and isinstance(root, ast.Name) and \
                root.id not in self.locals:
            res = self.resolve(root.id)
            if isinstance(res, tuple) and res[0] == 'pymodule':
                base = res[1].split('.')[0]
                if base in NONDET_MODULES:
                    self.nondet(NONDET_MODULES[base], _src(f), e)
                return EMPTY
        # --- module.function(...)
        if isinstance(recv_expr, ast.Name) and recv_expr.id not in self.locals:
            res = self.resolve(recv_expr.id)
            if isinstance(res, tuple) and res[0] == 'pymodule':
                base = res[1].split('.')[0]
                if base in NONDET_MODULES:
                    self.nondet(NONDET_MODULES[base], '%s.%s' % (recv_expr.id, m), e)
                if (base, m) in STDLIB_MUTATORS:
                    self.write(a0, e, m)
                    if m in ('heappush', 'insort', 'insort_left', 'insort_right') and \
                            len(args) > 1:
                        self.update_contents(e.args[0], wrap(args[1]))
                    if m in ('heappop', 'heapreplace', 'heappushpop'):
                        return shift(a0)
                    return EMPTY
                if base in ('itertools', 'copy', 'functools', 'operator'):
                    if m == 'deepcopy':
                        return EMPTY
                    for a in e.args:
                        self.iter_site(a, '%s.%s()' % (base, m), e)
                    return vjoin(fresh_of(allv), wrap(allv))
                return EMPTY
            if isinstance(res, tuple) and res[0] == 'lbgmodule':
                fi = res[1].functions.get(m)
                if fi is not None and fi.node in self.reg.by_node:
                    return self._apply(self.reg.by_node[fi.node], e, 0, None)
                if m in res[1].classes:
                    return self._construct(res[1].classes[m], e)
                self._unres((_src(f) + '(..)', e.lineno))
                return deep(allv)
            if isinstance(res, ClassInfo):
                g0 = self.reg.mro_lookup(res, m)     # explicit class: exact lookup
                cands = [g0] if g0 is not None else []
                if not cands:
                    cands = self.reg.by_name.get(m, [])
                if not cands:
                    self._unres((_src(f) + '(..)', e.lineno))
                    return deep(allv)
                val = EMPTY
                for g in cands:
                    if g.kind in ('static', 'function'):
                        val = vjoin(val, self._apply(g, e, 0, None))
                    elif g.kind == 'class':
                        val = vjoin(val, self._apply(g, e, 1, None))
                    else:    # Class.method(obj, ...): explicit receiver
                        val = vjoin(val, self._apply(g, e, 0, None))
                return val
        # --- super().m(...)
        recv_is_super = isinstance(recv_expr, ast.Call) and \
            isinstance(recv_expr.func, ast.Name) and recv_expr.func.id == 'super'
        if recv_is_super:
            recv = self.env.get(self.self_name, EMPTY) if self.self_name else EMPTY
        else:
            recv = self.eval(recv_expr)
        # --- cls(...) / self.__class__(...) handled in e_Call through Name; here:
        #     cls.m(...) where cls is the class object
        definitely_self = isinstance(recv_expr, ast.Name) and \
            recv_expr.id == self.self_name and (0, 0) in recv[0] and \
            self._receiver_fn().is_instance_method
        if self.sink.record_nondet:
            if definitely_self:
                gs = frozenset().union(*self.guards) if self.guards else frozenset()
                self.ctx.self_calls.setdefault(m, []).append(
                    (self.facts.name, gs, self._receiver_fn().kind == 'property'))
            elif not recv_is_super:
                self.ctx.other_calls.add(m)
        if definitely_self or (recv_is_super and self._receiver_fn().cls is not None):
            # the receiver is an instance of the enclosing class (or a subclass)
            cands = self.reg.hierarchy(self._receiver_fn().cls, m)
            if recv_is_super:
                cands = cands + [g for g in self.reg.by_name.get(m, [])
                                 if g.cls in self.index.mro(self._receiver_fn().cls)
                                 and g not in cands]
        else:
            cands = [g for g in self.reg.by_name.get(m, [])
                     if self._compatible(g, e, 0 if g.kind in ('static', 'function') else 1)]
            self.ctx.pruned_by_arity += len(self.reg.by_name.get(m, [])) - len(cands)
        val = EMPTY
        handled = False
        is_deque = isinstance(recv_expr, ast.Name) and recv_expr.id in self.deque_names
        if m in MUTATORS or (m in DEQUE_ONLY_MUTATORS and is_deque):
            pkg_method_on_self = definitely_self and any(
                g.cls is not None for g in cands)
            # the builtin mutators of this name return None: a call whose RESULT IS USED
            # and that has a package method of the same name is the package method
            result_used_pkg = bool(cands) and m in NONE_RETURNING and \
                id(e) not in self._stmt_calls
            lo, hi = MUTATOR_ARITY[m]
            arity_ok = any(isinstance(a, ast.Starred) for a in e.args) or \
                lo <= len(e.args) <= hi
            if not pkg_method_on_self and not result_used_pkg and arity_ok:
                handled = True
                self.write(recv, e, m)
                g = self.root_global(recv_expr)
                if g is not None and not recv_is_super:
                    self.nondet('global-write', '%s.%s(..)' % (_src(recv_expr), m), e)
                if m in INSERT_ONE:
                    self.update_contents(recv_expr, wrap(vjoin_all(args)))
                elif m in INSERT_MANY:
                    self.update_contents(recv_expr, fresh_of(vjoin_all(args)))
                if m in ('pop', 'popleft', 'popitem', 'get_nowait'):
                    val = vjoin(val, shift(recv))
                    if m == 'pop' and not e.args and \
                            self.ctx.typer.type_of(recv_expr, self.rec) == 'set':
                        self.nondet('set-iter', 'pop() from %s' % _src(recv_expr), e)
                if m == 'setdefault':
                    val = vjoin(val, vjoin(shift(recv), vjoin_all(args)))
            if is_deque and m in DEQUE_ONLY_MUTATORS:
                return val
        if m in PURE_METHODS and not cands:
            handled = True
            if m in ('copy', 'values', 'keys'):
                val = vjoin(val, fresh_of(recv))
            elif m == 'items':
                val = vjoin(val, wrap2(recv))
            elif m == 'get':
                val = vjoin(val, vjoin(shift(recv), vjoin_all(args)))
            elif m in ('union', 'intersection', 'difference', 'symmetric_difference'):
                val = vjoin(val, fresh_of(vjoin(recv, vjoin_all(args))))
            elif m == 'join' and e.args:
                self.iter_site(e.args[0], 'str.join()', e)
        if cands:
            handled = True
            val = vjoin(val, self._call_method_candidates(cands, e, recv))
        if not handled:
            self._unres(('.' + m + '(..)', e.lineno))
            val = deep(vjoin(recv, allv))
        return val

    # ------------------------------------------------------------------ binding
    def bind_iter(self, target, iter_expr, it_val):
        """bind a loop / comprehension target to the elements of iter_expr, elementwise
        for `enumerate(x)` and `zip(a, b, ..)` with a tuple target"""
        if isinstance(target, (ast.Tuple, ast.List)) and isinstance(iter_expr, ast.Call) \
                and isinstance(iter_expr.func, ast.Name) and not iter_expr.keywords and \
                not any(isinstance(a, ast.Starred) for a in iter_expr.args) and \
                not any(isinstance(t, ast.Starred) for t in target.elts):
            fn = iter_expr.func.id
            if fn == 'enumerate' and len(target.elts) == 2 and \
                    1 <= len(iter_expr.args) <= 2 and fn not in self.locals:
                self.bind(target.elts[0], EMPTY)
                self.bind(target.elts[1], shift(self._argval[id(iter_expr.args[0])]))
                return
            if fn in ('zip', 'izip') and len(target.elts) == len(iter_expr.args) and \
                    fn not in self.locals:
                for t, a in zip(target.elts, iter_expr.args):
                    if isinstance(a, ast.Call) and isinstance(t, (ast.Tuple, ast.List)):
                        self.bind_iter(t, a, self._argval[id(a)])
                    else:
                        self.bind(t, shift(self._argval[id(a)]))
                return
        self.bind(target, shift(it_val))

    def bind(self, target, val, value_expr=None):
        if isinstance(target, ast.Name):
            self.env[target.id] = val
            pre = target.id + '.'
            for k in [k for k in self.env if k.startswith(pre)]:
                del self.env[k]
        elif isinstance(target, (ast.Tuple, ast.List)):
            if isinstance(value_expr, (ast.Tuple, ast.List)) and \
                    len(value_expr.elts) == len(target.elts) and \
                    not any(isinstance(x, ast.Starred) for x in value_expr.elts + target.elts):
                vals = [self.eval(x) for x in value_expr.elts]
                for t, v in zip(target.elts, vals):
                    self.bind(t, v)
                return
            for t in target.elts:
                if isinstance(t, ast.Starred):
                    self.bind(t.value, fresh_of(val))
                else:
                    self.bind(t, shift(val))
        elif isinstance(target, ast.Starred):
            self.bind(target.value, fresh_of(val))
        elif isinstance(target, ast.Subscript):
            base = self.eval(target.value)
            self.eval(target.slice)
            self.write(base, target, 'item store')
            g = self.root_global(target.value)
            if g is not None:
                self.nondet('global-write', '%s[..] = ...' % _src(target.value), target)
            if isinstance(target.slice, ast.Slice):
                self.update_contents(target.value, fresh_of(val))
            else:
                self.update_contents(target.value, wrap(val))
        elif isinstance(target, ast.Attribute):
            self.attr_store(target.value, target.attr, val, target)

    # ------------------------------------------------------------------ statements
    def stmt(self, st):
        m = getattr(self, 's_' + type(st).__name__, None)
        if m is None:
            for c in ast.iter_child_nodes(st):
                if isinstance(c, ast.expr):
                    self.eval(c)
        else:
            m(st)
        self.env_all = env_join(self.env_all, self.env)
        for i in range(len(self.try_stack)):
            self.try_stack[i] = env_join(self.try_stack[i], self.env)

    def s_Expr(self, st):
        if isinstance(st.value, ast.Call):
            self._stmt_calls.add(id(st.value))
        self.eval(st.value)

    def s_Assign(self, st):
        if len(st.targets) == 1 and isinstance(st.targets[0], (ast.Tuple, ast.List)) and \
                isinstance(st.value, (ast.Tuple, ast.List)) and \
                len(st.value.elts) == len(st.targets[0].elts) and \
                not any(isinstance(x, ast.Starred)
                        for x in st.value.elts + st.targets[0].elts):
            self.bind(st.targets[0], EMPTY, st.value)
            return
        v = self.eval(st.value)
        for t in st.targets:
            if isinstance(t, (ast.Tuple, ast.List)):
                self.iter_site(st.value, 'unpack', st)
            self.bind(t, v)
            cf = self._ctor_fields
            if isinstance(t, ast.Name) and cf[0] == id(st.value) and cf[1] is not None:
                # x = Class(..): the attributes __init__ stores are known exactly
                for a, fv in cf[1].items():
                    self.env[t.id + '.' + a] = fv

    def s_AnnAssign(self, st):
        if st.value is not None:
            self.bind(st.target, self.eval(st.value))

    @staticmethod
    def _numeric_rhs(e):
        if isinstance(e, ast.Constant) and isinstance(e.value, (int, float, complex, str)):
            return True
        if isinstance(e, ast.UnaryOp):
            return Analyzer._numeric_rhs(e.operand)
        if isinstance(e, ast.BinOp):
            if isinstance(e.op, (ast.Sub, ast.Div, ast.FloorDiv, ast.Mod, ast.Pow)):
                return True
            return Analyzer._numeric_rhs(e.left) or Analyzer._numeric_rhs(e.right)
        if isinstance(e, ast.Call) and isinstance(e.func, ast.Name) and \
                e.func.id in ('len', 'abs', 'float', 'int', 'round', 'str', 'sum', 'min',
                              'max'):
            return True
        if isinstance(e, ast.Call) and isinstance(e.func, ast.Attribute) and \
                isinstance(e.func.value, ast.Name) and e.func.value.id == 'math':
            return True
        return False

    def s_AugAssign(self, st):
        v = self.eval(st.value)
        t = st.target
        if isinstance(t, ast.Name):
            cur = self.env.get(t.id, EMPTY)
            ty = self.ctx.typer
            tt, tv = ty.type_of(t, self.rec), ty.type_of(st.value, self.rec)
            in_place = False
            if isinstance(st.op, (ast.Add, ast.Mult)):
                in_place = 'list' in (tt, tv)
            elif isinstance(st.op, (ast.BitOr, ast.BitAnd, ast.BitXor, ast.Sub)):
                in_place = 'set' in (tt, tv)
            if not in_place and tt is None and tv is None and cur[0] and \
                    isinstance(st.op, (ast.Add, ast.Mult, ast.BitOr, ast.BitAnd)) and \
                    not self._numeric_rhs(st.value):
                # target may be a caller object, neither side has a known type
                item = ('%s %s= %s' % (t.id, '+', _src(st.value)), st.lineno)
                if item not in self.facts.untyped_aug:
                    self.facts.untyped_aug.append(item)
            if in_place:
                self.write(cur, st, 'augmented assignment')
                if t.id not in self.locals:
                    self.nondet('global-write', '%s += ...' % t.id, st)
                self.env[t.id] = vjoin(cur, fresh_of(v))
            else:
                self.env[t.id] = vjoin(fresh_of(cur), fresh_of(v))
        elif isinstance(t, ast.Subscript):
            base = self.eval(t.value)
            self.eval(t.slice)
            self.write(base, st, 'augmented item store')
            self.update_contents(t.value, wrap(v))
        elif isinstance(t, ast.Attribute):
            self.attr_store(t.value, t.attr, v, st)

    def s_Delete(self, st):
        for t in st.targets:
            if isinstance(t, ast.Name):
                self.env.pop(t.id, None)
            elif isinstance(t, ast.Subscript):
                self.write(self.eval(t.value), st, 'del item')
                self.eval(t.slice)
                if self.root_global(t.value) is not None:
                    self.nondet('global-write', 'del %s[..]' % _src(t.value), st)
            elif isinstance(t, ast.Attribute):
                self.attr_store(t.value, t.attr, EMPTY, st)

    def s_Return(self, st):
        if st.value is not None:
            v = self.eval(st.value)
            if self.sink.record_ret:
                self.facts.ret = vjoin(self.facts.ret, v)

    def _guard_slots(self, test, negate=False):
        """slots X such that the branch runs only when `self.X` is None / falsy / absent"""
        s = set()
        sn = self.self_name

        def is_self_attr(x):
            return isinstance(x, ast.Attribute) and isinstance(x.value, ast.Name) and \
                x.value.id == sn
        if sn is None:
            return s
        if isinstance(test, ast.Compare) and len(test.ops) == 1 and \
                is_self_attr(test.left) and isinstance(test.comparators[0], ast.Constant) \
                and test.comparators[0].value is None:
            if isinstance(test.ops[0], (ast.Is, ast.Eq)) and not negate:
                s.add(test.left.attr)
            if isinstance(test.ops[0], (ast.IsNot, ast.NotEq)) and negate:
                s.add(test.left.attr)
        elif isinstance(test, ast.UnaryOp) and isinstance(test.op, ast.Not):
            if is_self_attr(test.operand) and not negate:
                s.add(test.operand.attr)
            elif isinstance(test.operand, ast.Call) and \
                    isinstance(test.operand.func, ast.Name) and \
                    test.operand.func.id == 'hasattr' and len(test.operand.args) == 2 and \
                    isinstance(test.operand.args[1], ast.Constant) and not negate:
                s.add(str(test.operand.args[1].value))
            else:
                s |= self._guard_slots(test.operand, not negate)
        elif is_self_attr(test) and negate:
            s.add(test.attr)
        elif isinstance(test, ast.BoolOp):
            if (isinstance(test.op, ast.And) and not negate) or \
                    (isinstance(test.op, ast.Or) and negate):
                for v in test.values:
                    s |= self._guard_slots(v, negate)
        return s

    @staticmethod
    def _terminates(body):
        return bool(body) and isinstance(body[-1], (ast.Return, ast.Raise, ast.Continue,
                                                    ast.Break))

    def s_If(self, st):
        self.eval(st.test)
        env0 = dict(self.env)
        self.guards.append(frozenset(self._guard_slots(st.test, False)))
        self.run_body(st.body)
        self.guards.pop()
        env1 = self.env
        self.env = env0
        self.guards.append(frozenset(self._guard_slots(st.test, True)))
        self.run_body(st.orelse)
        self.guards.pop()
        self.env = env_join(env1, self.env)
        # `if self._x is not None: return self._x` guards the rest of the block
        if self._terminates(st.body) and not st.orelse:
            g = self._guard_slots(st.test, True)
            if g:
                self._block_guards.append(frozenset(g))

    def run_body(self, body):
        saved = getattr(self, '_block_guards', [])
        self._block_guards = []
        n0 = len(self.guards)
        for st in body:
            k = len(self._block_guards)
            self.stmt(st)
            for g in self._block_guards[k:]:
                self.guards.append(g)
        del self.guards[n0:]
        self._block_guards = saved

    def _loop(self, head, body, orelse):
        env_in = dict(self.env)
        breaks, conts = [], []
        self.loop_stack.append((breaks, conts))
        for _ in range(12):
            self.env = dict(env_in)
            head()
            self.run_body(body)
            new_in = env_join(env_in, self.env)
            for c in conts:
                new_in = env_join(new_in, c)
            if new_in == env_in:
                break
            env_in = new_in
        self.loop_stack.pop()
        self.env = dict(env_in)
        head()
        self.run_body(orelse)
        self.env = env_join(self.env, env_in)
        for b in breaks:
            self.env = env_join(self.env, b)

    def s_For(self, st):
        def head():
            it = self.eval(st.iter)
            self.bind_iter(st.target, st.iter, it)
        self.iter_site(st.iter, 'for', st)
        self._loop(head, st.body, st.orelse)

    s_AsyncFor = s_For

    def s_While(self, st):
        self._loop(lambda: self.eval(st.test), st.body, st.orelse)

    def s_Break(self, st):
        if self.loop_stack:
            self.loop_stack[-1][0].append(dict(self.env))

    def s_Continue(self, st):
        if self.loop_stack:
            self.loop_stack[-1][1].append(dict(self.env))

    def s_Try(self, st):
        self.try_stack.append(dict(self.env))
        self.run_body(st.body)
        acc = self.try_stack.pop()
        env_body = self.env
        outs = []
        self.env = dict(env_body)
        self.run_body(st.orelse)
        outs.append(self.env)
        for h in st.handlers:
            self.env = dict(acc)
            if h.type is not None:
                self.eval(h.type)
            if h.name:
                self.env[h.name] = EMPTY
            self.run_body(h.body)
            outs.append(self.env)
        env = outs[0]
        for o in outs[1:]:
            env = env_join(env, o)
        self.env = env
        if st.finalbody:
            self.env = env_join(self.env, acc)
            self.run_body(st.finalbody)

    s_TryStar = s_Try

    def s_With(self, st):
        for it in st.items:
            v = self.eval(it.context_expr)
            if it.optional_vars is not None:
                self.bind(it.optional_vars, v)
        self.run_body(st.body)

    s_AsyncWith = s_With

    def s_FunctionDef(self, st):
        rec = self.reg.by_node.get(st)
        if rec is not None:
            self.pending_nested.append(rec)
        self.env[st.name] = EMPTY

    s_AsyncFunctionDef = s_FunctionDef

    def s_ClassDef(self, st):
        self.env[st.name] = EMPTY

    def s_Global(self, st):
        self.nondet('global-write', 'global ' + ', '.join(st.names), st)
        for n in st.names:
            self.locals.discard(n)

    def s_Nonlocal(self, st):
        pass

    def s_Import(self, st):
        pass

    s_ImportFrom = s_Import

    def s_Pass(self, st):
        pass

    def s_Assert(self, st):
        self.eval(st.test)
        if st.msg is not None:
            self.eval(st.msg)

    def s_Raise(self, st):
        if st.exc is not None:
            self.eval(st.exc)

    # ------------------------------------------------------------------ driver
    def run(self):
        self.run_body(self.rec.node.body)
        done = set()
        while True:
            todo = [r for r in self.pending_nested if r not in done]
            if not todo:
                break
            for inner in todo:
                done.add(inner)
                env = dict(self.env_all)
                for p in inner.params:
                    env[p] = EMPTY
                sub = Analyzer(self.ctx, inner, Sink(self.facts, False, False), env,
                               self.self_name)
                sub.run()
        if self.rec is self.facts and self.rec.simple == '__init__' and self.self_name:
            pre = self.self_name + '.'
            self.rec.init_fields = {k[len(pre):]: v for k, v in self.env_all.items()
                                    if k.startswith(pre)}


class Effects(object):
    def __init__(self, index):
        self.reg = Registry(index)
        self.typer = Typer(self.reg)
        self.ret = {}             # idx -> abstract return value (callee tags)
        self.untyped_iters = 0
        self.pruned_by_arity = 0
        self.self_calls = {}      # method name -> [(caller, guard slots, in property getter)]
        self.other_calls = set()  # method names called on a receiver other than self

    def analyse_one(self, rec):
        rec.writes = set()
        rec.why = {}
        rec.edges = {}
        rec.self_stores = []
        rec.nondet = []
        rec.ret = EMPTY
        rec.unresolved = []
        rec.lambdas = 0
        rec.dyn_attr = 0
        rec.untyped_aug = []
        rec.private_stores = []
        env = {}
        self_name = None
        for i, p in enumerate(rec.params):
            env[p] = EMPTY if p in SCALAR_PARAM_NAMES else param_val(i)
        if rec.kind == 'class' and rec.params:
            env[rec.params[0]] = EMPTY
        if rec.is_instance_method and rec.params:
            self_name = rec.params[0]
        Analyzer(self, rec, Sink(rec), env, self_name).run()

    def run(self):
        for it in range(12):
            self.untyped_iters = 0
            self.self_calls = {}
            self.other_calls = set()
            changed = False
            for rec in self.reg.recs:
                self.analyse_one(rec)
                if self.ret.get(rec.idx, EMPTY) != rec.ret:
                    self.ret[rec.idx] = vjoin(self.ret.get(rec.idx, EMPTY), rec.ret)
                    changed = True
            if not changed:
                break
        self.passes = it + 1
        # memo helpers: a private method all of whose call sites are `self._h()` under a
        # guard `if self.<slot> is None` (or `not self.<slot>`) for a slot it stores
        for rec in self.reg.recs:
            if not rec.self_stores or rec.kind != 'method' or \
                    not rec.simple.startswith('_') or rec.simple.endswith('__'):
                continue
            stored = set(sl for sl, g, c, ln in rec.self_stores)
            sites = self.self_calls.get(rec.simple, [])
            if sites and rec.simple not in self.other_calls and \
                    all(gs & stored for _c, gs, _p in sites):
                rec.self_stores = [(sl, True, 'helper' if c == 'plain' else c, ln)
                                   for sl, g, c, ln in rec.self_stores]
        # least fixpoint of `mutates`
        mut = {r.idx: set(r.writes) for r in self.reg.recs}
        changed = True
        while changed:
            changed = False
            for r in self.reg.recs:
                m = mut[r.idx]
                for g, pairs in r.edges.items():
                    mg = mut[g]
                    if not mg:
                        continue
                    for (ct, mt) in pairs:
                        if ct in mg and mt not in m:
                            m.add(mt)
                            changed = True
        self.mutates = mut

    def allowed_tags(self, rec):
        out = set()
        if rec.kind != 'nested' and rec.simple in CTOR_NAMES and rec.cls is not None:
            out |= {(0, d) for d in range(K)}
        for p, (depths, _why) in ALLOWED.get(rec.name, {}).items():
            out |= {(p, d) for d in depths}
        return out


# --------------------------------------------------------------------------- Lean output
LEAN_HEADER = '''/- GENERATED by tools/py2lean/effects.py from the repository working tree.  DO NOT EDIT.
   Effect table for property C14; the theorems are in Props/C14.lean.

   Virtual parameter index  i = 5 * p + d :  parameter p (0-based, self/cls = 0),
   d = 0 the object itself, d = 1 its elements / attributes, d = 2, 3 elements of elements,
   d = 4 anything deeper. -/
set_option linter.unusedVariables false
set_option maxRecDepth 8000

/- The table definitions are marked `noncomputable` only to skip code generation (the
   literals are large); they are closed terms that the kernel evaluates (`decide +kernel`
   in Props/C14.lean). -/

namespace Lbg.Gen

/-- a group of call edges with the same argument flow.
    `callees`: indices in `effTable` of the functions the call may resolve to (by name);
    `pairs`: packed pairs `c * 1000 + m`: the callee's virtual parameter `c` may be (part
    of) my virtual parameter `m`. -/
structure CallGroup where
  callees : List Nat
  pairs : List Nat

/-- short constructor name used by the generated table -/
abbrev cg := CallGroup.mk

/-- effect record of one function of the package -/
structure FnEff where
  /-- position in `effTable` -/
  idx : Nat
  /-- module:Class.func -/
  name : String
  isPublic : Bool
  nparams : Nat
  /-- virtual parameters mutated in place by the body itself -/
  writes : List Nat
  /-- call edges -/
  calls : List CallGroup
  /-- CERTIFICATE: claimed closed set of mutated virtual parameters -/
  mutates : List Nat
  /-- virtual parameters documented as updated in place -/
  allowed : List Nat

/-- an attribute store on the receiver outside constructors and property setters -/
structure SelfStore where
  fn : String
  slot : String
  /-- inside `if self.slot is None:` (or the function is a `@property` getter) -/
  guarded : Bool
  /-- "guard" (inside `if self.slot is None`) | "property" (a `@property` getter) |
      "helper" (private method, every call site is `self._h()` under such a guard on a slot
      it stores) | "plain" -/
  ctx : String
deriving DecidableEq, Repr

/-- a potential source of run-to-run variation -/
structure NondetUse where
  fn : String
  /-- "time" | "random" | "id" | "global-write" | "set-iter" | "dict-iter" -/
  kind : String
  detail : String
deriving DecidableEq, Repr

'''

CHUNK = 100
PACK = 1000     # a pair (callee virtual param c, my virtual param m) is emitted as c*PACK+m


def _lstr(s):
    return '"' + s.replace('\\', '\\\\').replace('"', '\\"') + '"'


def _natlist(xs):
    return '[' + ', '.join(str(x) for x in xs) + ']'


def generate(index):
    eff = Effects(index)
    eff.run()
    recs = eff.reg.recs
    touched = {}
    for mname, mod in sorted(index.modules.items()):
        touched['effects:' + mname] = hashlib.sha256(
            ast.dump(mod.tree).encode()).hexdigest()[:16]
    out = [LEAN_HEADER]
    n_edges = 0
    n_pairs = 0
    n_groups = 0
    n_packed = 0
    entries = []
    for r in recs:
        groups = {}
        for g in sorted(r.edges):
            pairs = tuple(sorted(venc(c) * PACK + venc(m) for c, m in r.edges[g]))
            groups.setdefault(pairs, []).append(g)
            n_edges += 1
            n_pairs += len(pairs)
        calls = []
        for pairs, gs in sorted(groups.items(), key=lambda kv: kv[1]):
            n_groups += 1
            n_packed += len(pairs)
            calls.append('cg %s %s' % (_natlist(gs), _natlist(pairs)))
        ent = '  .mk %d %s %s %d %s\n    [%s]\n    %s %s' % (
            r.idx, _lstr(r.name), 'true' if r.is_public else 'false', len(r.params),
            _natlist(sorted(venc(t) for t in r.writes)), ',\n     '.join(calls),
            _natlist(sorted(venc(t) for t in eff.mutates[r.idx])),
            _natlist(sorted(venc(t) for t in eff.allowed_tags(r))))
        entries.append(ent)
    nchunks = (len(entries) + CHUNK - 1) // CHUNK
    for c in range(nchunks):
        out.append('noncomputable def effChunk_%d : List FnEff := [\n%s\n]\n' % (
            c, ',\n'.join(entries[c * CHUNK:(c + 1) * CHUNK])))
    out.append('/-- the chunks of the effect table, in order -/')
    out.append('noncomputable def effChunks : List (List FnEff) := [%s]\n' % ', '.join(
        'effChunk_%d' % c for c in range(nchunks)))
    out.append('/-- the effect table: one record per function of the package -/')
    out.append('noncomputable def effTable : List FnEff := %s\n' % (' ++ '.join(
        'effChunk_%d' % c for c in range(nchunks)) or '[]'))
    out.append('/-- number of records (checked against `effTable.length` in Props/C14) -/')
    out.append('def effCount : Nat := %d\n' % len(entries))
    nonempty = [(r.idx, sorted(venc(t) for t in eff.mutates[r.idx])) for r in recs
                if eff.mutates[r.idx]]
    out.append('/-- CERTIFICATE index: the records whose claimed `mutates` is not empty '
               '(checked\n    against the table entry by entry in Props/C14) -/')
    out.append('def claimedMutates : List (Nat × List Nat) := [\n%s\n]\n' % ',\n'.join(
        '  (%d, %s)' % (i, _natlist(m)) for i, m in nonempty))
    # self stores
    ss = []
    for r in recs:
        for slot, guarded, ctx, line in r.self_stores:
            item = (r.name, slot, guarded, ctx)
            if item not in [x[:4] for x in ss]:
                ss.append(item + (line,))
    lines = []
    for k, (a, b, c, d, ln) in enumerate(ss):
        sep = ',' if k < len(ss) - 1 else ''
        lines.append('  ⟨%s, %s, %s, %s⟩%s  -- line %d' % (
            _lstr(a), _lstr(b), 'true' if c else 'false', _lstr(d), sep, ln))
    out.append('def selfStores : List SelfStore := [\n%s\n]\n' % '\n'.join(lines))
    nd = []
    for r in recs:
        for kind, detail, line in r.nondet:
            item = (r.name, kind, detail)
            if item not in [x[:3] for x in nd]:
                nd.append(item + (line,))
    lines = []
    for k, (a, b, c, ln) in enumerate(nd):
        sep = ',' if k < len(nd) - 1 else ''
        lines.append('  ⟨%s, %s, %s⟩%s  -- line %d' % (_lstr(a), _lstr(b), _lstr(c), sep, ln))
    out.append('def nondetUses : List NondetUse := [\n%s\n]\n' % '\n'.join(lines))
    # statistics / blind spots
    unresolved = [(r.name, t, ln) for r in recs for (t, ln) in r.unresolved]
    stats = {
        'functions': len(recs),
        'public': sum(1 for r in recs if r.is_public),
        'edges': n_edges,
        'edge_pairs': n_pairs,
        'call_groups': n_groups,
        'packed_pairs_emitted': n_packed,
        'direct_writers': sum(1 for r in recs if r.writes),
        'mutators': len(nonempty),
        'self_stores': len(ss),
        'nondet_uses': len(nd),
        'unresolved_calls': len(unresolved),
        'lambdas': sum(r.lambdas for r in recs),
        'dynamic_attr': sum(r.dyn_attr for r in recs),
        'untyped_iterations': eff.untyped_iters,
        'private_class_attr_stores': sum(len(r.private_stores) for r in recs),
        'untyped_augassign': sum(len(r.untyped_aug) for r in recs),
        'passes': eff.passes,
        'scalar_named_params': sum(1 for r in recs for p in r.params
                                   if p in SCALAR_PARAM_NAMES),
    }
    out.append('/- STATISTICS (blind spots are counted, not hidden)')
    for k in sorted(stats):
        out.append('   %s: %d' % (k, stats[k]))
    out.append('   unresolved calls (callee not resolvable by name; assumed not to mutate):')
    for nm, t, ln in unresolved:
        out.append('     %s  line %d  %s' % (nm, ln, t.replace('-/', '- /')))
    out.append('   augmented assignments on a possible caller object with no type evidence '
               '(assumed numeric):')
    for r in recs:
        for t, ln in r.untyped_aug:
            out.append('     %s  line %d  %s' % (r.name, ln, t.replace('-/', '- /')))
    out.append('   ASSUMPTIONS of the extractor (see the module docstring of effects.py):')
    out.append('     parameters named %s are numbers (immutable)' % ', '.join(
        sorted(SCALAR_PARAM_NAMES)))
    out.append('     attribute stores that can only hit instances of private classes '
               '(function: attributes):')
    for r in recs:
        if r.private_stores:
            out.append('       %s: %s' % (r.name, ', '.join(
                sorted(set(a for a, _ln in r.private_stores)))))
    out.append('   allowed (documented in-place updates):')
    for nm in sorted(ALLOWED):
        for p, (depths, why) in sorted(ALLOWED[nm].items()):
            out.append('     %s param %d depths %s: %s' % (nm, p, list(depths), why))
    out.append('-/')
    out.append('')
    out.append('end Lbg.Gen')
    text = '\n'.join(out) + '\n'
    generate.last = eff
    generate.stats = stats
    return text, touched


if __name__ == '__main__':
    import argparse
    import os
    import sys
    HERE = os.path.dirname(os.path.abspath(__file__))
    sys.path.insert(0, HERE)
    from pyindex import Index
    ap = argparse.ArgumentParser()
    ap.add_argument('--repo', default='/repo')
    ap.add_argument('--out', default=None)
    ap.add_argument('--report', action='store_true')
    a = ap.parse_args()
    text, touched = generate(Index(a.repo))
    if a.out:
        old = None
        if os.path.exists(a.out):
            with open(a.out) as f:
                old = f.read()
        if old != text:
            with open(a.out, 'w') as f:
                f.write(text)
    eff = generate.last
    print('effects:', ' '.join('%s=%d' % kv for kv in sorted(generate.stats.items())))
    if a.report:
        for r in eff.reg.recs:
            bad = eff.mutates[r.idx] - eff.allowed_tags(r)
            if r.is_public and bad:
                print('PUBLIC MUTATES', r.name, sorted(bad),
                      [r.params[p] for p, d in sorted(bad)])
        for r in eff.reg.recs:
            for slot, guarded, ctx, line in r.self_stores:
                if not guarded:
                    print('UNGUARDED SELF STORE', r.name, slot, line)
        for r in eff.reg.recs:
            for kind, detail, line in r.nondet:
                print('NONDET', r.name, kind, detail, line)
