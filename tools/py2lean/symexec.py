"""Symbolic interpreter for the Python subset used by ladybug_geometry's kernels.

A kernel is executed on symbolic inputs.  Scalars are expression trees over an ordered
field, repository classes are symbolic objects (class + slot dictionary), control flow on
symbolic conditions forks: the interpreter is re-run once per feasible decision string
(path enumeration) and the runs are merged into one decision tree, which `emit.py` prints
as a Lean definition.  Calls into the repository (methods, properties, operators,
constructors, module functions) are *inlined by interpreting their source*, so the Lean
term always reflects what the working tree says now.

Anything outside the supported subset raises `Unsupported`, which the caller reports as a
failed translation (a broken obligation), never as silence.
"""
import ast
from fractions import Fraction

from pyindex import ClassInfo, FuncInfo


class Unsupported(Exception):
    pass


# set by gen.translate for the kernel being translated (v2 semantics, see Interp.v2)
V2_ACTIVE = [False]


# ---------------------------------------------------------------------------- values
class Sc(object):
    """Symbolic scalar."""
    __slots__ = ('e',)

    def __init__(self, e):
        self.e = e

    def __repr__(self):
        return 'Sc(%r)' % (self.e,)


class Bo(object):
    """Symbolic boolean."""
    __slots__ = ('e',)

    def __init__(self, e):
        self.e = e

    def __repr__(self):
        return 'Bo(%r)' % (self.e,)


class Si(object):
    """Symbolic integer (Lean `Int`): loop counters, `len()` of symbolic lists."""
    __slots__ = ('e',)

    def __init__(self, e):
        self.e = e

    def __repr__(self):
        return 'Si(%r)' % (self.e,)


class Undefined(object):
    """A name whose Python value exists but is not modelled (e.g. a loop-local temporary
    read after the loop).  Any use raises Unsupported."""

    def __init__(self, why):
        self.why = why

    def __repr__(self):
        return 'Undefined(%s)' % self.why


class Obj(object):
    """Symbolic instance of a repository class."""

    _counter = [0]

    def __init__(self, cls):
        self.cls = cls
        self.slots = {}
        Obj._counter[0] += 1
        self.born = Obj._counter[0]

    def __repr__(self):
        return 'Obj(%s,%r)' % (self.cls.name, self.slots)


class SList(object):
    """Symbolic list of unknown length.  `le` is a list-expression tree, `elem` the model
    type of the elements (see kernels.STRUCTS) and `pycls` their Python class name."""

    def __init__(self, le, elem, pycls):
        self.le = le
        self.elem = elem
        self.pycls = pycls


class SDict(object):
    """A dict whose keys are symbolic scalars (v3): the association list of all
    `d[key] = value` stores in order.  `d[k]` reads the LAST pair whose key equals k
    (later stores overwrite earlier ones), `d.keys()` are the first components (possibly
    with repetitions, which is immaterial for min / max / membership)."""

    def __init__(self, pairs):
        self.pairs = pairs          # SList of (key, value) tuples


class SOpt(object):
    """Symbolic optional value (memo slot of unknown fill state).  `name` is the Lean
    term of type `Option τ`; `kind` is 'S', 'B' or a struct/list kind."""

    def __init__(self, name, kind):
        self.name = name
        self.kind = kind


class ClsRef(object):
    def __init__(self, info):
        self.info = info


class FuncRef(object):
    def __init__(self, info, bound=None):
        self.info = info
        self.bound = bound      # None | Obj | ClsRef


class Builtin(object):
    def __init__(self, name):
        self.name = name


class PyModule(object):
    def __init__(self, name):
        self.name = name


class LbgModule(object):
    def __init__(self, info):
        self.info = info


class Lam(object):
    def __init__(self, node, env, func):
        self.node = node
        self.env = env
        self.func = func


class PyType(object):
    """Result of type(x) for builtin kinds."""

    def __init__(self, name):
        self.name = name

    def __eq__(self, o):
        return isinstance(o, PyType) and o.name == self.name

    def __hash__(self):
        return hash(self.name)


class Opaque(object):
    """A value the model does not look into (error messages etc.)."""

    def __init__(self, what):
        self.what = what


# control flow
class _Return(Exception):
    def __init__(self, v):
        self.v = v


class _Break(Exception):
    pass


class _Continue(Exception):
    pass


class PyRaise(Exception):
    def __init__(self, exc):
        self.exc = exc     # exception class name


class PathLimit(Exception):
    pass


class _NeedFork(Exception):
    """Raised in speculative (merge) mode when a new decision would be needed."""
    pass


# ------------------------------------------------------------------- expression helpers
def lit(n):
    if isinstance(n, bool):
        n = int(n)
    return ('lit', Fraction(n))


def is_num(v):
    return isinstance(v, (int, float)) and not isinstance(v, bool) or isinstance(v, Fraction)


def to_sc(v):
    if isinstance(v, Sc):
        return v.e
    if isinstance(v, SOpt):
        raise Unsupported('arithmetic on an optional slot that is not known to be filled')
    if isinstance(v, bool):
        return lit(int(v))
    if isinstance(v, (int, float, Fraction)):
        if isinstance(v, float) and (v != v or v in (float('inf'), float('-inf'))):
            raise Unsupported('non-finite float literal')
        return lit(v)
    if isinstance(v, Bo):
        return ('ite', v.e, lit(1), lit(0))
    if isinstance(v, Si):
        return ('icast', v.e)
    raise Unsupported('not a scalar: %r' % (v,))


def ilit(n):
    return ('ilit', int(n))


def is_int(v):
    return isinstance(v, int) and not isinstance(v, bool)


def to_si(v):
    if isinstance(v, Si):
        return v.e
    if isinstance(v, bool):
        return ilit(int(v))
    if isinstance(v, int):
        return ilit(v)
    raise Unsupported('not an integer: %r' % (v,))


def atomic(e):
    return e[0] in ('var', 'lit', 'pi', 'bvar', 'true', 'false', 'ivar', 'ilit') or \
        (e[0] == 'neg' and atomic(e[1])) or (e[0] == 'not' and atomic(e[1]))


def mk_not(e):
    if e[0] == 'not':
        return e[1]
    if e[0] == 'true':
        return ('false',)
    if e[0] == 'false':
        return ('true',)
    return ('not', e)


def mk_and(a, b):
    if a[0] == 'true':
        return b
    if b[0] == 'true':
        return a
    if a[0] == 'false' or b[0] == 'false':
        return ('false',)
    return ('and', a, b)


def mk_or(a, b):
    if a[0] == 'false':
        return b
    if b[0] == 'false':
        return a
    if a[0] == 'true' or b[0] == 'true':
        return ('true',)
    return ('or', a, b)


def to_bo(v):
    if isinstance(v, Bo):
        return v.e
    if isinstance(v, bool):
        return ('true',) if v else ('false',)
    raise Unsupported('not a boolean: %r' % (v,))


def mk_cmp(op, a, b):
    """Comparison of two scalar expressions, normalised to the atoms `lt` and `eq`."""
    if (a[0] == 'lit' and b[0] == 'lit') or (a[0] == 'ilit' and b[0] == 'ilit'):
        x, y = a[1], b[1]
        r = {'lt': x < y, 'le': x <= y, 'gt': x > y, 'ge': x >= y,
             'eq': x == y, 'ne': x != y}[op]
        return ('true',) if r else ('false',)
    if a == b:
        return ('true',) if op in ('le', 'ge', 'eq') else ('false',)
    if op == 'lt':
        return ('lt', a, b)
    if op == 'gt':
        return ('lt', b, a)
    if op == 'le':
        return ('not', ('lt', b, a))
    if op == 'ge':
        return ('not', ('lt', a, b))
    if op == 'eq':
        return ('eq', a, b)
    if op == 'ne':
        return ('not', ('eq', a, b))
    raise Unsupported(op)


_CMP = {ast.Lt: 'lt', ast.LtE: 'le', ast.Gt: 'gt', ast.GtE: 'ge', ast.Eq: 'eq',
        ast.NotEq: 'ne'}


# ---------------------------------------------------------------------------- tree
class Node(object):
    pass


class Leaf(Node):
    def __init__(self, value, err=None):
        self.value = value
        self.err = err


class Let(Node):
    def __init__(self, name, kind, expr, child):
        self.name, self.kind, self.expr, self.child = name, kind, expr, child


class Branch(Node):
    def __init__(self, cond, then, els):
        self.cond, self.then, self.els = cond, then, els


class Interp(object):
    MAX_PATHS = 400
    MAX_DECISIONS = 60

    def __init__(self, index):
        self.index = index
        self.const_cache = {}
        self.uses_math = False
        self.assumptions = []       # symbolic asserts met on the way (recorded, not enforced)
        # per-run state
        self.prefix = []
        self.decisions = []
        self.known = {}
        self.trace = []
        self.counter = 0
        self.try_depth_zero_div = 0
        self.nofork = 0
        self.sym_lists = {}
        self.defs = {}
        self.spec_starts = []
        self.denominators = None
        self.assert_mode = 'assume'   # 'assume': record symbolic asserts; 'fork': model them
        # v2 semantics (kernels registered after the first generation): IndexError /
        # ValueError of list operations are modelled (forked), symbolic integers, loops
        # with return/break/continue, list accumulators, slices ...  Kernels of the first
        # generation keep the original behaviour so that their emitted text is unchanged.
        self.v2 = False
        self.spec_log = []      # item stores made while speculating (v2): (list, i, old)
        # known lower bounds on the length of named symbolic lists (v2): from the kernel's
        # registered `assume_len` (recorded as an assumption) and from facts established on
        # the current path; used to drop infeasible IndexError branches
        self.len_lower = {}
        self.int_defs = {}      # definitions of let-bound integer names (for bound proofs)

    # ------------------------------------------------------------ path enumeration
    def explore(self, thunk):
        """Run `thunk` once per decision string, merge the traces into a tree."""
        saved = (self.prefix, self.decisions, self.known, self.trace, self.counter)
        saved_len = self.len_lower
        results = []
        stack = [[]]
        npaths = 0
        try:
            while stack:
                prefix = stack.pop()
                npaths += 1
                if npaths > self.MAX_PATHS:
                    raise Unsupported('more than %d paths' % self.MAX_PATHS)
                self.prefix = prefix
                self.decisions = []
                self.known = {}
                self.trace = []
                self.counter = saved[4]
                self.len_lower = dict(saved_len)
                err = None
                value = None
                try:
                    value = thunk()
                except PyRaise as r:
                    err = r.exc
                trace = self.trace
                decs = self.decisions
                results.append((trace, value, err))
                for i in range(len(prefix), len(decs)):
                    stack.append(decs[:i] + [not decs[i]])
        finally:
            (self.prefix, self.decisions, self.known, self.trace, self.counter) = saved
            self.len_lower = saved_len
        return self._merge(results)

    def _merge(self, results):
        def build(items, pos):
            # items: list of (trace, value, err) that agree on trace[:pos]
            first = items[0]
            if pos == len(first[0]):
                if len(items) != 1:
                    raise Unsupported('nondeterministic replay')
                return Leaf(first[1], first[2])
            ev = first[0][pos]
            if ev[0] == 'let':
                return Let(ev[1], ev[2], ev[3], build(items, pos + 1))
            assert ev[0] == 'branch'
            t = [it for it in items if it[0][pos][2]]
            f = [it for it in items if not it[0][pos][2]]
            if not t or not f:
                raise Unsupported('unexplored branch')
            return Branch(ev[1], build(t, pos + 1), build(f, pos + 1))
        return build(results, 0)

    def decide(self, cond):
        if cond[0] == 'true':
            return True
        if cond[0] == 'false':
            return False
        if cond[0] == 'not':
            return not self.decide(cond[1])
        if cond[0] == 'and':
            return self.decide(cond[1]) and self.decide(cond[2])
        if cond[0] == 'or':
            return self.decide(cond[1]) or self.decide(cond[2])
        key = repr(cond)
        if key in self.known:
            return self.known[key]
        if self.nofork > 0:
            raise _NeedFork()
        i = len(self.decisions)
        if i >= self.MAX_DECISIONS:
            raise Unsupported('more than %d decisions on one path' % self.MAX_DECISIONS)
        val = self.prefix[i] if i < len(self.prefix) else True
        self.decisions.append(val)
        self.known[key] = val
        self.trace.append(('branch', cond, val))
        return val

    def expand(self, e, depth=0):
        """Substitute let-bound names by their definitions (for structural equality)."""
        if depth > 6:
            return e
        if e[0] == 'var':
            if e[1] in self.defs:
                return self.expand(self.defs[e[1]], depth + 1)
            return e
        if e[0] in ('add', 'sub', 'mul', 'div', 'min', 'max'):
            return (e[0], self.expand(e[1], depth + 1), self.expand(e[2], depth + 1))
        if e[0] in ('neg', 'abs'):
            return (e[0], self.expand(e[1], depth + 1))
        return e

    def store_item(self, c, i, v):
        """c[i] = v on a concrete python list; logged while speculating so that a failed
        speculation (or the first arm of a merged `if`) can be undone."""
        try:
            old = c[i]
        except IndexError:
            raise PyRaise('IndexError')
        if self.spec_starts:
            self.spec_log.append((c, i, old))
        c[i] = v

    def undo_stores(self, upto):
        while len(self.spec_log) > upto:
            c, i, old = self.spec_log.pop()
            c[i] = old

    def fresh(self, base):
        self.counter += 1
        base = ''.join(ch if ch.isalnum() else '_' for ch in base).strip('_') or 't'
        return '%s_%d' % (base, self.counter)

    def name_value(self, v, base):
        """Let-bind a non-atomic symbolic scalar/boolean and return the bound variable."""
        if isinstance(v, Sc) and not atomic(v.e):
            nm = self.fresh(base)
            self.trace.append(('let', nm, 'S', v.e))
            self.defs[nm] = v.e
            return Sc(('var', nm))
        if isinstance(v, Bo) and not atomic(v.e):
            nm = self.fresh(base)
            self.trace.append(('let', nm, 'B', v.e))
            return Bo(('bvar', nm))
        if isinstance(v, Si) and not atomic(v.e):
            nm = self.fresh(base)
            self.trace.append(('let', nm, 'I', v.e))
            self.int_defs[nm] = v.e
            return Si(('ivar', nm))
        return v

    # ------------------------------------------------------------------- calling
    def call_function(self, fi, args, kwargs, bound=None):
        node = fi.node
        a = node.args
        params = [p.arg for p in a.args]
        if bound is not None:
            args = [bound] + list(args)
        env = {}
        if len(args) > len(params) and a.vararg is None:
            raise PyRaise('TypeError')
        for p, v in zip(params, args):
            env[p] = v
        if a.vararg is not None:
            env[a.vararg.arg] = tuple(args[len(params):])
        defaults = a.defaults
        first_default = len(params) - len(defaults)
        for k, v in kwargs.items():
            if k not in params:
                raise PyRaise('TypeError')
            env[k] = v
        for i, p in enumerate(params):
            if p not in env:
                if i >= first_default:
                    env[p] = self.eval_in_module(fi.module, defaults[i - first_default], fi)
                else:
                    raise PyRaise('TypeError')
        frame = Frame(self, fi, env)
        try:
            frame.exec_block(node.body)
        except _Return as r:
            return r.v
        return None

    def eval_in_module(self, mod, expr, fi=None):
        fr = Frame(self, fi if fi is not None else FuncInfo('<module>', None, mod, None,
                                                            'function'), {})
        fr.module = mod
        return fr.eval(expr)

    def instantiate(self, ci, args, kwargs):
        o = Obj(ci)
        _, init = self.index.find_member(ci, '__init__')
        if init is None:
            if args or kwargs:
                raise Unsupported('no __init__ for %s' % ci.name)
            return o
        self.call_function(init, args, kwargs, bound=o)
        return o

    def call(self, f, args, kwargs):
        if isinstance(f, FuncRef):
            return self.call_function(f.info, args, kwargs, bound=f.bound)
        if isinstance(f, ClsRef):
            return self.instantiate(f.info, args, kwargs)
        if isinstance(f, Builtin):
            return self.call_builtin(f.name, args, kwargs)
        if isinstance(f, Lam):
            fr = Frame(self, f.func, dict(f.env))
            for p, v in zip([p.arg for p in f.node.args.args], args):
                fr.env[p] = v
            return fr.eval(f.node.body)
        if isinstance(f, PyType):
            return self.call_builtin(f.name, args, kwargs)
        raise Unsupported('call of %r' % (f,))

    # ------------------------------------------------------------------ attributes
    def getattr(self, v, attr, frame):
        if isinstance(v, SOpt) and self.v2:
            key = repr(('isnone', v.name))
            if self.known.get(key) is True:
                raise PyRaise('AttributeError')
            if self.known.get(key) is None:
                # attribute of a possibly-None value: decide it (Python raises on None)
                if self.decide(('isnone', v.name)):
                    raise PyRaise('AttributeError')
            v = self.payload(v)
        if isinstance(v, Obj):
            cls = v.cls
            name = frame.mangle(attr)
            if name in v.slots:
                return v.slots[name]
            owner, m = self.index.find_member(cls, name)
            if m is None:
                if attr == '__class__':
                    return ClsRef(cls)
                raise PyRaise('AttributeError')
            return self.bind_member(m, v, owner)
        if isinstance(v, ClsRef):
            name = frame.mangle(attr)
            if attr == '__name__':
                return v.info.name
            owner, m = self.index.find_member(v.info, name)
            if m is None:
                raise Unsupported('class attribute %s.%s' % (v.info.name, attr))
            if isinstance(m, FuncInfo):
                if m.kind == 'class':
                    return FuncRef(m, bound=v)
                return FuncRef(m)
            return self.class_const(owner, name, m)
        if isinstance(v, PyModule):
            return self.module_attr(v.name, attr)
        if isinstance(v, LbgModule):
            r = self.index.resolve_name(v.info, attr)
            return self.wrap_global(r, attr)
        if v is None and self.v2:
            raise PyRaise('AttributeError')
        if isinstance(v, (tuple, list, str, dict)) or v is None or is_num(v):
            return BoundBuiltinMethod(v, attr)
        if isinstance(v, (SList, SDict)):
            return BoundBuiltinMethod(v, attr)
        raise Unsupported('attribute %s of %r' % (attr, v))

    def bind_member(self, m, obj, owner):
        if isinstance(m, FuncInfo):
            if m.kind == 'property':
                return self.call_function(m, [], {}, bound=obj)
            if m.kind == 'static':
                return FuncRef(m)
            if m.kind == 'class':
                return FuncRef(m, bound=ClsRef(obj.cls))
            return FuncRef(m, bound=obj)
        return self.class_const(owner, None, m)

    def class_const(self, owner, name, m):
        key = (owner.name, id(m[1]))
        if key not in self.const_cache:
            expr = m[1]
            # alias such as `__radd__ = __add__`
            if isinstance(expr, ast.Name) and owner.mangle(expr.id) in owner.members:
                mm = owner.members[owner.mangle(expr.id)]
                if isinstance(mm, FuncInfo):
                    self.const_cache[key] = ('func', mm)
                    return FuncRef(mm) if mm.kind == 'static' else ('unbound', mm)
            self.const_cache[key] = ('val', self.eval_in_module(owner.module, expr))
        kind, val = self.const_cache[key]
        if kind == 'func':
            return ('unbound', val)
        return val

    def module_attr(self, mod, attr):
        if mod == 'math':
            if attr == 'pi':
                self.uses_math = True
                return Sc(('pi',))
            if attr in ('sqrt', 'sin', 'cos', 'tan', 'acos', 'asin', 'atan2', 'floor',
                        'ceil', 'degrees', 'radians', 'fabs', 'isclose', 'atan', 'log',
                        'pow', 'hypot'):
                return Builtin('math.' + attr)
        if mod == 'operator' and attr in ('truediv', 'floordiv', 'add', 'sub', 'mul', 'neg'):
            return Builtin('operator.' + attr)
        if mod == 'sys' and attr == 'version_info':
            return (3, 12, 1)
        if mod == 'time' and attr == 'time':
            return Builtin('time.time')
        raise Unsupported('module attribute %s.%s' % (mod, attr))

    def wrap_global(self, r, name):
        if r is None:
            raise Unsupported('unresolved global %s' % name)
        if isinstance(r, ClassInfo):
            return ClsRef(r)
        if isinstance(r, FuncInfo):
            return FuncRef(r)
        if r[0] == 'const':
            key = (r[1].name, name)
            if key not in self.const_cache:
                self.const_cache[key] = self.eval_in_module(r[1], r[2])
            return self.const_cache[key]
        if r[0] == 'pymodule':
            return PyModule(r[1])
        if r[0] == 'lbgmodule':
            return LbgModule(r[1])
        if r[0] == 'pyname':
            if r[1] == 'math':
                return self.module_attr('math', r[2])
            if r[1] == '__future__':
                return None
            if r[1] == 'collections' and r[2] == 'deque':
                return Builtin('collections.deque')
            raise Unsupported('import %s.%s' % (r[1], r[2]))
        raise Unsupported('global %r' % (r,))

    # -------------------------------------------------------------------- builtins
    def truth(self, v):
        """Python truthiness as a concrete bool or a Bo."""
        if isinstance(v, bool):
            return v
        if v is None:
            return False
        if is_num(v):
            return v != 0
        if isinstance(v, Sc):
            return Bo(mk_cmp('ne', v.e, lit(0)))
        if isinstance(v, Bo):
            return v
        if isinstance(v, Si):
            return Bo(mk_cmp('ne', v.e, ilit(0)))
        if type(v).__name__ == 'SymIdx' and self.v2:
            import symloops
            raise symloops._NeedIndexValue()
        if isinstance(v, SList) and self.v2:
            import symloops
            return Bo(('not', ('rawprop', '(%s = [])' % symloops.list_term(v.le))))
        if isinstance(v, (tuple, list, dict, str, set, frozenset)):
            return len(v) != 0
        if isinstance(v, Obj):
            for nm in ('__bool__', '__len__'):
                _, m = self.index.find_member(v.cls, nm)
                if isinstance(m, FuncInfo):
                    r = self.call_function(m, [], {}, bound=v)
                    return self.truth(r)
            return True
        if isinstance(v, (FuncRef, ClsRef, Builtin, Opaque)):
            return True
        if isinstance(v, SOpt):
            pv = self.payload(v)
            return self.truth(pv)
        raise Unsupported('truthiness of %r' % (v,))

    def test(self, v):
        t = self.truth(v)
        if isinstance(t, bool):
            return t
        return self.decide(t.e)

    def payload(self, v):
        """Value inside an optional slot on a path where it is known to be filled."""
        key = repr(('isnone', v.name))
        if self.known.get(key) is not False:
            raise Unsupported('use of optional slot %s not guarded by `is not None`' % v.name)
        k = v.kind if isinstance(v.kind, str) else None
        if k == 'S':
            return Sc(('var', '(%s.getD 0)' % v.name))
        if k == 'B':
            return Bo(('bvar', '(%s.getD false)' % v.name))
        if k == 'I' and self.v2:
            return Si(('ivar', '(Option.getD %s (0 : Int))' % v.name))
        if self.v2 and k is not None:
            import mtypes
            import symloops
            if k in mtypes.STRUCTS and k not in mtypes.SLOT_COMPLETE:
                return mtypes.make_input(self.index, '(Option.getD %s %s)' % (
                    v.name, symloops._default_term(k)), k, getattr(v, 'pycls', None) or
                    mtypes.RESULT_CLASSES[k][-1])
        raise Unsupported('payload of optional slot of kind %r' % (v.kind,))

    def arith(self, op, a, b):
        if isinstance(a, SOpt):
            a = self.payload(a)
        if isinstance(b, SOpt):
            b = self.payload(b)
        if type(a).__name__ == 'SymIdx' and isinstance(b, int) and op in ('add', 'sub'):
            import symloops
            return symloops.SymIdx(a.key, a.off + (b if op == 'add' else -b))
        if (type(a).__name__ == 'SymIdx' or type(b).__name__ == 'SymIdx') and self.v2:
            import symloops
            raise symloops._NeedIndexValue()
        if (a is None or b is None) and self.v2:
            raise PyRaise('TypeError')
        if isinstance(a, Obj) or isinstance(b, Obj):
            return self.obj_binop(op, a, b)
        if isinstance(a, Si) or isinstance(b, Si):
            r = self.int_arith(op, a, b)
            if r is not None:
                return r
        if isinstance(a, SList) and isinstance(b, SList) and op == 'add' and self.v2:
            if a.elem != b.elem:
                raise Unsupported('concatenation of lists of different kinds')
            return SList(('lappend', a.le, b.le), a.elem, a.pycls)
        if op == 'add' and self.v2 and (
                (isinstance(a, SList) and isinstance(b, (tuple, list))) or
                (isinstance(b, SList) and isinstance(a, (tuple, list)))):
            import symloops
            if isinstance(a, SList):
                r = SList(a.le, a.elem, a.pycls)
                for x in b:
                    r.le = ('lsnoc', r.le, symloops._item_term(self, r, x))
                return r
            r = SList(b.le, b.elem, b.pycls)
            for x in reversed(a):
                r.le = ('lcons', symloops._item_term(self, r, x), r.le)
            return r
        if isinstance(a, bool):
            a = int(a)
        if isinstance(b, bool):
            b = int(b)
        if is_num(a) and is_num(b):
            try:
                if op == 'add':
                    return a + b
                if op == 'sub':
                    return a - b
                if op == 'mul':
                    return a * b
                if op == 'div':
                    return a / b
                if op == 'floordiv':
                    return a // b
                if op == 'mod':
                    return a % b
                if op == 'pow':
                    return a ** b
            except ZeroDivisionError:
                raise PyRaise('ZeroDivisionError')
        if op in ('add', 'mul') and isinstance(a, (tuple, list, str)):
            if op == 'add' and type(a) == type(b):
                return a + b
            if op == 'mul' and isinstance(b, int):
                return a * b
        if op == 'mul' and isinstance(b, (tuple, list)) and isinstance(a, int):
            return a * b
        if op == 'mod' and isinstance(a, str):
            return a
        if isinstance(a, (Sc, Bo, Si)) or isinstance(b, (Sc, Bo, Si)) or \
                is_num(a) and is_num(b):
            ea, eb = to_sc(a), to_sc(b)
            if op in ('add', 'sub', 'mul'):
                return Sc((op, ea, eb))
            if op == 'div':
                if eb[0] == 'lit' and eb[1] == 0:
                    raise PyRaise('ZeroDivisionError')
                if self.denominators is not None:
                    if eb not in self.denominators:
                        self.denominators.append(eb)
                elif eb[0] == 'lit' and getattr(self, 'model_zero_div', False) and \
                        self.try_depth_zero_div == 0:
                    pass        # a non-zero literal denominator never raises
                elif self.try_depth_zero_div > 0 or getattr(self, 'model_zero_div', False):
                    # (model_zero_div: the kernel registers that ZeroDivisionError is part
                    # of its modelled behaviour also outside try blocks)
                    if self.decide(('eq', eb, lit(0))):
                        raise PyRaise('ZeroDivisionError')
                return Sc(('div', ea, eb))
            if op == 'pow':
                if is_num(b) and float(b) == int(b) and 0 <= int(b) <= 8:
                    n = int(b)
                    if n == 0:
                        return 1
                    e = ea
                    for _ in range(n - 1):
                        e = ('mul', e, ea)
                    return Sc(e)
                if is_num(b) and float(b) == 0.5:
                    self.uses_math = True
                    return Sc(('math', 'sqrt', (ea,)))
                raise Unsupported('power with exponent %r' % (b,))
            if op == 'floordiv' and self.v2:
                # Python float floor division: floor(a / b) (ZeroDivisionError as for `/`)
                self.uses_math = True
                if eb[0] == 'lit' and eb[1] == 0:
                    raise PyRaise('ZeroDivisionError')
                if self.try_depth_zero_div > 0 and self.denominators is None:
                    if self.decide(('eq', eb, lit(0))):
                        raise PyRaise('ZeroDivisionError')
                return Sc(('math', 'floor', (('div', ea, eb),)))
            if op == 'mod':
                self.uses_math = True
                # Python float modulo: a - floor(a / b) * b
                return Sc(('sub', ea, ('mul', ('math', 'floor', (('div', ea, eb),)), eb)))
        raise Unsupported('arith %s on %r, %r' % (op, a, b))

    def int_arith(self, op, a, b):
        """Arithmetic with at least one symbolic integer; None when the operation leaves
        the integers (the caller then continues with the field embedding)."""
        if not ((isinstance(a, Si) or is_int(a) or isinstance(a, bool)) and
                (isinstance(b, Si) or is_int(b) or isinstance(b, bool))):
            return None
        ea, eb = to_si(a), to_si(b)
        if op in ('add', 'sub', 'mul'):
            return Si(('i' + op, ea, eb))
        if op in ('mod', 'floordiv'):
            # Lean's Int `%` / `/` are the Euclidean ones: they agree with Python's floor
            # semantics exactly when the divisor is positive
            if eb[0] == 'ilit' and eb[1] > 0:
                return Si(('i' + op, ea, eb))
            raise Unsupported('integer %s by a divisor that is not a positive literal' % op)
        if op == 'pow':
            if eb[0] == 'ilit' and 0 <= eb[1] <= 8:
                if eb[1] == 0:
                    return 1
                e = ea
                for _ in range(eb[1] - 1):
                    e = ('imul', e, ea)
                return Si(e)
            raise Unsupported('integer power')
        return None

    _DUNDER = {'add': '__add__', 'sub': '__sub__', 'mul': '__mul__', 'div': '__truediv__',
               'floordiv': '__floordiv__', 'mod': '__mod__', 'pow': '__pow__'}
    _RDUNDER = {'add': '__radd__', 'sub': '__rsub__', 'mul': '__rmul__',
                'div': '__rtruediv__', 'floordiv': '__rfloordiv__'}

    def obj_binop(self, op, a, b):
        if isinstance(a, Obj):
            owner, m = self.index.find_member(a.cls, self._DUNDER[op])
            if m is not None:
                return self.call_member(m, owner, a, [b])
        if isinstance(b, Obj) and op in self._RDUNDER:
            owner, m = self.index.find_member(b.cls, self._RDUNDER[op])
            if m is not None:
                return self.call_member(m, owner, b, [a])
        raise Unsupported('operator %s on objects' % op)

    def call_member(self, m, owner, obj, args):
        if isinstance(m, FuncInfo):
            return self.call_function(m, args, {}, bound=obj)
        r = self.class_const(owner, None, m)
        if isinstance(r, tuple) and r[0] == 'unbound':
            return self.call_function(r[1], args, {}, bound=obj)
        raise Unsupported('member call')

    def compare(self, op, a, b):
        """op in lt le gt ge eq ne is isnot in notin -> bool or Bo."""
        if type(a).__name__ == 'SymIdx' or type(b).__name__ == 'SymIdx':
            if self.v2:
                import symloops
                raise symloops._NeedIndexValue()
            raise Unsupported('comparison of a symbolic loop index')
        if op in ('is', 'isnot'):
            if isinstance(a, SOpt) or isinstance(b, SOpt):
                o, other = (a, b) if isinstance(a, SOpt) else (b, a)
                if other is not None:
                    raise Unsupported('identity test on optional slot')
                r = Bo(('isnone', o.name))
                return r if op == 'is' else Bo(mk_not(r.e))
            if a is None or b is None or isinstance(a, bool) or isinstance(b, bool):
                if isinstance(a, Bo) or isinstance(b, Bo):
                    # `x is True` on a symbolic boolean
                    bo, other = (a, b) if isinstance(a, Bo) else (b, a)
                    if other is None:
                        r = False
                    elif other is True:
                        r = bo
                    else:
                        r = Bo(mk_not(bo.e))
                    if op == 'is':
                        return r
                    return (not r) if isinstance(r, bool) else Bo(mk_not(r.e))
                r = a is b
            elif isinstance(a, (Bo, bool)) and isinstance(b, (Bo, bool)):
                # True / False are singletons: `is` on booleans is equality
                r = self.compare('eq', a, b)
                if op == 'is':
                    return r
                return (not r) if isinstance(r, bool) else Bo(mk_not(r.e))
            elif isinstance(a, (Sc, Bo)) or isinstance(b, (Sc, Bo)):
                raise Unsupported('identity test on symbolic value')
            else:
                r = a is b
            return r if op == 'is' else not r
        if op in ('in', 'notin'):
            r = self.contains(b, a)
            if op == 'in':
                return r
            return (not r) if isinstance(r, bool) else Bo(mk_not(r.e))
        if isinstance(a, SOpt):
            a = self.payload(a)
        if isinstance(b, SOpt):
            b = self.payload(b)
        if isinstance(a, Obj) or isinstance(b, Obj):
            return self.obj_compare(op, a, b)
        if isinstance(a, SList) and isinstance(b, SList) and self.v2 and op in ('eq', 'ne'):
            import symloops
            import mtypes
            ka, kb = mtypes.parse_type(a.elem), mtypes.parse_type(b.elem)
            if ka != kb or ka not in ('V2', 'V3', 'S', 'B', 'I'):
                raise Unsupported('equality of symbolic lists of kinds %r, %r' % (ka, kb))
            # Point / Vector __eq__ compares the coordinate tuples exactly, i.e. it is the
            # structural equality of V2 / V3
            r = Bo(('rawprop', '(%s = %s)' % (symloops.list_term(a.le),
                                               symloops.list_term(b.le))))
            return r if op == 'eq' else Bo(mk_not(r.e))
        if isinstance(a, (tuple, list)) and isinstance(b, (tuple, list)):
            if op in ('eq', 'ne'):
                if type(a) != type(b) or len(a) != len(b):
                    r = False
                else:
                    acc = ('true',)
                    for x, y in zip(a, b):
                        c = self.compare('eq', x, y)
                        acc = mk_and(acc, to_bo(c))
                    r = True if acc[0] == 'true' else False if acc[0] == 'false' \
                        else Bo(acc)
                if op == 'eq':
                    return r
                return (not r) if isinstance(r, bool) else Bo(mk_not(r.e))
            raise Unsupported('ordering of sequences')
        if (isinstance(a, Si) or isinstance(b, Si)) and \
                (isinstance(a, Si) or is_int(a)) and (isinstance(b, Si) or is_int(b)):
            r = mk_cmp(op, to_si(a), to_si(b))
            if r[0] == 'true':
                return True
            if r[0] == 'false':
                return False
            return Bo(r)
        if isinstance(a, (Sc, Bo, Si)) or isinstance(b, (Sc, Bo, Si)):
            if (a is None or b is None) or isinstance(a, str) or isinstance(b, str):
                if op == 'eq':
                    return False
                if op == 'ne':
                    return True
                raise PyRaise('TypeError')
            if isinstance(a, Bo) and isinstance(b, Bo) and op in ('eq', 'ne'):
                r = mk_or(mk_and(a.e, b.e), mk_and(mk_not(a.e), mk_not(b.e)))
                return Bo(r if op == 'eq' else mk_not(r))
            if isinstance(a, Bo) and isinstance(b, bool) and op in ('eq', 'ne'):
                r = a.e if b else mk_not(a.e)
                return Bo(r if op == 'eq' else mk_not(r))
            if isinstance(b, Bo) and isinstance(a, bool) and op in ('eq', 'ne'):
                return self.compare(op, b, a)
            ea, eb = to_sc(a), to_sc(b)
            r = mk_cmp(op, ea, eb)
            if r[0] not in ('true', 'false') and (ea[0] == 'var' or eb[0] == 'var'):
                xa, xb = self.expand(ea), self.expand(eb)
                if xa == xb:
                    r = mk_cmp(op, xa, xb)
            if r[0] == 'true':
                return True
            if r[0] == 'false':
                return False
            return Bo(r)
        try:
            if op == 'lt':
                return a < b
            if op == 'le':
                return a <= b
            if op == 'gt':
                return a > b
            if op == 'ge':
                return a >= b
            if op == 'eq':
                return self.py_eq(a, b)
            if op == 'ne':
                return not self.py_eq(a, b)
        except TypeError:
            raise PyRaise('TypeError')
        raise Unsupported('compare %s' % op)

    def py_eq(self, a, b):
        if isinstance(a, ClsRef) and isinstance(b, ClsRef):
            return a.info is b.info
        if isinstance(a, (PyType, Builtin)) and isinstance(b, (PyType, Builtin)):
            return a.name == b.name
        if isinstance(a, (ClsRef, FuncRef, Builtin, Opaque)) or \
                isinstance(b, (ClsRef, FuncRef, Builtin, Opaque)):
            return a is b
        return a == b

    def obj_compare(self, op, a, b):
        dn = {'eq': '__eq__', 'ne': '__ne__', 'lt': '__lt__', 'le': '__le__',
              'gt': '__gt__', 'ge': '__ge__'}[op]
        if isinstance(a, Obj):
            owner, m = self.index.find_member(a.cls, dn)
            if m is not None:
                return self.call_member(m, owner, a, [b])
            if op == 'ne':
                r = self.obj_compare('eq', a, b)
                return (not r) if isinstance(r, bool) else Bo(mk_not(to_bo(r)))
            if op == 'eq':
                return a is b
        if isinstance(b, Obj):
            sw = {'eq': 'eq', 'ne': 'ne', 'lt': 'gt', 'gt': 'lt', 'le': 'ge', 'ge': 'le'}
            if isinstance(a, Obj):
                raise Unsupported('comparison %s of objects' % op)
            return self.obj_compare(sw[op], b, a)
        raise Unsupported('comparison %s of objects' % op)

    def contains(self, container, item):
        if isinstance(container, (tuple, list, set, frozenset)):
            acc = ('false',)
            for x in container:
                c = self.compare('eq', x, item)
                if c is True:
                    return True
                if c is False:
                    continue
                acc = mk_or(acc, to_bo(c))
            if acc[0] == 'false':
                return False
            return Bo(acc)
        if isinstance(container, SList) and self.v2:
            import symloops
            import mtypes
            kd = mtypes.parse_type(container.elem)
            if kd == 'I' and (isinstance(item, Si) or is_int(item)):
                return Bo(('rawprop', '(%s ∈ %s)' % (
                    __import__('emit').sexpr(to_si(item)), symloops.list_term(container.le))))
            raise Unsupported('membership in a symbolic list of kind %r' % (kd,))
        if isinstance(container, dict):
            return item in container
        if isinstance(container, str):
            return item in container
        if isinstance(container, range):
            if isinstance(item, int):
                return item in container
        raise Unsupported('membership in %r' % (container,))

    def call_builtin(self, name, args, kwargs):
        if name.startswith('math.'):
            fn = name[5:]
            self.uses_math = True
            if fn == 'degrees':
                return self.arith('div', self.arith('mul', args[0], 180), Sc(('pi',)))
            if fn == 'radians':
                return self.arith('div', self.arith('mul', args[0], Sc(('pi',))), 180)
            if fn == 'fabs':
                return self.call_builtin('abs', args, {})
            if fn == 'ceil':
                x = to_sc(args[0])
                return Sc(('neg', ('math', 'floor', (('neg', x),))))
            if fn in ('sqrt', 'sin', 'cos', 'tan', 'acos', 'asin', 'atan2', 'floor'):
                if all(is_num(a) for a in args):
                    import math as _m
                    if fn == 'floor':
                        return _m.floor(args[0])
                return Sc(('math', fn, tuple(to_sc(a) for a in args)))
            raise Unsupported(name)
        if name.startswith('operator.'):
            opn = name.split('.')[1]
            if opn == 'neg' and len(args) == 1:
                return self.arith('sub', 0, args[0])
            if len(args) == 2:
                return self.arith({'truediv': 'div'}.get(opn, opn), args[0], args[1])
            raise Unsupported(name)
        if name == 'collections.deque':
            if len(args) == 1 and isinstance(args[0], SList) and self.v2:
                r_ = SList(args[0].le, args[0].elem, args[0].pycls)
                r_.is_deque = True
                return r_
            raise Unsupported('deque(%r)' % (args,))
        if name == 'float':
            v = args[0]
            if isinstance(v, (Sc,)):
                return v
            if is_num(v):
                return v
            if isinstance(v, (Bo, Si)):
                return Sc(to_sc(v))
            raise PyRaise('TypeError')
        if name == 'int':
            v = args[0]
            if is_num(v):
                return int(v)
            if isinstance(v, Si):
                return v
            if isinstance(v, Sc) and self.v2:
                # truncation toward zero, kept as an (integer-valued) field element
                self.uses_math = True
                x = self.name_value(v, 'ix')
                return Sc(('ite', ('lt', x.e, lit(0)),
                           ('neg', ('math', 'floor', (('neg', x.e),))),
                           ('math', 'floor', (x.e,))))
            if isinstance(v, Sc):
                raise Unsupported('int() of symbolic scalar')
            raise PyRaise('TypeError')
        if name == 'bool':
            return self.truth(args[0])
        if name == 'abs':
            v = args[0]
            if isinstance(v, SOpt):
                v = self.payload(v)
            if is_num(v):
                return abs(v)
            if isinstance(v, Obj):
                _, m = self.index.find_member(v.cls, '__abs__')
                return self.call_function(m, [], {}, bound=v)
            if isinstance(v, Si):
                return Si(('iabs', v.e))
            return Sc(('abs', to_sc(v)))
        if name in ('min', 'max'):
            if len(args) == 1 and isinstance(args[0], SList) and self.v2 and not kwargs:
                import symloops
                return symloops.sym_minmax(_FrameShim(self), name, args[0])
            if kwargs:
                raise Unsupported('%s() with keyword arguments' % name)
            if len(args) == 1:
                args = list(self.iterate(args[0]))
            if all(is_num(a) for a in args):
                return min(args) if name == 'min' else max(args)
            if not args:
                raise PyRaise('ValueError')
            e = to_sc(args[0])
            for a in args[1:]:
                e = (name, e, to_sc(a))
            return Sc(e)
        if name == 'len':
            v = args[0]
            if isinstance(v, (tuple, list, dict, str, set, frozenset, range)):
                return len(v)
            if isinstance(v, Obj):
                _, m = self.index.find_member(v.cls, '__len__')
                if m is not None:
                    return self.call_function(m, [], {}, bound=v)
            if isinstance(v, SList):
                import symloops
                if self.v2:
                    return Si(('ivar', '((%s).length : Int)' % symloops.list_term(v.le)))
                return Sc(('raw', '((%s).length : α)' % symloops.list_term(v.le)))
            raise PyRaise('TypeError')
        if name == 'range':
            if all(isinstance(a, int) for a in args):
                return range(*args)
            if self.v2 and not kwargs and len(args) in (1, 2) and \
                    all(isinstance(a, Si) or is_int(a) for a in args):
                # range(n) / range(a, n) with a symbolic bound: the list of integers
                # a, a+1, ..., n-1 (empty when n <= a); loops over it are folds
                lo = args[0] if len(args) == 2 else 0
                hi = args[-1]
                if not (is_int(lo) and lo >= 0):
                    raise Unsupported('symbolic range with a symbolic / negative start')
                hi = self.name_value(hi, 'n') if isinstance(hi, Si) else hi
                r = SList(('lirange', lo, __import__('emit').sexpr(to_si(hi))), 'I', None)
                r.range_bounds = (lo, to_si(hi))
                return r
            raise Unsupported('symbolic range')
        if name == 'enumerate':
            if self.v2 and isinstance(args[0], Obj):
                _, m_ = self.index.find_member(args[0].cls, '__iter__')
                if m_ is not None:
                    r_ = self.call_function(m_, [], {}, bound=args[0])
                    if isinstance(r_, SList):
                        args = [r_] + list(args[1:])
            if isinstance(args[0], SList):
                if len(args) > 1 or kwargs:
                    raise Unsupported('enumerate() with a start value over a symbolic list')
                return ('enumerate', args[0])
            return list(enumerate(self.iterate(args[0])))
        if name == 'zip':
            if self.v2 and len(args) == 2 and all(isinstance(a, SList) for a in args):
                return SList(('lzip', args[0].le, args[1].le),
                             ('tup', args[0].elem, args[1].elem),
                             (args[0].pycls, args[1].pycls))
            return list(zip(*[list(self.iterate(a)) for a in args]))
        if name == 'reversed':
            if isinstance(args[0], SList):
                return SList(('lrev', args[0].le), args[0].elem, args[0].pycls)
            return list(reversed(list(self.iterate(args[0]))))
        if name in ('tuple', 'list'):
            if not args:
                return () if name == 'tuple' else []
            if isinstance(args[0], SList):
                if self.v2:     # a new sequence object (no aliasing with the argument)
                    return SList(args[0].le, args[0].elem, args[0].pycls)
                return args[0]
            it = list(self.iterate(args[0]))
            return tuple(it) if name == 'tuple' else it
        if name == 'sum':
            if isinstance(args[0], SList):
                import symloops
                return symloops.sym_sum(None if False else _FrameShim(self), args[0],
                                        args[1] if len(args) > 1 else 0)
            it = list(self.iterate(args[0]))
            acc = args[1] if len(args) > 1 else 0
            for x in it:
                acc = self.arith('add', acc, x)
            return acc
        if name == 'isinstance':
            return self.isinstance(args[0], args[1])
        if name == 'getattr' and self.v2:
            if len(args) in (2, 3) and isinstance(args[1], str) and isinstance(args[0], Obj):
                try:
                    return self.getattr(args[0], args[1], Frame(self, FuncInfo(
                        '<getattr>', None, args[0].cls.module, None, 'function'), {}))
                except PyRaise:
                    if len(args) == 3:
                        return args[2]
                    raise
            raise Unsupported('getattr(%r, %r)' % (args[0], args[1]))
        if name == 'hasattr':
            v, a = args
            if isinstance(v, Obj):
                if a in v.slots:
                    return True
                _, m = self.index.find_member(v.cls, a)
                return m is not None
            if isinstance(v, (tuple, list)):
                return a in ('__len__', '__iter__', '__getitem__')
            if isinstance(v, (Sc, int, float)):
                return False
            raise Unsupported('hasattr on %r' % (v,))
        if name == 'type':
            v = args[0]
            if isinstance(v, Obj):
                return ClsRef(v.cls)
            if isinstance(v, Sc) or isinstance(v, float):
                return PyType('float')
            if isinstance(v, bool) or isinstance(v, Bo):
                return PyType('bool')
            if isinstance(v, int) or isinstance(v, Si):
                return PyType('int')
            if isinstance(v, tuple):
                return PyType('tuple')
            if isinstance(v, list):
                return PyType('list')
            if isinstance(v, str):
                return PyType('str')
            if v is None:
                return PyType('NoneType')
            return Opaque('type')
        if name == 'hash':
            return Opaque('hash')
        if name == 'str' or name == 'repr':
            return '<str>'
        if name == 'round':
            v = args[0]
            if len(args) == 1 and not kwargs and self.v2 and isinstance(v, Sc):
                # round-half-to-even of a float, as an integer-valued field element:
                #   f = floor(x + 1/2); if x + 1/2 = f and f is odd then f - 1 else f
                self.uses_math = True
                x = self.name_value(v, 'rx')
                h = ('add', x.e, ('lit', Fraction(1, 2)))
                f = self.name_value(Sc(('math', 'floor', (h,))), 'rf')
                odd = ('not', ('eq', ('mul', ('math', 'floor', (('div', f.e, lit(2)),)),
                                      lit(2)), f.e))
                tie = ('and', ('eq', h, f.e), odd)
                return Sc(('ite', tie, ('sub', f.e, lit(1)), f.e))
            if len(args) == 1 and is_num(v):
                return round(v)
            raise Unsupported('round()')
        if name == 'sorted':
            it = list(self.iterate(args[0]))
            if all(is_num(x) for x in it) and not kwargs:
                return sorted(it)
            raise Unsupported('sorted on symbolic values')
        if name in ('any', 'all') and isinstance(args[0], SList) and self.v2:
            import symloops
            if args[0].elem != 'B':
                raise Unsupported('%s() over a symbolic list of non-booleans' % name)
            return Bo(('bvar', '(List.%s %s (fun b => b))' % (
                name, symloops.list_term(args[0].le))))
        if name == 'any' or name == 'all':
            it = list(self.iterate(args[0]))
            acc = ('false',) if name == 'any' else ('true',)
            for x in it:
                t = self.truth(x)
                te = to_bo(t)
                acc = mk_or(acc, te) if name == 'any' else mk_and(acc, te)
            if acc[0] in ('true', 'false'):
                return acc[0] == 'true'
            return Bo(acc)
        if name == 'iter':
            if isinstance(args[0], SList) and self.v2:
                return SList(args[0].le, args[0].elem, args[0].pycls)
            return list(self.iterate(args[0]))
        if name == 'time.time':
            raise Unsupported('time.time()')
        raise Unsupported('builtin %s' % name)

    def isinstance(self, v, spec):
        if isinstance(spec, tuple):
            return any(self.isinstance(v, s) for s in spec)
        if isinstance(spec, ClsRef):
            return isinstance(v, Obj) and self.index.is_subclass(v.cls, spec.info.name)
        if isinstance(spec, (PyType, Builtin)):
            n = spec.name
            if n == 'float':
                return isinstance(v, (Sc, float))
            if n == 'int':
                return isinstance(v, int) and not isinstance(v, bool) or \
                    isinstance(v, bool) or isinstance(v, Si)
            if n == 'bool':
                return isinstance(v, (bool, Bo))
            if n in ('tuple', 'list', 'str', 'dict'):
                return type(v).__name__ == n or (n in ('tuple', 'list') and
                                                 isinstance(v, SList))
            if n == 'object':
                return True
        raise Unsupported('isinstance(%r, %r)' % (v, spec))

    def iterate(self, v):
        if isinstance(v, (tuple, list, range, set, frozenset)):
            return list(v)
        if isinstance(v, dict):
            return list(v.keys())
        if isinstance(v, Obj):
            _, m = self.index.find_member(v.cls, '__iter__')
            if m is not None:
                return self.iterate(self.call_function(m, [], {}, bound=v))
            _, m = self.index.find_member(v.cls, '__getitem__')
            _, ln = self.index.find_member(v.cls, '__len__')
            if m is not None and ln is not None:
                n = self.call_function(ln, [], {}, bound=v)
                return [self.call_function(m, [i], {}, bound=v) for i in range(n)]
        if isinstance(v, SList):
            raise Unsupported('iteration over symbolic list outside a supported loop')
        raise Unsupported('iteration over %r' % (v,))


class _FrameShim(object):
    def __init__(self, interp):
        self.I = interp


class BoundBuiltinMethod(object):
    def __init__(self, recv, name):
        self.recv = recv
        self.name = name


BUILTIN_NAMES = ('float', 'int', 'bool', 'abs', 'min', 'max', 'len', 'range', 'enumerate',
                 'zip', 'reversed', 'tuple', 'list', 'sum', 'isinstance', 'hasattr',
                 'type', 'hash', 'str', 'repr', 'round', 'sorted', 'any', 'all', 'iter',
                 'dict', 'set', 'object', 'getattr')


class Frame(object):
    def __init__(self, interp, func, env):
        self.I = interp
        self.func = func
        self.module = func.module
        self.env = env

    def mangle(self, attr):
        if self.func is not None and self.func.cls is not None:
            return self.func.cls.mangle(attr)
        return attr

    # ----------------------------------------------------------------- statements
    def exec_block(self, stmts):
        for i, st in enumerate(stmts):
            if isinstance(st, ast.If) and self.try_merge_return(st, stmts[i + 1:]):
                return
            if isinstance(st, ast.Try) and self.try_merge_zero_div(st):
                return
            self.exec_stmt(st)

    def try_merge_return(self, st, rest):
        """An `if` whose two continuations both end in `return` of mergeable values,
        evaluated without forking, becomes one return of `if c then A else B`.
        (Continuations: the body, and the else-block or the rest of the enclosing block.)"""
        I = self.I
        if not _ends_in_return(st.body):
            return False
        if st.orelse:
            if not _ends_in_return(st.orelse):
                return False
            other = st.orelse
        else:
            if not rest or not _ends_in_return(rest):
                return False
            other = rest
        if not _spec_safe_block(st.body) or not _spec_safe_block(other):
            return False
        saved_trace = len(I.trace)
        saved_counter = I.counter
        saved_env = dict(self.env)
        ok0, tv = self._speculate(lambda: I.truth(self.eval(st.test)))
        if not ok0 or not isinstance(tv, Bo):
            self._rollback(saved_env, saved_trace, saved_counter)
            return False
        key = repr(tv.e if tv.e[0] != 'not' else tv.e[1])
        if key in I.known:
            self._rollback(saved_env, saved_trace, saved_counter)
            return False
        env0 = dict(self.env)
        ok1, a = self._speculate(lambda: self.exec_block(st.body), want_return=True)
        if not ok1:
            self._rollback(saved_env, saved_trace, saved_counter)
            return False
        self.env.clear()
        self.env.update(env0)
        ok2, b = self._speculate(lambda: self.exec_block(other), want_return=True)
        if not ok2:
            self._rollback(saved_env, saved_trace, saved_counter)
            return False
        m = _merge_values(tv.e, a, b, I)
        if m is None and not (a is None and b is None):
            self._rollback(saved_env, saved_trace, saved_counter)
            return False
        raise _Return(m)

    def _rollback(self, env, trace_len, counter):
        I = self.I
        self.env.clear()
        self.env.update(env)
        del I.trace[trace_len:]
        I.counter = counter

    def try_merge_zero_div(self, st):
        """try: return A  except ZeroDivisionError: return B   ->   if (some evaluated
        denominator = 0) then B else A, without forking."""
        I = self.I
        if len(st.body) != 1 or not isinstance(st.body[0], ast.Return) or \
                st.body[0].value is None or len(st.handlers) != 1 or st.orelse or \
                st.finalbody:
            return False
        h = st.handlers[0]
        if _handler_names(h) != ['ZeroDivisionError'] or len(h.body) != 1 or \
                not isinstance(h.body[0], ast.Return) or h.body[0].value is None:
            return False
        saved_trace = len(I.trace)
        saved_counter = I.counter
        saved_env = dict(self.env)
        saved_den = I.denominators
        I.denominators = []
        try:
            ok1, a = self._speculate(lambda: self.eval(st.body[0].value))
            dens = I.denominators
        finally:
            I.denominators = saved_den
        if not ok1:
            self._rollback(saved_env, saved_trace, saved_counter)
            return False
        if not dens:
            raise _Return(a)
        ok2, b = self._speculate(lambda: self.eval(h.body[0].value))
        if not ok2:
            self._rollback(saved_env, saved_trace, saved_counter)
            return False
        cond = ('false',)
        for d in dens:
            cond = mk_or(cond, mk_cmp('eq', d, lit(0)))
        m = _merge_values(cond, b, a, I)
        if m is None:
            self._rollback(saved_env, saved_trace, saved_counter)
            return False
        raise _Return(m)

    def exec_stmt(self, st):
        I = self.I
        if isinstance(st, ast.Return):
            raise _Return(self.eval(st.value) if st.value is not None else None)
        if isinstance(st, ast.Expr):
            if isinstance(st.value, ast.Constant):
                return
            self.eval(st.value)
            return
        if isinstance(st, ast.Assign):
            v = self.eval(st.value)
            for t in st.targets:
                self.assign(t, v)
            return
        if isinstance(st, ast.AugAssign):
            cur = self.eval(_load(st.target))
            v = self.eval(st.value)
            op = _BINOP[type(st.op)]
            if isinstance(cur, list) and op == 'add':
                r = cur + list(I.iterate(v))
            else:
                r = I.arith(op, cur, v)
            self.assign(st.target, r)
            return
        if isinstance(st, ast.If):
            tv = I.truth(self.eval(st.test))
            if isinstance(tv, Bo) and _mergeable_block(st.body, I.v2) and \
                    _mergeable_block(st.orelse, I.v2) and self.try_merge_if(st, tv):
                return
            if (tv if isinstance(tv, bool) else I.decide(tv.e)):
                self.exec_block(st.body)
            else:
                self.exec_block(st.orelse)
            return
        if isinstance(st, ast.Pass):
            return
        if isinstance(st, ast.Assert):
            t = I.truth(self.eval(st.test))
            if isinstance(t, bool):
                if not t:
                    raise PyRaise('AssertionError')
            else:
                if I.assert_mode == 'fork':
                    if not I.decide(t.e):
                        raise PyRaise('AssertionError')
                else:
                    I.assumptions.append(t.e)
            return
        if isinstance(st, ast.Raise):
            name = 'Exception'
            if st.exc is not None:
                e = st.exc
                if isinstance(e, ast.Call):
                    e = e.func
                if isinstance(e, ast.Name):
                    name = e.id
            raise PyRaise(name)
        if isinstance(st, ast.For):
            self.exec_for(st)
            return
        if isinstance(st, ast.While):
            n = 0
            while I.test(self.eval(st.test)):
                n += 1
                if n > 200:
                    raise Unsupported('while loop exceeds 200 iterations')
                try:
                    self.exec_block(st.body)
                except _Break:
                    break
                except _Continue:
                    continue
            else:
                self.exec_block(st.orelse)
            return
        if isinstance(st, ast.Break):
            raise _Break()
        if isinstance(st, ast.Continue):
            raise _Continue()
        if isinstance(st, ast.Try):
            self.exec_try(st)
            return
        if isinstance(st, ast.ImportFrom) and I.v2:
            # function-level `from .mod import Name`: bind the names locally
            base = I.index._resolve_relative(self.module, st.level, st.module)
            for a in st.names:
                if base in I.index.modules:
                    r = I.index.resolve_name(I.index.modules[base], a.name)
                    if r is None and (base + '.' + a.name) in I.index.modules:
                        r = ('lbgmodule', I.index.modules[base + '.' + a.name])
                    self.env[a.asname or a.name] = I.wrap_global(r, a.name)
                else:
                    self.env[a.asname or a.name] = I.wrap_global(('pyname', base, a.name),
                                                                 a.name)
            return
        if isinstance(st, (ast.Import, ast.ImportFrom)):
            return
        if isinstance(st, ast.Delete):
            for t in st.targets:
                if isinstance(t, ast.Subscript):
                    c = self.eval(t.value)
                    i = self.eval(t.slice)
                    if isinstance(c, (list, dict)):
                        del c[i]
                        continue
                raise Unsupported('del')
            return
        raise Unsupported('statement %s' % type(st).__name__)

    def exec_try(self, st):
        I = self.I
        catches_zero = False
        for h in st.handlers:
            names = _handler_names(h)
            if names is None or 'ZeroDivisionError' in names or 'Exception' in names \
                    or 'ArithmeticError' in names:
                catches_zero = True
        if catches_zero:
            I.try_depth_zero_div += 1
        try:
            try:
                self.exec_block(st.body)
            finally:
                if catches_zero:
                    I.try_depth_zero_div -= 1
        except PyRaise as r:
            for h in st.handlers:
                names = _handler_names(h)
                if names is None or r.exc in names or 'Exception' in names or \
                        ('ArithmeticError' in names and r.exc == 'ZeroDivisionError'):
                    if h.name:
                        self.env[h.name] = Opaque('exception')
                    self.exec_block(h.body)
                    break
            else:
                self.exec_block(st.finalbody)
                raise
        else:
            self.exec_block(st.orelse)
        self.exec_block(st.finalbody)

    def sym_iterable(self, it):
        """An object whose `__iter__` yields a symbolic list stands for that list (v2)."""
        I = self.I
        if I.v2 and isinstance(it, Obj):
            _, m = I.index.find_member(it.cls, '__iter__')
            if m is not None:
                r = I.call_function(m, [], {}, bound=it)
                if isinstance(r, SList):
                    return r
        return it

    def exec_for(self, st):
        I = self.I
        it = self.sym_iterable(self.eval(st.iter))
        if isinstance(it, SList) or (isinstance(it, tuple) and len(it) == 2 and
                                     it[0] == 'enumerate' and isinstance(it[1], SList)):
            import symloops
            symloops.exec_sym_for(self, st, it)
            return
        items = I.iterate(it)
        broke = False
        for x in items:
            self.assign(st.target, x)
            try:
                self.exec_block(st.body)
            except _Break:
                broke = True
                break
            except _Continue:
                continue
        if not broke:
            self.exec_block(st.orelse)

    def _speculate(self, thunk, want_return=False):
        """Run thunk without allowing new decisions; returns (ok, result).  On failure
        the trace and environment are restored."""
        I = self.I
        saved_env = dict(self.env)
        saved_trace = len(I.trace)
        saved_counter = I.counter
        saved_assume = len(I.assumptions)
        I.nofork += 1
        I.spec_starts.append(Obj._counter[0])
        log0 = len(I.spec_log)
        try:
            r = thunk()
            return True, r
        except _Return as rr:
            if want_return:
                return True, rr.v
            I.undo_stores(log0)
            self.env.clear()
            self.env.update(saved_env)
            del I.trace[saved_trace:]
            del I.assumptions[saved_assume:]
            I.counter = saved_counter
            return False, None
        except (_NeedFork, PyRaise, _Break, _Continue):
            I.undo_stores(log0)
            self.env.clear()
            self.env.update(saved_env)
            del I.trace[saved_trace:]
            del I.assumptions[saved_assume:]
            I.counter = saved_counter
            return False, None
        finally:
            I.nofork -= 1
            I.spec_starts.pop()

    def try_merge_if(self, st, tv):
        I = self.I
        key = repr(tv.e if tv.e[0] != 'not' else tv.e[1])
        if key in I.known:
            return False
        base_env = dict(self.env)
        saved_trace = len(I.trace)
        saved_counter = I.counter
        log0 = len(I.spec_log)

        def stored_lists():
            out = {}
            for (c, _i, _old) in I.spec_log[log0:]:
                out[id(c)] = (c, list(c))
            return out
        # while the arms run, stores must be logged even at the outermost level
        I.spec_starts.append(Obj._counter[0])
        try:
            ok1, _ = self._speculate(lambda: self.exec_block(st.body))
            if not ok1:
                return False
            env1 = dict(self.env)
            lists1 = stored_lists()
            I.undo_stores(log0)
            self.env.clear()
            self.env.update(base_env)
            ok2, _ = self._speculate(lambda: self.exec_block(st.orelse))
            if not ok2:
                self.env.clear()
                self.env.update(base_env)
                del I.trace[saved_trace:]
                I.counter = saved_counter
                return False
            env2 = dict(self.env)
            lists2 = stored_lists()
            I.undo_stores(log0)
        finally:
            I.spec_starts.pop()
        item_updates = []
        seen_ids = []
        for dct in (lists1, lists2):
            for key in dct:
                if key not in seen_ids:
                    seen_ids.append(key)
        for key in seen_ids:
            c = (lists1.get(key) or lists2.get(key))[0]
            a_items = lists1[key][1] if key in lists1 else list(c)
            b_items = lists2[key][1] if key in lists2 else list(c)
            if len(a_items) != len(b_items) or len(a_items) != len(c):
                self.env.clear()
                self.env.update(base_env)
                del I.trace[saved_trace:]
                I.counter = saved_counter
                return False
            for j, (x, y) in enumerate(zip(a_items, b_items)):
                if x is y:
                    if c[j] is not x:
                        item_updates.append((c, j, x))
                    continue
                m = _merge_values(tv.e, x, y)
                if m is None:
                    self.env.clear()
                    self.env.update(base_env)
                    del I.trace[saved_trace:]
                    I.counter = saved_counter
                    return False
                item_updates.append((c, j, m))
        merged = {}
        for k in sorted(set(env1.keys()) | set(env2.keys())):
            if k in env1 and k in env2:
                a, b = env1[k], env2[k]
                if a is b:
                    merged[k] = a
                    continue
                m = _merge_values(tv.e, a, b)
                if m is None:
                    self.env.clear()
                    self.env.update(base_env)
                    del I.trace[saved_trace:]
                    I.counter = saved_counter
                    return False
                if isinstance(m, (Sc, Bo, Si)):
                    m = I.name_value(m, k)
                merged[k] = m
            else:
                # defined on one side only: keep it only if never used later; we cannot
                # know, so refuse to merge
                self.env.clear()
                self.env.update(base_env)
                del I.trace[saved_trace:]
                I.counter = saved_counter
                return False
        self.env.clear()
        self.env.update(merged)
        for (c, j, m) in item_updates:
            if isinstance(m, (Sc, Bo, Si)):
                m = I.name_value(m, 'item')
            I.store_item(c, j, m)
        return True

    def try_merge_ifexp(self, e, tv):
        I = self.I
        key = repr(tv.e if tv.e[0] != 'not' else tv.e[1])
        if key in I.known:
            return None
        ok1, a = self._speculate(lambda: self.eval(e.body))
        if not ok1:
            return None
        saved_trace = len(I.trace)
        ok2, b = self._speculate(lambda: self.eval(e.orelse))
        if not ok2:
            return None
        m = _merge_values(tv.e, a, b)
        if m is None or not isinstance(m, (Sc, Bo)):
            if m is not None and (m is a):
                return m
            return None
        return m

    def assign(self, target, v):
        I = self.I
        if isinstance(target, ast.Name):
            if isinstance(v, (Sc, Bo, Si)):
                v = I.name_value(v, target.id)
            self.env[target.id] = v
            return
        if isinstance(target, (ast.Tuple, ast.List)):
            items = I.iterate(v)
            if len(items) != len(target.elts):
                raise PyRaise('ValueError')
            for t, x in zip(target.elts, items):
                self.assign(t, x)
            return
        if isinstance(target, ast.Attribute):
            o = self.eval(target.value)
            if isinstance(o, Obj):
                if I.spec_starts and o.born <= I.spec_starts[0]:
                    raise _NeedFork()
                if isinstance(v, (Sc, Bo)):
                    v = I.name_value(v, target.attr)
                o.slots[self.mangle(target.attr)] = v
                return
            raise Unsupported('attribute store on %r' % (o,))
        if isinstance(target, ast.Subscript):
            c = self.eval(target.value)
            i = self.eval(target.slice)
            if getattr(I, 'v3', False) and isinstance(c, (SDict, SList)) or (
                    getattr(I, 'v3', False) and isinstance(c, dict) and not c and
                    isinstance(i, Sc)):
                import symloops
                return symloops.store_v3(self, target, c, i, v)
            if I.v2 and isinstance(c, list) and isinstance(i, int) and \
                    not isinstance(i, bool):
                if isinstance(v, (Sc, Bo, Si)):
                    v = I.name_value(v, 'item')
                I.store_item(c, i, v)
                return
            if isinstance(c, (list, dict)):
                if I.spec_starts:
                    raise _NeedFork()
                if isinstance(v, (Sc, Bo)):
                    v = I.name_value(v, 'item')
                c[i] = v
                return
            raise Unsupported('item store on %r' % (c,))
        raise Unsupported('assignment target %s' % type(target).__name__)

    # ---------------------------------------------------------------- expressions
    def eval(self, e):
        I = self.I
        if isinstance(e, ast.Constant):
            return e.value
        if isinstance(e, ast.Name):
            return self.lookup(e.id)
        if isinstance(e, ast.Attribute):
            return I.getattr(self.eval(e.value), e.attr, self)
        if isinstance(e, ast.BinOp):
            a = self.eval(e.left)
            b = self.eval(e.right)
            return I.arith(_BINOP[type(e.op)], a, b)
        if isinstance(e, ast.UnaryOp):
            v = self.eval(e.operand)
            if isinstance(v, SOpt):
                v = I.payload(v)
            if isinstance(e.op, ast.Not):
                t = I.truth(v)
                return (not t) if isinstance(t, bool) else Bo(mk_not(t.e))
            if isinstance(e.op, ast.USub):
                if is_num(v):
                    return -v
                if isinstance(v, Si):
                    return Si(('ineg', v.e))
                if isinstance(v, Obj):
                    _, m = I.index.find_member(v.cls, '__neg__')
                    return I.call_function(m, [], {}, bound=v)
                return Sc(('neg', to_sc(v)))
            if isinstance(e.op, ast.UAdd):
                return v
            raise Unsupported('unary op')
        if isinstance(e, ast.BoolOp):
            return self.eval_boolop(e)
        if isinstance(e, ast.Compare):
            return self.eval_compare(e)
        if isinstance(e, ast.IfExp):
            tv = I.truth(self.eval(e.test))
            if isinstance(tv, Bo):
                r = self.try_merge_ifexp(e, tv)
                if r is not None:
                    return r
            if (tv if isinstance(tv, bool) else I.decide(tv.e)):
                return self.eval(e.body)
            return self.eval(e.orelse)
        if isinstance(e, ast.Tuple):
            return tuple(self.eval_elts(e.elts))
        if isinstance(e, ast.List):
            return list(self.eval_elts(e.elts))
        if isinstance(e, ast.Set):
            return list(self.eval_elts(e.elts))
        if isinstance(e, ast.Dict):
            return dict((self.eval(k), self.eval(v)) for k, v in zip(e.keys, e.values))
        if isinstance(e, ast.Subscript):
            return self.eval_subscript(e)
        if isinstance(e, ast.Call):
            return self.eval_call(e)
        if isinstance(e, (ast.ListComp, ast.GeneratorExp, ast.SetComp)):
            return self.eval_comp(e)
        if isinstance(e, ast.Lambda):
            return Lam(e, self.env, self.func)
        if isinstance(e, ast.JoinedStr):
            return '<str>'
        if isinstance(e, ast.Slice):
            return slice(self.eval(e.lower) if e.lower else None,
                         self.eval(e.upper) if e.upper else None,
                         self.eval(e.step) if e.step else None)
        raise Unsupported('expression %s' % type(e).__name__)

    def eval_elts(self, elts):
        out = []
        for x in elts:
            if isinstance(x, ast.Starred):
                out.extend(self.I.iterate(self.eval(x.value)))
            else:
                out.append(self.eval(x))
        return out

    def lookup(self, name):
        if name in self.env:
            v = self.env[name]
            if isinstance(v, Undefined):
                raise Unsupported('use of %s: %s' % (name, v.why))
            return v
        r = self.I.index.resolve_name(self.module, name)
        if r is not None:
            return self.I.wrap_global(r, name)
        if name in BUILTIN_NAMES:
            return Builtin(name)
        if name in ('True', 'False', 'None'):
            return {'True': True, 'False': False, 'None': None}[name]
        if name.endswith('Error') or name == 'Exception':
            return Opaque(name)
        raise Unsupported('unresolved name %s in %s' % (name, self.func.qualname))

    def eval_boolop(self, e):
        I = self.I
        is_and = isinstance(e.op, ast.And)
        acc = None      # accumulated symbolic condition
        last = None
        for i, sub in enumerate(e.values):
            v = self.eval(sub)
            last = v
            t = I.truth(v)
            if isinstance(t, bool):
                if is_and and not t:
                    if acc is None:
                        return v
                    return False if isinstance(v, bool) or v is None else \
                        self._mixed_boolop()
                if (not is_and) and t:
                    if acc is None:
                        return v
                    if isinstance(v, bool):
                        return True
                    return self._mixed_boolop()
                continue
            # symbolic truth value
            if not isinstance(v, Bo):
                # value-returning and/or on a non-boolean symbolic operand: fork
                if I.decide(t.e) != is_and:
                    if acc is None:
                        return v
                    return self._mixed_boolop()
                continue
            acc = t.e if acc is None else (mk_and(acc, t.e) if is_and else mk_or(acc, t.e))
        if acc is None:
            return last
        if isinstance(last, Bo):
            return Bo(acc)
        # the last operand was concrete (e.g. `sym and True`)
        if isinstance(last, bool):
            return Bo(acc)
        # `cond and obj` : fork on the accumulated condition
        if I.decide(acc) == is_and:
            return last
        return False if is_and else True

    def _mixed_boolop(self):
        raise Unsupported('and/or mixing symbolic booleans with non-boolean values')

    def eval_compare(self, e):
        I = self.I
        left = self.eval(e.left)
        acc = ('true',)
        for op, right_e in zip(e.ops, e.comparators):
            right = self.eval(right_e)
            if type(op) in _CMP:
                r = I.compare(_CMP[type(op)], left, right)
            elif isinstance(op, ast.Is):
                r = I.compare('is', left, right)
            elif isinstance(op, ast.IsNot):
                r = I.compare('isnot', left, right)
            elif isinstance(op, ast.In):
                r = I.compare('in', left, right)
            elif isinstance(op, ast.NotIn):
                r = I.compare('notin', left, right)
            else:
                raise Unsupported('comparison operator')
            if not isinstance(r, (bool, Bo)):
                t = I.truth(r)
                r = t
            if r is False:
                return False
            if r is not True:
                acc = mk_and(acc, r.e)
            left = right
        if acc[0] == 'true':
            return True
        return Bo(acc)

    def eval_subscript(self, e):
        I = self.I
        c = self.eval(e.value)
        i = self.eval(e.slice)
        if isinstance(c, (tuple, list, str, range)):
            if isinstance(i, (int, slice)):
                try:
                    return c[i]
                except IndexError:
                    raise PyRaise('IndexError')
            if isinstance(i, bool):
                return c[int(i)]
            raise Unsupported('symbolic index')
        if isinstance(c, dict):
            try:
                return c[i]
            except KeyError:
                raise PyRaise('KeyError')
        if isinstance(c, Obj):
            _, m = I.index.find_member(c.cls, '__getitem__')
            if m is not None:
                return I.call_function(m, [i], {}, bound=c)
        if isinstance(c, SList):
            import symloops
            return symloops.sym_index(self, c, i, e)
        if isinstance(c, SDict):
            import symloops
            return symloops.sdict_lookup(self, c, i)
        raise Unsupported('subscript of %r' % (c,))

    def eval_call(self, e):
        I = self.I
        f = self.eval(e.func)
        args = self.eval_elts(e.args)
        kwargs = {}
        for kw in e.keywords:
            if kw.arg is None:
                kwargs.update(self.eval(kw.value))
            else:
                kwargs[kw.arg] = self.eval(kw.value)
        if isinstance(f, BoundBuiltinMethod):
            return self.call_builtin_method(f, args, kwargs)
        if isinstance(f, tuple) and len(f) == 2 and f[0] == 'unbound':
            return I.call_function(f[1], args, kwargs)
        return I.call(f, args, kwargs)

    def call_builtin_method(self, f, args, kwargs):
        r, n = f.recv, f.name
        if isinstance(r, str):
            if n == 'format':
                return r
            if n in ('lower', 'upper', 'strip'):
                return getattr(r, n)()
            if n in ('startswith', 'endswith'):
                return getattr(r, n)(*args)
        if isinstance(r, SList) and self.I.v2:
            import symloops
            return symloops.slist_method(self, r, n, args, kwargs)
        if isinstance(r, SDict):
            import symloops
            return symloops.sdict_method(self, r, n, args, kwargs)
        if isinstance(r, list) and self.I.spec_starts and \
                n in ('append', 'extend', 'insert', 'pop', 'reverse'):
            raise _NeedFork()
        if isinstance(r, list):
            if n == 'append':
                v = args[0]
                if isinstance(v, (Sc, Bo)):
                    v = self.I.name_value(v, 'item')
                r.append(v)
                return None
            if n == 'extend':
                r.extend(self.I.iterate(args[0]))
                return None
            if n == 'insert':
                r.insert(args[0], args[1])
                return None
            if n == 'pop':
                try:
                    return r.pop(*args)
                except IndexError:
                    raise PyRaise('IndexError')
            if n == 'reverse':
                r.reverse()
                return None
            if n == 'index':
                for k, x in enumerate(r):
                    c = self.I.compare('eq', x, args[0])
                    if c is True:
                        return k
                    if c is not False:
                        raise Unsupported('list.index on symbolic values')
                raise PyRaise('ValueError')
            if n == 'copy':
                return list(r)
        if isinstance(r, tuple):
            if n == 'index':
                return r.index(args[0])
            if n == 'count':
                return r.count(args[0])
        if isinstance(r, dict):
            if n == 'get':
                return r.get(*args)
            if n == 'keys':
                return list(r.keys())
            if n == 'values':
                return list(r.values())
            if n == 'items':
                return list(r.items())
        raise Unsupported('method %s of builtin %s' % (n, type(r).__name__))

    def eval_comp(self, e):
        I = self.I
        if len(e.generators) == 1:
            g = e.generators[0]
            it = self.sym_iterable(self.eval(g.iter))
            if isinstance(it, SList) or (isinstance(it, tuple) and len(it) == 2 and
                                         it[0] == 'enumerate' and
                                         isinstance(it[1], SList)):
                import symloops
                return symloops.sym_comprehension(self, e, it)
        out = []

        def rec(gi):
            if gi == len(e.generators):
                out.append(self.eval(e.elt))
                return
            g = e.generators[gi]
            for x in I.iterate(self.eval(g.iter)):
                self.assign(g.target, x)
                ok = True
                for cond in g.ifs:
                    if not I.test(self.eval(cond)):
                        ok = False
                        break
                if ok:
                    rec(gi + 1)
        saved = dict(self.env)
        rec(0)
        # comprehension variables do not leak in Python 3
        for k in list(self.env.keys()):
            if k not in saved:
                del self.env[k]
            else:
                self.env[k] = saved[k]
        return out


def _item_target(t):
    """`name[<int literal>]`"""
    return isinstance(t, ast.Subscript) and isinstance(t.value, ast.Name) and \
        isinstance(t.slice, ast.Constant) and isinstance(t.slice.value, int) and \
        not isinstance(t.slice.value, bool)


def _mergeable_block(stmts, v2=False):
    for st in stmts:
        if isinstance(st, ast.Pass):
            continue
        if isinstance(st, ast.Assign):
            if all(isinstance(t, ast.Name) or (v2 and _item_target(t)) for t in st.targets):
                continue
            return False
        if isinstance(st, ast.AugAssign) and (isinstance(st.target, ast.Name) or
                                              (v2 and _item_target(st.target))):
            continue
        if isinstance(st, ast.If) and _mergeable_block(st.body, v2) and \
                _mergeable_block(st.orelse, v2):
            continue
        return False
    return True


def _ends_in_return(stmts):
    return bool(stmts) and isinstance(stmts[-1], ast.Return) and \
        stmts[-1].value is not None


def _spec_safe_block(stmts):
    """Statements that may be executed speculatively: assignments to local names,
    nested ifs of the same kind, and a final return."""
    for st in stmts:
        if isinstance(st, (ast.Pass, ast.Return)):
            continue
        if isinstance(st, ast.Expr) and isinstance(st.value, ast.Constant):
            continue
        if isinstance(st, ast.Assign) and all(
                isinstance(t, (ast.Name, ast.Tuple)) for t in st.targets):
            continue
        if isinstance(st, ast.AugAssign) and isinstance(st.target, ast.Name):
            continue
        if isinstance(st, ast.If) and _spec_safe_block(st.body) and \
                _spec_safe_block(st.orelse):
            continue
        return False
    return True


def _merge_values(cond, a, b, I=None, _depth=0):
    """Value of `a if cond else b` without forking, or None when not expressible."""
    if a is b:
        return a
    if isinstance(a, Obj) and isinstance(b, Obj):
        if a.cls is not b.cls or set(a.slots.keys()) != set(b.slots.keys()):
            return None
        if _depth > 3:
            return None         # linked structures (prev / next rings) are not merged
        o = Obj(a.cls)
        for k in a.slots:
            x, y = a.slots[k], b.slots[k]
            if x is None and y is None:
                o.slots[k] = None
                continue
            m = _merge_values(cond, x, y, I, _depth + 1)
            if m is None:
                return None
            if I is not None and isinstance(m, (Sc, Bo)):
                m = I.name_value(m, k)
            o.slots[k] = m
        return o
    if isinstance(a, bool) and isinstance(b, bool):
        if a == b:
            return a
        return Bo(cond) if a else Bo(mk_not(cond))
    if (isinstance(a, Bo) or isinstance(a, bool)) and (isinstance(b, Bo) or
                                                       isinstance(b, bool)):
        ea, eb = to_bo(a), to_bo(b)
        return Bo(mk_or(mk_and(cond, ea), mk_and(mk_not(cond), eb)))
    if (isinstance(a, Si) or isinstance(b, Si)) and \
            (isinstance(a, Si) or is_int(a)) and (isinstance(b, Si) or is_int(b)):
        ea, eb = to_si(a), to_si(b)
        if ea == eb:
            return a
        return Si(('iite', cond, ea, eb))
    if (isinstance(a, Sc) or is_num(a)) and (isinstance(b, Sc) or is_num(b)):
        ea, eb = to_sc(a), to_sc(b)
        if ea == eb:
            return a
        if isinstance(a, int) and isinstance(b, int):
            if V2_ACTIVE[0] and not isinstance(a, bool) and not isinstance(b, bool):
                return Si(('iite', cond, ilit(a), ilit(b)))
            return None
        return Sc(('ite', cond, ea, eb))
    if a is None and b is None:
        return None if False else a
    try:
        if type(a) == type(b) and not isinstance(a, (Obj, SList, SOpt)) and a == b:
            return a
    except Exception:
        pass
    return None


def _load(target):
    import copy
    t = copy.copy(target)
    t.ctx = ast.Load()
    return t


def _handler_names(h):
    if h.type is None:
        return None
    if isinstance(h.type, ast.Name):
        return [h.type.id]
    if isinstance(h.type, ast.Tuple):
        return [x.id for x in h.type.elts if isinstance(x, ast.Name)]
    return []


_BINOP = {ast.Add: 'add', ast.Sub: 'sub', ast.Mult: 'mul', ast.Div: 'div',
          ast.FloorDiv: 'floordiv', ast.Mod: 'mod', ast.Pow: 'pow'}
