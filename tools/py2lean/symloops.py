"""Loops and comprehensions over symbolic lists (vertex lists of unknown length).

Supported shapes (anything else raises Unsupported = failed translation):
  * `for x in L:` / `for i, x in enumerate(L):` whose body only updates local accumulator
    variables (scalars / booleans / point objects), may read `L[i - 1]` (the cyclic
    predecessor: Python's `L[-1]` wrap-around for i = 0) and contains no return/break.
    -> `List.foldl` over `L` or over `cyclicPairs L`.
  * `tuple(f(x) for x in L)`, `[f(L[i-1], x) for i, x in enumerate(L)]` -> `List.map`.
  * `reversed(L)` -> `List.reverse`;  `sum(L)` over a symbolic list of scalars -> foldl.
"""
import ast

import emit
import mtypes
from symexec import (Sc, Bo, Si, Obj, SList, SDict, Undefined, Unsupported, Frame, is_num, to_sc,
                     to_bo, _Return, _Break, _Continue, _NeedFork, PyRaise, Leaf, Let,
                     Branch)


class SymIdx(object):
    """The loop index of an enumerate loop over a symbolic list (offset from current)."""

    def __init__(self, key, off=0):
        self.key = key
        self.off = off


def list_term(le):
    k = le[0]
    if k == 'lvar':
        return le[1]
    if k == 'lrev':
        return '(List.reverse %s)' % list_term(le[1])
    if k == 'lmap':
        return '(List.map (fun %s => %s) %s)' % (le[1], le[2], list_term(le[3]))
    if k == 'lpairs':
        return '(cyclicPairs %s)' % list_term(le[1])
    # ---- v2 list expressions
    if k == 'ldrop':
        return '(List.drop %d %s)' % (le[1], list_term(le[2]))
    if k == 'ltake':
        return '(List.take %d %s)' % (le[1], list_term(le[2]))
    if k == 'ldroplast':
        return '(List.dropLast %s)' % list_term(le[1])
    if k == 'lsnoc':
        return '(%s ++ [%s])' % (list_term(le[1]), le[2])
    if k == 'lcons':
        return '(%s :: %s)' % (le[1], list_term(le[2]))
    if k == 'lappend':
        return '(%s ++ %s)' % (list_term(le[1]), list_term(le[2]))
    if k == 'lzip':
        return '(List.zip %s %s)' % (list_term(le[1]), list_term(le[2]))
    if k == 'lfiltermap':
        return '(List.filterMap (fun %s => %s) %s)' % (le[1], le[2], list_term(le[3]))
    if k == 'llit':
        return '([%s] : %s)' % (', '.join(le[1]), le[2])
    if k == 'lzipidx':
        return '(List.zipIdx %s)' % list_term(le[1])
    if k == 'lrotate':
        lt = list_term(le[2])
        return '(List.rotate %s (Int.toNat (%s %% ((%s).length : Int))))' % (lt, le[1], lt)
    if k == 'lirange':
        # Python range(a, n): a, a+1, ..., n-1 as integers
        return '(List.map (fun (n_ : Nat) => (n_ : Int)) (List.range\' %d (Int.toNat (%s - (%d : Int)))))' % (
            le[1], le[2], le[1])
    if k in ('ldropi', 'ltakei'):
        # Python slice bound k on a list of length n: negative counts from the end, values
        # outside the range are clamped (List.drop / List.take clamp at n, Int.toNat at 0)
        lt = list_term(le[2])
        return '(List.%s (Int.toNat (if %s < (0 : Int) then ((%s).length : Int) + %s else %s)) %s)' % (
            'drop' if k == 'ldropi' else 'take', le[1], lt, le[1], le[1], lt)
    raise Unsupported('list expr %r' % (le,))


def to_si_(v):
    from symexec import to_si
    return to_si(v)


def _V2():
    import symexec
    return symexec.V2_ACTIVE


class _RestartLoop(Exception):
    """The element kind of a list accumulator was refined (T -> Option T): re-explore."""
    pass


def unify_kind(a, b):
    """Least kind covering a and b where `('opt', None)` stands for a bare None."""
    if a is None:
        return b
    if b is None:
        return a
    a, b = mtypes.parse_type(a), mtypes.parse_type(b)
    if a == b:
        return a
    if set((a, b)) == set(('I', 'S')) if isinstance(a, str) and isinstance(b, str) else False:
        return 'S'          # Python int and float items: the integers embed
    a_opt = isinstance(a, tuple) and a[0] == 'opt'
    b_opt = isinstance(b, tuple) and b[0] == 'opt'
    if a_opt and b_opt:
        if a[1] is None:
            return b
        if b[1] is None:
            return a
    elif a_opt:
        if a[1] is None or mtypes.parse_type(a[1]) == b:
            return ('opt', b)
    elif b_opt:
        if b[1] is None or mtypes.parse_type(b[1]) == a:
            return ('opt', a)
    raise Unsupported('items of different kinds: %r and %r' % (a, b))


def elem_kind(v, index):
    """Model type of a loop-carried / mapped value."""
    if v is None and _V2()[0]:
        return ('opt', None)
    if isinstance(v, Si):
        return 'I'
    if isinstance(v, SymIdx):
        raise _NeedIndexValue()
    if isinstance(v, tuple) and v and not isinstance(v[0], str):
        return ('tup',) + tuple(elem_kind(x, index) for x in v)
    if isinstance(v, SList):
        return ('list', v.elem)
    if isinstance(v, Bo) or isinstance(v, bool):
        return 'B'
    if isinstance(v, int) and _V2()[0]:
        return 'I'
    if isinstance(v, Sc) or is_num(v):
        return 'S'
    if isinstance(v, Obj):
        for t, classes in mtypes.RESULT_CLASSES.items():
            if any(index.is_subclass(v.cls, c) for c in classes):
                return t
    raise Unsupported('loop-carried value of unsupported kind: %r' % (v,))


def _stored_names(stmts):
    out = []
    for st in stmts:
        for node in ast.walk(st):
            if isinstance(node, ast.Name) and isinstance(node.ctx, ast.Store):
                if node.id not in out:
                    out.append(node.id)
            if isinstance(node, (ast.Return, ast.Break, ast.Continue)):
                raise Unsupported('return/break/continue inside a loop over a symbolic list')
    return out


def _proj(term, i, n):
    if n == 1:
        return term
    s = term
    for _ in range(i):
        s = '%s.2' % s
    if i < n - 1:
        s = '%s.1' % s
    return s


def _target_names(target):
    if isinstance(target, ast.Name):
        return [target.id]
    if isinstance(target, (ast.Tuple, ast.List)):
        out = []
        for t in target.elts:
            out.extend(_target_names(t))
        return out
    raise Unsupported('loop target')


def _pyclass_for(elem, pycls):
    return pycls


def exec_sym_for(frame, st, it):
    I = frame.I
    index = I.index
    if I.v2:
        return exec_sym_for_v2(frame, st, it)
    if st.orelse:
        raise Unsupported('for/else over symbolic list')
    enum = isinstance(it, tuple)
    L = it[1] if enum else it
    if enum:
        if not (isinstance(st.target, ast.Tuple) and len(st.target.elts) == 2 and
                all(isinstance(t, ast.Name) for t in st.target.elts)):
            raise Unsupported('enumerate target')
        idx_name, el_name = st.target.elts[0].id, st.target.elts[1].id
    else:
        if not isinstance(st.target, ast.Name):
            raise Unsupported('loop target')
        idx_name, el_name = None, st.target.id
    if all(isinstance(x, ast.Assert) for x in st.body):
        # type-checking loop: run the assertions once on a generic element
        env = dict(frame.env)
        fr = Frame(I, frame.func, env)
        fr.module = frame.module
        env[el_name] = mtypes.make_input(index, 'elem', L.elem, L.pycls)
        fr.exec_block(st.body)
        return
    stored = _stored_names(st.body)
    accs = [n for n in stored if n in frame.env and n not in (idx_name, el_name)]
    if not accs:
        raise Unsupported('loop over symbolic list without accumulators')
    kinds = [elem_kind(frame.env[n], index) for n in accs]
    n = len(accs)
    uid = I.fresh('loop')
    st_name = 'st_' + uid
    pp_name = 'pp_' + uid
    used_prev = [False]
    key = object()

    def run_body(use_pairs):
        env = dict(frame.env)
        fr = Frame(I, frame.func, env)
        fr.module = frame.module
        for i, (nm, kd) in enumerate(zip(accs, kinds)):
            env[nm] = mtypes.make_input(index, _proj(st_name, i, n), kd,
                                        _class_of(frame.env[nm]))
        cur_term = (pp_name + '.2') if use_pairs else pp_name
        env[el_name] = mtypes.make_input(index, cur_term, L.elem, L.pycls)
        if idx_name is not None:
            env[idx_name] = SymIdx(key, 0)
        I.sym_lists[id(key)] = (L, key, pp_name, used_prev, use_pairs)
        fr.exec_block(st.body)
        return tuple(env[nm] for nm in accs)

    # first pass discovers whether L[i-1] is used
    saved = (I.uses_math,)
    try:
        tree = I.explore(lambda: run_body(False))
        use_pairs = used_prev[0]
    except _NeedPairs:
        use_pairs = True
        tree = None
    if use_pairs:
        tree = I.explore(lambda: run_body(True))
    ret = ('tup',) + tuple(kinds) if n > 1 else kinds[0]

    def leaf_fix(node):
        return node
    body = emit.emit_tree(_untuple(tree, n), ret, index, 3)
    st_ty = mtypes.lean_type(ret)
    el_ty = mtypes.lean_type(L.elem)
    if use_pairs:
        src = '(cyclicPairs %s)' % list_term(L.le)
        pp_ty = '(%s × %s)' % (el_ty, el_ty)
    else:
        src = list_term(L.le)
        pp_ty = '(%s)' % el_ty
    init = emit.value_term(tuple(frame.env[nm] for nm in accs) if n > 1
                           else frame.env[accs[0]], ret, index)
    res_name = 'acc_' + uid
    text = '(List.foldl (fun (%s : %s) (%s : %s) =>\n%s)\n      %s %s)' % (
        st_name, st_ty, pp_name, pp_ty, body, init, src)
    I.trace.append(('let', res_name, 'raw', text))
    for i, (nm, kd) in enumerate(zip(accs, kinds)):
        frame.env[nm] = mtypes.make_input(index, _proj(res_name, i, n), kd,
                                          _class_of(frame.env[nm]))
    # loop-local temporaries (including the loop variables) are left undefined: reading
    # them after the loop is not supported
    for nm in stored:
        if nm not in accs and nm in frame.env:
            del frame.env[nm]


class _NeedPairs(Exception):
    pass


def _class_of(v):
    if isinstance(v, Obj):
        return v.cls.name
    return None


def _untuple(tree, n):
    """Leaves carry python tuples of accumulator values; for n == 1 unwrap them."""
    from symexec import Leaf, Let, Branch
    if n != 1:
        return tree

    def rec(node):
        if isinstance(node, Leaf):
            return Leaf(node.value[0] if node.err is None else None, node.err)
        if isinstance(node, Let):
            return Let(node.name, node.kind, node.expr, rec(node.child))
        return Branch(node.cond, rec(node.then), rec(node.els))
    return rec(tree)


def sym_index(frame, L, i, e):
    """L[i] for a symbolic list."""
    I = frame.I
    index = I.index
    if I.v2:
        return sym_index_v2(frame, L, i, e)
    if isinstance(i, SymIdx):
        info = I.sym_lists.get(id(i.key))
        if info is None:
            raise Unsupported('symbolic index outside its loop')
        L0, key, pp_name, used_prev, use_pairs = info
        if list_term(L0.le) != list_term(L.le):
            raise Unsupported('symbolic index into a different list')
        if i.off == 0:
            return mtypes.make_input(index, (pp_name + '.2') if use_pairs else pp_name,
                                     L.elem, L.pycls)
        if i.off == -1:
            used_prev[0] = True
            if not use_pairs:
                raise _NeedPairs()
            return mtypes.make_input(index, pp_name + '.1', L.elem, L.pycls)
        raise Unsupported('symbolic index offset %d' % i.off)
    if isinstance(i, int):
        dflt = _default_term(L.elem)
        if i == 0:
            return mtypes.make_input(index, '(%s.headD %s)' % (list_term(L.le), dflt),
                                     L.elem, L.pycls)
        if i == -1:
            return mtypes.make_input(index, '(%s.getLastD %s)' % (list_term(L.le), dflt),
                                     L.elem, L.pycls)
        if i > 0:
            return mtypes.make_input(index, '(%s.getD %d %s)' % (list_term(L.le), i, dflt),
                                     L.elem, L.pycls)
    raise Unsupported('index %r into symbolic list' % (i,))


def _default_term(elem):
    t = mtypes.parse_type(elem)
    if t == 'S':
        return '(0 : α)'
    if t == 'V2':
        return '(⟨0, 0⟩ : V2 α)'
    if t == 'V3':
        return '(⟨0, 0, 0⟩ : V3 α)'
    if t == 'B':
        return 'false'
    if t == 'I':
        return '(0 : Int)'
    if isinstance(t, str) and t in mtypes.STRUCTS and t not in mtypes.SLOT_COMPLETE:
        return '(⟨%s⟩ : %s)' % (', '.join(_default_term(ft) for (_, ft, _, _) in
                                            mtypes.STRUCTS[t]), mtypes.lean_type(t))
    if isinstance(t, tuple) and t[0] == 'tup':
        return '(%s)' % ', '.join(_default_term(x) for x in t[1:])
    if isinstance(t, tuple) and t[0] in ('list', 'ptlist'):
        return '([] : %s)' % mtypes.lean_type(t)
    if isinstance(t, tuple) and t[0] == 'opt':
        return '(none : %s)' % mtypes.lean_type(t)
    raise Unsupported('no default element for %r' % (t,))


def sym_comprehension(frame, e, it):
    """[f(x) for x in L] / tuple(f(L[i-1], x) for i, x in enumerate(L))."""
    I = frame.I
    index = I.index
    if I.v2:
        return sym_comprehension_v2(frame, e, it)
    g = e.generators[0]
    if g.ifs:
        raise Unsupported('filtered comprehension over symbolic list')
    enum = isinstance(it, tuple)
    L = it[1] if enum else it
    if enum:
        if not (isinstance(g.target, ast.Tuple) and len(g.target.elts) == 2 and
                all(isinstance(t, ast.Name) for t in g.target.elts)):
            raise Unsupported('enumerate target')
        idx_name, el_name = g.target.elts[0].id, g.target.elts[1].id
    else:
        if not isinstance(g.target, ast.Name):
            raise Unsupported('comprehension target')
        idx_name, el_name = None, g.target.id
    uid = I.fresh('map')
    pp_name = 'e_' + uid
    used_prev = [False]
    key = object()

    def run(use_pairs):
        env = dict(frame.env)
        fr = Frame(I, frame.func, env)
        fr.module = frame.module
        env[el_name] = mtypes.make_input(index, (pp_name + '.2') if use_pairs else pp_name,
                                         L.elem, L.pycls)
        if idx_name is not None:
            env[idx_name] = SymIdx(key, 0)
        I.sym_lists[id(key)] = (L, key, pp_name, used_prev, use_pairs)
        return fr.eval(e.elt)

    try:
        tree = I.explore(lambda: run(False))
        use_pairs = False
    except _NeedPairs:
        use_pairs = True
        tree = I.explore(lambda: run(True))
    # element kind from the first leaf
    from symexec import Leaf, Let, Branch

    def first_leaf(node):
        while not isinstance(node, Leaf):
            node = node.child if isinstance(node, Let) else node.then
        return node
    lf = first_leaf(tree)
    if lf.err is not None:
        raise Unsupported('comprehension element raises %s' % lf.err)
    kind = elem_kind(lf.value, index)
    body = emit.emit_tree(tree, kind, index, 3)
    el_ty = mtypes.lean_type(L.elem)
    if use_pairs:
        src = ('lpairs', L.le)
        binder = '(%s : (%s × %s))' % (pp_name, el_ty, el_ty)
    else:
        src = L.le
        binder = '(%s : %s)' % (pp_name, el_ty)
    pycls = _class_of(lf.value)
    return SList(('lmap', binder, '\n' + body, src), kind, pycls)


def sym_sum(frame, L, start):
    I = frame.I
    if mtypes.parse_type(L.elem) != 'S':
        raise Unsupported('sum over non-scalar symbolic list')
    uid = I.fresh('sum')
    text = '(List.foldl (fun (s : α) (x : α) => s + x) %s %s)' % (
        emit.sexpr(to_sc(start)), list_term(L.le))
    I.trace.append(('let', 'sum_' + uid, 'raw', text))
    return Sc(('var', 'sum_' + uid))


# =====================================================================================
#  v2 machinery (kernels of the second generation; see Interp.v2)
#
#  * every list operation that can raise in Python is modelled: `L[0]`, `L[-1]`, `L[k]`,
#    `L.pop()`, `min(L)` fork on the emptiness / length of `L` and raise IndexError /
#    ValueError on that branch (the kernel registers `err_as_none` to return `none`);
#  * slices `L[a:]`, `L[:b]`, `L[a:b]`, `L[:-1]`, `L[::-1]`, `L[:]` of symbolic lists;
#  * `for` over a symbolic list (also `enumerate`, `zip`, tuple targets) whose body may
#    update local names, items of fixed-size local lists (`min_pt[0] = …`), attributes of
#    local objects (`self._is_convex = False`), append to local lists, count with integers,
#    and leave through `return`, `break`, `continue` or an exception.  The loop becomes one
#    `List.foldl` whose state carries the accumulators and, when needed, an
#    `Option <returned value>`, a `broke` flag and a `raised` flag which freeze the state;
#  * `L[i - 1]`, `L[i - 2]` inside `for i, x in enumerate(L)` (cyclic predecessors);
#  * comprehensions with filters -> `List.filterMap`;  `min/max/any/all/sum/len/zip`.
#  Anything else raises Unsupported.
# =====================================================================================
MUTATORS = ('append', 'extend', 'insert', 'pop', 'reverse', 'remove', 'sort', 'clear')


class _NeedDepth(Exception):
    def __init__(self, d):
        self.d = d


class _NeedIndexValue(Unsupported):
    """The loop index of `enumerate` is used as a number (compared, stored, sliced with ...):
    the loop is re-run over `List.zipIdx` with the index as a symbolic integer."""

    def __init__(self):
        Unsupported.__init__(self, 'a symbolic loop index is used as a number outside a '
                                   'supported loop')


class _NeedErr(Exception):
    """The loop body can raise: the fold state needs the `raised` component."""
    pass


def _is_simple_list(le):
    return le[0] in ('lvar', 'lirange') or (le[0] in ('ldrop', 'ltake') and le[2][0] == 'lvar') or \
        (le[0] in ('ldroplast', 'lrev') and le[1][0] == 'lvar')


def bound_list(I, L, base='lst'):
    """An SList with the same value whose term is a let-bound name (so that the term is
    not duplicated textually).  The binding is appended to the current trace, hence it
    is in scope for everything evaluated from here on in the current block."""
    if _is_simple_list(L.le):
        return L
    nm = I.fresh(base)
    I.trace.append(('let', nm, 'raw', list_term(L.le)))
    I.len_lower[nm] = len_lb(I, L.le)
    return SList(('lvar', nm), L.elem, L.pycls)


def elem_input(index, term, L, I=None, base='item'):
    if L.elem is None:
        raise Unsupported('element of a list whose element kind is not known yet')
    if I is not None:
        # name the selected element once (its term would otherwise be repeated per slot)
        nm = I.fresh(base)
        I.trace.append(('let', nm, 'raw', term))
        term = nm
    return mtypes.make_input(index, term, L.elem, L.pycls)


def _raise_if(I, cond, exc):
    if I.decide(cond):
        raise PyRaise(exc)


def len_lb(I, le):
    """A lower bound on the length of the list denoted by `le` on the current path."""
    k = le[0]
    if k == 'lvar':
        return I.len_lower.get(le[1], 0)
    if k in ('lrev', 'lpairs'):
        return len_lb(I, le[1])
    if k == 'lmap':
        return len_lb(I, le[3])
    if k == 'ldrop':
        return max(0, len_lb(I, le[2]) - le[1])
    if k == 'ltake':
        return min(le[1], len_lb(I, le[2]))
    if k == 'ldroplast':
        return max(0, len_lb(I, le[1]) - 1)
    if k == 'lsnoc':
        return len_lb(I, le[1]) + 1
    if k == 'lcons':
        return len_lb(I, le[2]) + 1
    if k == 'lappend':
        return len_lb(I, le[1]) + len_lb(I, le[2])
    if k == 'lzip':
        return min(len_lb(I, le[1]), len_lb(I, le[2]))
    if k == 'llit':
        return len(le[1])
    return 0


def _raise_if_short(I, L, need, exc):
    """Python raises `exc` when len(L) < need.  The branch is dropped when the length is
    known to suffice; otherwise it is decided (forked) and the fact is remembered."""
    if len_lb(I, L.le) >= need:
        return
    lt = list_term(L.le)
    cond = ('rawprop', '(%s = [])' % lt) if need == 1 else \
        ('rawprop', '(%s.length ≤ %d)' % (lt, need - 1))
    if I.decide(cond):
        raise PyRaise(exc)
    if L.le[0] == 'lvar':
        I.len_lower[L.le[1]] = max(I.len_lower.get(L.le[1], 0), need)


def sym_index_v2(frame, L, i, e):
    I = frame.I
    index = I.index
    if isinstance(i, SymIdx):
        info = I.sym_lists.get(id(i.key))
        if info is None:
            raise Unsupported('symbolic index outside its loop')
        L0, key, pp_name, state, Lorig = info
        if L is Lorig:
            L = L0
        if L is not L0 and list_term(L0.le) != list_term(L.le):
            # `for i, x in enumerate(X[:-1]): ... X[i + 1]`: the successor in X (always
            # in range)
            if L0.le[0] == 'ldroplast' and list_term(L0.le[1]) == list_term(L.le) and \
                    i.off in (0, 1):
                if state['depth'] != 'succ':
                    raise _NeedDepth('succ')
                return elem_input(index, pp_name + ('.1' if i.off == 0 else '.2'), L)
            # the index of one list used on another one: treat it as a number
            raise _NeedIndexValue()
        if i.off not in (0, -1, -2):
            raise Unsupported('symbolic index offset %d' % i.off)
        if state['depth'] == 'succ':
            if i.off == 0:
                return elem_input(index, pp_name + '.1', L)
            raise Unsupported('predecessor and successor in one loop')
        need = -i.off
        if state['depth'] < need:
            raise _NeedDepth(need)
        if i.off == -2 and len(I.decisions) > 0:
            # the IndexError of L[i - 2] on a one-element list is modelled before the
            # loop; that is only exact when the access happens on every path
            raise Unsupported('L[i - 2] evaluated conditionally')
        d = state['depth']
        term = {(0, 0): pp_name,
                (1, 0): pp_name + '.2', (1, -1): pp_name + '.1',
                (2, 0): pp_name + '.2.2', (2, -1): pp_name + '.2.1',
                (2, -2): pp_name + '.1.1'}[(d, i.off)]
        return elem_input(index, term, L)
    if isinstance(i, Si):
        # L[k] with a symbolic integer: Python raises IndexError unless -n <= k < n
        L = bound_list(I, L)
        lt = list_term(L.le)
        inb = _index_in_bounds(I, i.e, lt, len_lb(I, L.le))
        k = I.name_value(i, 'k')
        kt = emit.sexpr(k.e)
        if inb == 'nonneg':
            # 0 <= k < len(L) follows from the bounds of the enclosing loop
            dflt = _default_term(L.elem)
            return elem_input(index, '(%s.getD (Int.toNat %s) %s)' % (lt, kt, dflt), L, I)
        if inb == 'wrap':
            # -len(L) <= k < len(L): no IndexError, a negative k counts from the end
            dflt = _default_term(L.elem)
            return elem_input(index, '(%s.getD (Int.toNat (if %s < (0 : Int) then '
                                     '((%s).length : Int) + %s else %s)) %s)' % (
                                         lt, kt, lt, kt, kt, dflt), L, I)
        _raise_if(I, ('rawprop', '(%s < -((%s).length : Int) ∨ ((%s).length : Int) ≤ %s)' % (
            kt, lt, lt, kt)), 'IndexError')
        dflt = _default_term(L.elem)
        return elem_input(index, '(%s.getD (Int.toNat (if %s < (0 : Int) then ((%s).length : Int) '
                                 '+ %s else %s)) %s)' % (lt, kt, lt, kt, kt, dflt), L, I)
    if isinstance(i, bool):
        i = int(i)
    if isinstance(i, int):
        L = bound_list(I, L)
        lt = list_term(L.le)
        dflt = _default_term(L.elem)
        if i == 0:
            _raise_if_short(I, L, 1, 'IndexError')
            return elem_input(index, '(%s.headD %s)' % (lt, dflt), L, I)
        if i == -1:
            _raise_if_short(I, L, 1, 'IndexError')
            return elem_input(index, '(%s.getLastD %s)' % (lt, dflt), L, I)
        if i > 0:
            _raise_if_short(I, L, i + 1, 'IndexError')
            return elem_input(index, '(%s.getD %d %s)' % (lt, i, dflt), L, I)
        _raise_if_short(I, L, -i, 'IndexError')
        return elem_input(index, '((List.reverse %s).getD %d %s)' % (lt, -i - 1, dflt), L, I)
    if isinstance(i, slice):
        lo, hi, step = i.start, i.stop, i.step
        if step not in (None, 1, -1):
            raise Unsupported('slice step %r' % (step,))
        from symexec import SOpt as _SOpt
        if isinstance(lo, _SOpt):
            lo = I.payload(lo)
        if isinstance(hi, _SOpt):
            hi = I.payload(hi)
        if isinstance(lo, Si) or isinstance(hi, Si):
            if step not in (None, 1):
                raise Unsupported('slice step with symbolic bounds')
            L = bound_list(I, L)
            le = L.le
            for b in (lo, hi):
                if b is not None and not isinstance(b, Si) and not (
                        isinstance(b, int) and not isinstance(b, bool)):
                    raise Unsupported('slice bound %r' % (b,))

            def bterm(b):
                if isinstance(b, Si):
                    return emit.sexpr(I.name_value(b, 'k').e)
                return '(%d : Int)' % b if b >= 0 else '(-%d : Int)' % (-b)
            if hi is not None:
                le = ('ltakei', bterm(hi), le)
            if lo is not None:
                if hi is None:
                    le = ('ldropi', bterm(lo), le)
                elif isinstance(lo, int) and lo >= 0:
                    # a non-negative literal lower bound does not depend on the length
                    le = ('ldrop', lo, le)
                else:
                    raise Unsupported('slice with two bounds and a symbolic lower bound')
            return SList(le, L.elem, L.pycls)
        for b in (lo, hi):
            if b is not None and not (isinstance(b, int) and not isinstance(b, bool)):
                raise Unsupported('symbolic slice bound')
        if step == -1:
            if lo is None and hi is None:
                return SList(('lrev', L.le), L.elem, L.pycls)
            raise Unsupported('reversed slice with bounds')
        le = L.le
        if hi is not None:
            if hi >= 0:
                le = ('ltake', hi, le)
            elif hi == -1:
                le = ('ldroplast', le)
            else:
                raise Unsupported('slice upper bound %d' % hi)
        if lo is not None and lo != 0:
            if lo > 0:
                le = ('ldrop', lo, le)
            else:
                raise Unsupported('slice lower bound %d' % lo)
        return SList(le, L.elem, L.pycls)
    raise Unsupported('index %r into symbolic list' % (i,))


def _lin(e, defs=None):
    """Integer expression as (variable term or None, constant)."""
    if e[0] == 'ilit':
        return (None, e[1])
    if e[0] == 'ivar':
        if defs and e[1] in defs:
            return _lin(defs[e[1]], defs)
        return (e[1], 0)
    if e[0] in ('iadd', 'isub'):
        a, b = _lin(e[1], defs), _lin(e[2], defs)
        if a is None or b is None:
            return None
        if b[0] is None:
            return (a[0], a[1] + (b[1] if e[0] == 'iadd' else -b[1]))
        if a[0] is None and e[0] == 'iadd':
            return (b[0], a[1] + b[1])
    return None


def _index_in_bounds(I, e, lt, lb=0):
    """'nonneg' when the integer expression e is provably a valid non-negative index of the
    list with term lt, 'wrap' when it is provably in [-len, len) (Python's negative indices
    wrap), False when neither is known.  Known: e = i + c where i ranges over
    range(a, len(lt) - k) (registered by the enclosing loop);  literals against the known
    lower bound `lb` of the length;  `x + 1 if x != len - 1 else 0` (cyclic successor)."""
    if not getattr(I, 'v3', False):
        return False        # (kernels of the second generation keep their emitted text)
    len_t = '((%s).length : Int)' % lt
    e = _expand_int(e, I.int_defs)
    if e[0] == 'iite':
        a, b = _index_in_bounds(I, e[2], lt, lb), _index_in_bounds(I, e[3], lt, lb)
        c = e[1]
        if not a and c[0] == 'not' and c[1][0] == 'eq':
            # under x != m with m = len - 1 and x in [lo, len): x + 1 < len
            x, m = _lin(c[1][1], I.int_defs), _lin(c[1][2], I.int_defs)
            t = _lin(e[2], I.int_defs)
            if x and m and t and x[0] is not None and m == (len_t, -1) and \
                    t == (x[0], x[1] + 1):
                rb = I.len_lower.get(('range', x[0]))
                if rb is not None:
                    hl = _lin(rb[1], I.int_defs)
                    if hl == (len_t, 0) and rb[0] + x[1] + 1 >= 0:
                        a = 'nonneg'
        if a and b:
            return 'nonneg' if (a == 'nonneg' and b == 'nonneg') else 'wrap'
        return False
    ln = _lin(e, I.int_defs)
    if ln is None:
        return False
    if ln[0] is None:
        if 0 <= ln[1] < lb:
            return 'nonneg'
        if -lb <= ln[1] < 0:
            return 'wrap'
        return False
    b = I.len_lower.get(('range', ln[0]))
    if b is None:
        return False
    lo, hi = b
    hl = _lin(hi, I.int_defs)
    if hl is None or hl[0] != len_t:
        return False
    k = -hl[1]
    if ln[1] > k:
        return False
    if lo + ln[1] >= 0:
        return 'nonneg'
    if lo + ln[1] >= -lb:
        return 'wrap'
    return False


def _expand_int(e, defs, depth=0):
    if e[0] == 'ivar' and e[1] in defs and depth < 8:
        return _expand_int(defs[e[1]], defs, depth + 1)
    return e


def _item_term(I, L, v):
    """Lean term of a value stored into the symbolic list L (fixes the element kind of a
    list that was created empty; a list that receives both objects and None has optional
    elements)."""
    index = I.index
    kd = elem_kind(v, index)
    newk = unify_kind(L.elem, kd)
    holder = getattr(L, 'holder', None)
    if L.elem is None or mtypes.parse_type(newk) != mtypes.parse_type(L.elem):
        was_plain = L.elem is not None and not (
            isinstance(mtypes.parse_type(L.elem), tuple) and
            mtypes.parse_type(L.elem)[0] == 'opt')
        L.elem = newk
        if v is not None or L.pycls is None:
            L.pycls = _class_of_v2(v) if v is not None else L.pycls
        if holder is not None:
            holder['elem'], holder['pycls'] = L.elem, L.pycls
        if was_plain:
            # items already emitted as plain values must become `some _`
            if holder is not None:
                raise _RestartLoop()
            raise Unsupported('list of %r receives None' % (kd,))
    elif L.pycls is None and v is not None:
        L.pycls = _class_of_v2(v)
        if holder is not None:
            holder['pycls'] = L.pycls
    if isinstance(v, (Sc, Bo, Si)):
        v = I.name_value(v, 'item')
    if v is None:
        return 'none'
    return emit.value_term(v, L.elem, index)


def _class_of_v2(v):
    if isinstance(v, Obj):
        return v.cls.name
    if isinstance(v, tuple):
        return tuple(_class_of_v2(x) for x in v)
    return None


def slist_method(frame, r, n, args, kwargs):
    I = frame.I
    index = I.index
    if kwargs:
        raise Unsupported('keyword arguments for list.%s' % n)
    if n in MUTATORS and I.spec_starts:
        raise _NeedFork()
    if n == 'append' and len(args) == 1:
        r.le = ('lsnoc', r.le, _item_term(I, r, args[0]))
        return None
    if n == 'extend' and len(args) == 1:
        a = args[0]
        if isinstance(a, SList):
            if r.elem is None:
                r.elem, r.pycls = a.elem, a.pycls
                holder = getattr(r, 'holder', None)
                if holder is not None:
                    holder['elem'], holder['pycls'] = r.elem, r.pycls
            if mtypes.parse_type(a.elem) != mtypes.parse_type(r.elem):
                raise Unsupported('extend with a list of another kind')
            r.le = ('lappend', r.le, a.le)
            return None
        for x in I.iterate(a):
            r.le = ('lsnoc', r.le, _item_term(I, r, x))
        return None
    if n == 'insert' and len(args) == 2 and args[0] == 0 and isinstance(args[0], int):
        r.le = ('lcons', _item_term(I, r, args[1]), r.le)
        return None
    if n == 'pop' and len(args) <= 1:
        which = args[0] if args else -1
        if which not in (0, -1) or isinstance(which, bool) or not isinstance(which, int):
            raise Unsupported('list.pop(%r) on a symbolic list' % (which,))
        b = bound_list(I, r)
        r.le = b.le
        lt = list_term(r.le)
        _raise_if_short(I, r, 1, 'IndexError')
        dflt = _default_term(r.elem)
        if which == 0:
            v = elem_input(index, '(%s.headD %s)' % (lt, dflt), r, I)
            r.le = ('ldrop', 1, r.le)
        else:
            v = elem_input(index, '(%s.getLastD %s)' % (lt, dflt), r, I)
            r.le = ('ldroplast', r.le)
        return v
    if n == 'reverse' and not args:
        r.le = ('lrev', r.le)
        return None
    if n == 'rotate' and len(args) == 1 and getattr(r, 'is_deque', False):
        # deque.rotate(n): right by n; = left by (-n) mod len
        a = args[0]
        if not (isinstance(a, Si) or (isinstance(a, int) and not isinstance(a, bool))):
            raise Unsupported('deque.rotate(%r)' % (a,))
        b = bound_list(I, r)
        at = emit.sexpr(I.name_value(Si(('ineg', to_si_(a))), 'rot').e)
        r.le = ('lrotate', at, b.le)
        return None
    if n == 'copy' and not args:
        return SList(r.le, r.elem, r.pycls)
    raise Unsupported('method %s of a symbolic list' % n)


def store_v3(frame, target, c, i, v):
    """`d[key] = value` on a dict with symbolic keys;  `L[a:b] = items` on a symbolic list."""
    I = frame.I
    index = I.index
    if I.spec_starts:
        raise _NeedFork()
    if isinstance(c, dict):
        # an empty python dict receiving its first symbolic key: it must be a local name
        if not isinstance(target.value, ast.Name):
            raise Unsupported('symbolic key stored into a dict that is not a local name')
        c = SDict(SList(('llit', [], None), None, None))
        frame.env[target.value.id] = c
    if isinstance(c, SDict):
        if not isinstance(i, (Sc, Si)) and not is_num(i):
            raise Unsupported('dict key %r' % (i,))
        if isinstance(v, list):
            raise Unsupported('mutable list stored as a dict value')
        pr = c.pairs
        if pr.le == ('llit', [], None):
            kd = ('tup', elem_kind(i, index), elem_kind(v, index))
            pr.elem, pr.pycls = kd, (None, _class_of_v2(v))
            pr.le = ('llit', [], mtypes.lean_type(('list', kd)))
            holder = getattr(pr, 'holder', None)
            if holder is not None:
                holder['elem'], holder['pycls'] = pr.elem, pr.pycls
        pr.le = ('lsnoc', pr.le, _item_term(I, pr, (i, v)))
        return None
    # slice assignment on a symbolic list
    if not isinstance(i, slice) or i.step not in (None, 1):
        raise Unsupported('item assignment on a symbolic list')
    if isinstance(v, (list, tuple)):
        ins = SList(('llit', [], mtypes.lean_type(('list', c.elem))), c.elem, c.pycls)
        for x in v:
            ins.le = ('lsnoc', ins.le, _item_term(I, ins, x))
    elif isinstance(v, SList):
        ins = v
        if mtypes.parse_type(ins.elem) != mtypes.parse_type(c.elem):
            raise Unsupported('slice assignment with items of another kind')
    else:
        raise Unsupported('slice assignment of %r' % (v,))
    lo = i.start if i.start is not None else 0
    hi = i.stop
    b = bound_list(I, c)

    def bt(x):
        if isinstance(x, Si):
            return emit.sexpr(I.name_value(x, 'k').e)
        if isinstance(x, int) and not isinstance(x, bool):
            return '(%d : Int)' % x if x >= 0 else '(-%d : Int)' % (-x)
        raise Unsupported('slice bound %r' % (x,))
    head = ('ltakei', bt(lo), b.le)
    if hi is None:
        c.le = ('lappend', head, ins.le)
        return None
    # Python: L[lo:hi] = ins replaces L[lo:max(lo, hi)]
    same = (isinstance(lo, Si) and isinstance(hi, Si) and lo.e == hi.e) or \
        (not isinstance(lo, Si) and not isinstance(hi, Si) and lo == hi)
    if not same:
        raise Unsupported('slice assignment that replaces items')
    c.le = ('lappend', ('lappend', head, ins.le), ('ldropi', bt(lo), b.le))
    return None


def sdict_lookup(frame, d, k):
    I = frame.I
    index = I.index
    pr = bound_list(I, d.pairs)
    if pr.elem is None:
        raise PyRaise('KeyError')
    lt = list_term(pr.le)
    kt = emit.sexpr(to_sc(I.name_value(k, 'key') if isinstance(k, (Sc, Si)) else k))
    nm = I.fresh('hits')
    I.trace.append(('let', nm, 'raw', '(List.filter (fun p_ => decide (p_.1 = %s)) %s)' % (kt, lt)))
    _raise_if(I, ('rawprop', '(%s = [])' % nm), 'KeyError')
    vk = mtypes.parse_type(pr.elem)[2]
    vcls = pr.pycls[1] if isinstance(pr.pycls, tuple) else None
    it = I.fresh('item')
    I.trace.append(('let', it, 'raw', '(%s.getLastD %s).2' % (nm, _default_term(pr.elem))))
    return mtypes.make_input(index, it, vk, vcls)


def sdict_method(frame, d, n, args, kwargs):
    I = frame.I
    pr = d.pairs
    if n == 'keys' and not args:
        if pr.elem is None:
            return []
        b = bound_list(I, pr)
        nm = I.fresh('keys')
        I.trace.append(('let', nm, 'raw', '(List.map (fun p_ => p_.1) %s)' % list_term(b.le)))
        I.len_lower[nm] = len_lb(I, b.le)
        return SList(('lvar', nm), mtypes.parse_type(pr.elem)[1], None)
    raise Unsupported('method %s of a dict with symbolic keys' % n)


def sym_minmax(frame, name, L):
    I = frame.I
    if mtypes.parse_type(L.elem) != 'S':
        raise Unsupported('%s over a symbolic list of non-scalars' % name)
    L = bound_list(I, L)
    lt = list_term(L.le)
    _raise_if_short(I, L, 1, 'ValueError')
    nm = I.fresh(name)
    I.trace.append(('let', nm, 'raw', '(List.foldl %s (%s.headD (0 : α)) (List.drop 1 %s))' % (
        name, lt, lt)))
    return Sc(('var', nm))


# ------------------------------------------------------------------ loop accumulators
class _BodyScan(ast.NodeVisitor):
    """Locations a loop body may update, in source order, and its control statements."""

    def __init__(self):
        self.locs = []
        self.has_return = False
        self.has_break = False
        self.mutated = set()
        self.loop_depth = 0

    def add(self, loc):
        if loc not in self.locs:
            self.locs.append(loc)

    def visit_Name(self, node):
        if isinstance(node.ctx, (ast.Store, ast.Del)):
            self.add(('name', node.id))

    def visit_Subscript(self, node):
        if isinstance(node.ctx, (ast.Store, ast.Del)):
            if isinstance(node.value, ast.Name):
                self.add(('name', node.value.id))
            else:
                raise Unsupported('item store on a non-name inside a loop over a symbolic '
                                  'list')
        self.generic_visit(node)

    def visit_Attribute(self, node):
        if isinstance(node.ctx, (ast.Store, ast.Del)):
            if isinstance(node.value, ast.Name):
                self.add(('attr', node.value.id, node.attr))
            else:
                raise Unsupported('attribute store on a non-name inside a loop over a '
                                  'symbolic list')
        self.generic_visit(node)

    def visit_Call(self, node):
        f = node.func
        if isinstance(f, ast.Attribute) and isinstance(f.value, ast.Name) and \
                f.attr in MUTATORS:
            self.add(('name', f.value.id))
            self.mutated.add(f.value.id)
        self.generic_visit(node)

    def _comp(self, node):
        # comprehension variables are local to the comprehension
        for g in node.generators:
            self.visit(g.iter)
            for c in g.ifs:
                self.visit(c)
        if hasattr(node, 'elt'):
            self.visit(node.elt)
        else:
            self.visit(node.key)
            self.visit(node.value)

    visit_ListComp = visit_GeneratorExp = visit_SetComp = visit_DictComp = _comp

    def visit_Lambda(self, node):
        self.visit(node.body)

    def visit_FunctionDef(self, node):
        raise Unsupported('nested function definition inside a loop over a symbolic list')

    def visit_Return(self, node):
        self.has_return = True
        self.generic_visit(node)

    def visit_Break(self, node):
        if self.loop_depth == 0:
            self.has_break = True

    def _loop(self, node):
        if isinstance(node, ast.For):
            self.visit(node.target)
            self.visit(node.iter)
        else:
            self.visit(node.test)
        self.loop_depth += 1
        for s in node.body:
            self.visit(s)
        self.loop_depth -= 1
        for s in node.orelse:
            self.visit(s)

    visit_For = visit_While = _loop


def _int_only_updates(name, body):
    """True when every store to `name` in the loop body keeps it an integer."""
    def int_const(e):
        return isinstance(e, ast.Constant) and isinstance(e.value, int) and \
            not isinstance(e.value, bool)
    ok = True
    for st in body:
        for node in ast.walk(st):
            if isinstance(node, ast.AugAssign) and isinstance(node.target, ast.Name) and \
                    node.target.id == name:
                if not (isinstance(node.op, (ast.Add, ast.Sub, ast.Mult)) and
                        int_const(node.value)):
                    ok = False
            elif isinstance(node, ast.Assign):
                for t in node.targets:
                    for nn in ast.walk(t):
                        if isinstance(nn, ast.Name) and nn.id == name:
                            v = node.value
                            if not (isinstance(t, ast.Name) and (
                                    int_const(v) or (
                                        isinstance(v, ast.BinOp) and
                                        isinstance(v.op, (ast.Add, ast.Sub)) and
                                        isinstance(v.left, ast.Name) and
                                        v.left.id == name and int_const(v.right)))):
                                ok = False
            elif isinstance(node, (ast.For, ast.comprehension)):
                for nn in ast.walk(node.target):
                    if isinstance(nn, ast.Name) and nn.id == name:
                        ok = False
    return ok


class _Tpl(object):
    """Shape of one accumulator: how it is spread over the components of the fold state."""

    def __init__(self, kind, sub=None, cls=None, holder=None, seqtype=None):
        self.kind = kind          # model type of a leaf | 'seq' | 'slist'
        self.sub = sub            # templates of the items of a fixed-size sequence
        self.cls = cls
        self.holder = holder
        self.seqtype = seqtype


def _template(I, v, name, body, mutated):
    index = I.index
    if isinstance(v, Obj):
        return _Tpl(elem_kind(v, index), cls=v.cls.name)
    if isinstance(v, (Bo, bool)):
        return _Tpl('B')
    if isinstance(v, Si):
        return _Tpl('I')
    if isinstance(v, Sc) or isinstance(v, float):
        return _Tpl('S')
    if isinstance(v, int):
        if name is not None and _int_only_updates(name, body):
            return _Tpl('I')
        t = _Tpl('I')       # tentatively an integer; falls back to a scalar (see _tpl_output)
        t.trial = True
        return t
    if isinstance(v, SList):
        return _Tpl('slist', holder={'elem': v.elem, 'pycls': v.pycls})
    if isinstance(v, list) and name in mutated:
        holder = {'elem': None, 'pycls': None}
        if v:
            kinds = [elem_kind(x, index) for x in v]
            if any(mtypes.parse_type(k) != mtypes.parse_type(kinds[0]) for k in kinds):
                raise Unsupported('list accumulator with items of different kinds')
            holder = {'elem': kinds[0], 'pycls': _class_of_v2(v[0])}
        return _Tpl('slist', holder=holder)
    if isinstance(v, (list, tuple)):
        return _Tpl('seq', sub=[_template(I, x, None, body, mutated) for x in v],
                    seqtype=type(v))
    if v is None:
        # starts as None, may receive a value: `Option τ`, τ found from the assignments
        return _Tpl('optacc', holder={'kind': None, 'pycls': None})
    if getattr(I, 'v3', False) and (isinstance(v, SDict) or (isinstance(v, dict) and not v)):
        pr = v.pairs if isinstance(v, SDict) else None
        return _Tpl('sdict', holder={'elem': pr.elem if pr else None,
                                     'pycls': pr.pycls if pr else None})
    raise Unsupported('loop-carried value of unsupported kind: %r' % (v,))


def _tpl_leaves(t):
    if t.kind == 'seq':
        out = []
        for s in t.sub:
            out.extend(_tpl_leaves(s))
        return out
    return [t]


def _tpl_kind(t):
    if t.kind == 'sdict':
        if t.holder['elem'] is None:
            raise Unsupported('dict accumulator that never receives an item')
        return ('list', mtypes.parse_type(t.holder['elem']))
    if t.kind == 'optacc':
        if t.holder['kind'] is None:
            raise Unsupported('accumulator that starts as None and never receives a value')
        return ('opt', t.holder['kind'])
    if t.kind == 'slist':
        if t.holder['elem'] is None or \
                mtypes.parse_type(t.holder['elem']) == ('opt', None):
            raise Unsupported('list accumulator that never receives an item')
        return ('list', mtypes.parse_type(t.holder['elem']))
    return t.kind


def _tpl_input(I, t, terms):
    """Fresh symbolic value of shape t reading the state components `terms` (consumed)."""
    if t.kind == 'seq':
        return t.seqtype(_tpl_input(I, s, terms) for s in t.sub)
    term = terms.pop(0)
    if t.kind == 'sdict':
        L = SList(('lvar', term), t.holder['elem'], t.holder['pycls'])
        L.holder = t.holder
        if t.holder['elem'] is None:
            L.le = ('llit', [], None)      # nothing stored yet on this exploration
            L.pending = term
        return SDict(L)
    if t.kind == 'optacc':
        from symexec import SOpt
        o = SOpt(term, t.holder['kind'])
        o.pycls = t.holder['pycls']
        return o
    if t.kind == 'slist':
        L = SList(('lvar', term), t.holder['elem'], t.holder['pycls'])
        L.holder = t.holder
        return L
    return mtypes.make_input(I.index, term, t.kind, t.cls)


def _tpl_output(I, t, v, out):
    """Flatten the value v of shape t into the list of component values `out`."""
    if t.kind == 'seq':
        if not isinstance(v, (list, tuple)) or len(v) != len(t.sub):
            raise Unsupported('fixed-size sequence accumulator changes its length')
        for s, x in zip(t.sub, v):
            _tpl_output(I, s, x, out)
        return
    if t.kind == 'sdict':
        if isinstance(v, dict) and not v:
            out.append([])
            return
        if not isinstance(v, SDict):
            raise Unsupported('dict accumulator rebound to %r' % (v,))
        pr = v.pairs
        if t.holder['elem'] is None and pr.elem is not None:
            # the kind of the items became known during this run: explore again with it
            t.holder['elem'], t.holder['pycls'] = pr.elem, pr.pycls
            raise _RestartLoop()
        if pr.elem is None:
            out.append([])
            return
        out.append(pr)
        return
    if t.kind == 'optacc':
        from symexec import SOpt
        if isinstance(v, SymIdx):
            raise _NeedIndexValue()
        if v is None or isinstance(v, SOpt):
            if isinstance(v, SOpt) and v.kind is not None and t.holder['kind'] is not None \
                    and mtypes.parse_type(v.kind) != mtypes.parse_type(t.holder['kind']):
                raise Unsupported('optional accumulator of mixed kinds')
            out.append(v)
            return
        kd = mtypes.parse_type(elem_kind(v, I.index))
        if isinstance(kd, tuple):
            raise Unsupported('optional accumulator of kind %r' % (kd,))
        if t.holder['kind'] is None:
            t.holder['kind'], t.holder['pycls'] = kd, _class_of_v2(v)
            raise _RestartLoop()
        if mtypes.parse_type(t.holder['kind']) != kd:
            raise Unsupported('optional accumulator of mixed kinds')
        out.append(v)
        return
    if t.kind == 'slist':
        if isinstance(v, list):
            out.append(v)
            return
        if not isinstance(v, SList):
            raise Unsupported('list accumulator rebound to %r' % (v,))
        if t.holder['elem'] is None and v.elem is not None:
            t.holder['elem'], t.holder['pycls'] = v.elem, v.pycls
        if v.elem is not None and mtypes.parse_type(v.elem) != \
                mtypes.parse_type(t.holder['elem']):
            raise Unsupported('list accumulator changes its element kind')
        out.append(v)
        return
    if isinstance(v, SymIdx):
        raise _NeedIndexValue()
    if t.kind == 'I' and not (isinstance(v, Si) or (isinstance(v, int) and
                                                     not isinstance(v, bool))):
        if getattr(t, 'trial', False):
            # an integer start value that receives a float: the accumulator is a scalar
            t.kind, t.trial = 'S', False
            raise _RestartLoop()
        raise Unsupported('integer accumulator receives %r' % (v,))
    if t.kind == 'B' and not isinstance(v, (bool, Bo)):
        raise Unsupported('boolean accumulator receives %r' % (v,))
    if isinstance(t.kind, str) and t.kind in mtypes.STRUCTS:
        if not isinstance(v, Obj):
            raise Unsupported('object accumulator receives %r' % (v,))
        t.cls = t.cls or v.cls.name
    out.append(v)


def _snapshot(env):
    snap = []

    def one(v, depth):
        if isinstance(v, Obj):
            snap.append((v, dict(v.slots)))
            if depth < 2:
                for x in v.slots.values():
                    one(x, depth + 1)
        elif isinstance(v, list):
            snap.append((v, list(v)))
        elif isinstance(v, SList):
            snap.append((v, v.le))
    for k in sorted(env.keys()):
        one(env[k], 0)
    return snap


def _restore(snap):
    for v, old in snap:
        if isinstance(v, Obj):
            v.slots.clear()
            v.slots.update(old)
        elif isinstance(v, list):
            v[:] = old
        else:
            v.le = old


class _MemoInLoop(Exception):
    """The loop body filled a memo slot (`obj._x` was None) of an object that lives outside
    the loop."""

    def __init__(self, obj, slot):
        self.obj, self.slot = obj, slot


def _changed(snap, skip):
    for v, old in snap:
        if isinstance(v, Obj):
            for k in sorted(set(v.slots.keys()) | set(old.keys())):
                if (id(v), k) in skip:
                    continue
                if v.slots.get(k, _MISSING) is not old.get(k, _MISSING):
                    if old.get(k, _MISSING) is None and k.startswith('_'):
                        raise _MemoInLoop(v, k)
                    return 'slot %s of a %s object' % (k, v.cls.name)
        elif id(v) in skip:
            continue
        elif isinstance(v, list):
            if len(v) != len(old) or any(a is not b for a, b in zip(v, old)):
                return 'a list'
        else:
            if v.le is not old:
                return 'a symbolic list'
    return None


_MISSING = object()


def _iter_parts(st_target, it):
    enum = isinstance(it, tuple)
    L = it[1] if enum else it
    if enum:
        if not (isinstance(st_target, ast.Tuple) and len(st_target.elts) == 2 and
                isinstance(st_target.elts[0], ast.Name)):
            raise Unsupported('enumerate target')
        return L, st_target.elts[0].id, st_target.elts[1]
    return L, None, st_target


def _cur_term(pp_name, depth):
    return {0: pp_name, 1: pp_name + '.2', 2: pp_name + '.2.2', 'succ': pp_name + '.1',
            'idx': pp_name + '.1'}[depth]


def _body_facts(I, L, pp_name, depth):
    """Facts that hold inside the body of a loop over L: L has an element; in index-value
    mode the index lies in [0, len(L))."""
    if not getattr(I, 'v3', False):
        return
    if L.le[0] == 'lvar':
        I.len_lower[L.le[1]] = max(I.len_lower.get(L.le[1], 0), 1)
    if depth == 'idx':
        I.len_lower[('range', '((%s.2 : Nat) : Int)' % pp_name)] = (
            0, ('ivar', '((%s).length : Int)' % list_term(L.le)))


def _idx_value(pp_name, depth, key):
    if depth == 'idx':
        return Si(('ivar', '((%s.2 : Nat) : Int)' % pp_name))
    return SymIdx(key, 0)


def _next_depth(depth, nd):
    if depth == 'idx':
        raise Unsupported('internal: symbolic index object in index-value mode')
    if nd.d == 'succ':
        if depth != 0:
            raise Unsupported('predecessor and successor in one loop')
        return 'succ'
    if depth == 'succ':
        raise Unsupported('predecessor and successor in one loop')
    return max(depth + 1, nd.d)


def _pairs_src(L, depth):
    le = L.le
    el_ty = mtypes.lean_type(L.elem)
    ty = '(%s)' % el_ty
    if depth == 'succ':
        # L = X[:-1]: pairs (X[i], X[i+1])
        return ('lzip', le, ('ldrop', 1, le[1])), '(%s × %s)' % (ty, ty)
    if depth == 'idx':
        return ('lzipidx', le), '(%s × Nat)' % ty
    for _ in range(depth):
        le = ('lpairs', le)
        ty = '(%s × %s)' % (ty, ty)
    return le, ty


def exec_sym_for_v2(frame, st, it):
    I = frame.I
    index = I.index
    L, idx_name, el_target = _iter_parts(st.target, it)
    if L.elem is None:
        raise Unsupported('loop over a list whose element kind is not known')
    if all(isinstance(x, ast.Assert) for x in st.body) and not st.orelse:
        env = dict(frame.env)
        fr = Frame(I, frame.func, env)
        fr.module = frame.module
        fr.assign(el_target, elem_input(index, 'elem', L))
        fr.exec_block(st.body)
        return
    Lorig = L
    L = bound_list(I, L)
    scan = _BodyScan()
    for s in st.body:
        scan.visit(s)
    target_names = set(_target_names(el_target)) | ({idx_name} if idx_name else set())
    locs = []
    local_names = []
    for loc in scan.locs:
        if loc[0] == 'name':
            if loc[1] in target_names:
                continue
            if loc[1] in frame.env and not isinstance(frame.env[loc[1]], Undefined):
                locs.append(loc)
            else:
                local_names.append(loc[1])
        else:
            o = frame.env.get(loc[1])
            if loc[1] in target_names or o is None:
                continue        # attribute of a loop-local object
            if not isinstance(o, Obj):
                raise Unsupported('attribute store on %r inside a loop' % (o,))
            locs.append(('attr', loc[1], frame.mangle(loc[2])))

    def current(loc):
        if loc[0] == 'name':
            return frame.env[loc[1]]
        o = frame.env[loc[1]]
        if loc[2] not in o.slots:
            raise Unsupported('attribute %s created inside a loop' % loc[2])
        return o.slots[loc[2]]

    def refs(target):
        n_ = 0
        for x in frame.env.values():
            if x is target:
                n_ += 1
            elif isinstance(x, Obj):
                n_ += sum(1 for y in x.slots.values() if y is target)
            elif isinstance(x, (list, tuple)):
                n_ += sum(1 for y in x if y is target)
        return n_
    tpls = []
    for loc in locs:
        v = current(loc)
        if isinstance(v, (list, SList)) and refs(v) > 1:
            raise Unsupported('accumulator container %s is aliased' % (loc[1:],))
        tpls.append(_template(I, v, loc[1] if loc[0] == 'name' else None, st.body,
                              scan.mutated))
    leaves = []
    for t in tpls:
        leaves.extend(_tpl_leaves(t))
    uid = I.fresh('loop')
    st_name = 'st_' + uid
    pp_name = 'pp_' + uid
    key = object()
    snap = _snapshot(frame.env)
    skip = set()
    for loc in locs:
        if loc[0] == 'name':
            skip.add(id(frame.env[loc[1]]))
        else:
            skip.add((id(frame.env[loc[1]]), loc[2]))
    init_vals = []
    for loc, t in zip(locs, tpls):
        _tpl_output(I, t, current(loc), init_vals)
    attr_objs = dict((loc, frame.env[loc[1]]) for loc in locs if loc[0] == 'attr')

    def layout(has_err):
        ctl = []
        if scan.has_return:
            ctl.append('ret')
        if scan.has_break:
            ctl.append('brk')
        if has_err:
            ctl.append('err')
        return ctl

    def run_body(depth, ctl):
        ncomp = len(ctl) + len(leaves)
        terms = [_proj(st_name, k, ncomp) for k in range(ncomp)]
        acc_terms = terms[len(ctl):]
        env = dict(frame.env)
        fr = Frame(I, frame.func, env)
        fr.module = frame.module
        _restore(snap)
        for loc, t in zip(locs, tpls):
            v = _tpl_input(I, t, acc_terms)
            if loc[0] == 'name':
                env[loc[1]] = v
            else:
                attr_objs[loc].slots[loc[2]] = v
        state = {'depth': depth}
        cur = _cur_term(pp_name, depth)
        fr.assign(el_target, elem_input(index, cur, L))
        if getattr(L, 'range_bounds', None) is not None:
            # the loop variable of `for i in range(a, n)`: a <= i < n on this path
            I.len_lower[('range', cur)] = L.range_bounds
        _body_facts(I, L, pp_name, depth)
        if idx_name is not None:
            env[idx_name] = _idx_value(pp_name, depth, key)
        I.sym_lists[id(key)] = (L, key, pp_name, state, Lorig)
        # loop-local names must be assigned before they are read in every iteration
        for nm in local_names:
            env[nm] = Undefined('loop-local name read before its assignment in the iteration')
        status, val = 'normal', None
        try:
            fr.exec_block(st.body)
        except _Return as r:
            status, val = 'return', r.v
        except _Break:
            status = 'break'
        except _Continue:
            pass
        except PyRaise as pr:
            # the exception leaves the loop; the accumulators keep the values they have at
            # the raise point (a handler around the loop may read them)
            if 'err' not in ctl:
                raise _NeedErr()
            status, val = 'err', pr.exc
        out = []
        for loc, t in zip(locs, tpls):
            v = env[loc[1]] if loc[0] == 'name' else attr_objs[loc].slots[loc[2]]
            _tpl_output(I, t, v, out)
        why = _changed(snap, skip)
        if why is not None:
            raise Unsupported('loop body over a symbolic list mutates %s that is not a '
                              'recognised accumulator' % why)
        return (status, val, out)

    depth = 0
    has_err = False
    hoisted = 0
    while True:
        ctl = layout(has_err)
        try:
            tree = I.explore(lambda: run_body(depth, ctl))
        except _NeedDepth as nd:
            depth = _next_depth(depth, nd)
            continue
        except _RestartLoop:
            continue
        except _NeedIndexValue:
            if depth == 'idx':
                raise       # the index of an enclosing loop is meant
            depth = 'idx'
            continue
        except _NeedErr:
            has_err = True
            continue
        except _MemoInLoop as mm:
            _restore(snap)
            hoisted += 1
            _hoist_memo(I, frame, mm, hoisted)
            snap = _snapshot(frame.env)
            continue
        finally:
            _restore(snap)
        if _tree_has_err(tree):
            raise Unsupported('internal: unhandled exception leaf in a loop body')
        break
    if not locs and not ctl:
        raise Unsupported('loop over symbolic list without effect')
    # kinds of the control components
    rkind = [None, None]
    errs = []
    rconst = []       # distinct concrete values returned from inside the loop

    def scan_leaves(node):
        if isinstance(node, Leaf):
            if node.value[0] == 'err':
                if node.value[1] not in errs:
                    errs.append(node.value[1])
            elif node.value[0] == 'return':
                v = node.value[1]
                if v is None:
                    # `return None`: a constant; the state only records that it happened
                    if not any(c is None for c in rconst):
                        rconst.append(None)
                    return
                if isinstance(v, (bool, int)) and not any(
                        type(c) is type(v) and c == v for c in rconst):
                    rconst.append(v)
                elif not isinstance(v, (bool, int)):
                    rconst.append(_MISSING)
                kd = mtypes.parse_type(elem_kind(v, index))
                if rkind[0] is None:
                    rkind[0], rkind[1] = kd, _class_of_v2(v)
                elif rkind[0] != kd:
                    raise Unsupported('loop returns values of different kinds')
        elif isinstance(node, Let):
            scan_leaves(node.child)
        else:
            scan_leaves(node.then)
            scan_leaves(node.els)
    scan_leaves(tree)
    errs.sort()
    multi_err = len(errs) > 1     # then the `raised` flag is an Int code (1-based)
    if any(c is None for c in rconst) and len(rconst) > 1:
        raise Unsupported('loop returns None on some paths and values on others')
    if 'ret' in ctl and rkind[0] is None:
        # a `return` that is never reached, or `return None`: the payload is a dummy Bool
        rkind[0] = 'B'
    kinds = []
    for c in ctl:
        kinds.append(('opt', rkind[0]) if c == 'ret' else
                     ('I' if (c == 'err' and multi_err) else 'B'))
    kinds.extend(_tpl_kind(t) for t in leaves)
    ncomp = len(kinds)
    ret = ('tup',) + tuple(kinds) if ncomp > 1 else kinds[0]

    def leaf_value(node):
        status, val, out = node.value
        head = []
        for c in ctl:
            if c == 'ret':
                head.append((True if val is None else val) if status == 'return' else None)
            elif c == 'brk':
                head.append(status == 'break')
            elif multi_err:
                head.append(errs.index(val) + 1 if status == 'err' else 0)
            else:
                head.append(status == 'err')
        vals = head + list(out)
        return tuple(vals) if ncomp > 1 else vals[0]

    def conv(node):
        if isinstance(node, Leaf):
            return Leaf(leaf_value(node), None)
        if isinstance(node, Let):
            return Let(node.name, node.kind, node.expr, conv(node.child))
        return Branch(node.cond, conv(node.then), conv(node.els))
    guard = []
    for k, c in enumerate(ctl):
        pj = _proj(st_name, k, ncomp)
        guard.append('(Option.isSome %s = true)' % pj if c == 'ret' else
                     ('(¬ (%s = (0 : Int)))' % pj if (c == 'err' and multi_err) else
                      '(%s = true)' % pj))
    ind = 4 if guard else 3
    body = emit.emit_tree(conv(tree), ret, index, ind)
    if guard:
        body = '      if %s then %s else\n%s' % (' ∨ '.join(guard), st_name, body)
    src_le, pp_ty = _pairs_src(L, depth)
    head = [None if c == 'ret' else (0 if (c == 'err' and multi_err) else False)
            for c in ctl]
    init_all = head + init_vals
    init = emit.value_term(tuple(init_all) if ncomp > 1 else init_all[0], ret, index)
    if depth == 2 and len_lb(I, L.le) < 2:
        # Python: L[i - 2] raises IndexError on a one-element list (i = 0)
        _raise_if(I, ('rawprop', '(%s.length = 1)' % list_term(L.le)), 'IndexError')
    res_name = 'acc_' + uid
    text = '(List.foldl (fun (%s : %s) (%s : %s) =>\n%s)\n      %s %s)' % (
        st_name, mtypes.lean_type(ret), pp_name, pp_ty, body, init, list_term(src_le))
    I.trace.append(('let', res_name, 'raw', text))
    res_terms = [_proj(res_name, k, ncomp) for k in range(ncomp)]
    acc_terms = res_terms[len(ctl):]
    if not ctl:
        # a list accumulator that receives exactly one item per iteration on every path
        # has length  len(initial) + len(source)
        pos = len(ctl)
        st_terms = [_proj(st_name, k, ncomp) for k in range(ncomp)]
        for j, t in enumerate(leaves):
            if t.kind != 'slist':
                continue
            okl = [True]

            def chk(node, j=j):
                if isinstance(node, Leaf):
                    v = node.value[2][j]
                    if not (isinstance(v, SList) and v.le[0] == 'lsnoc' and
                            v.le[1] == ('lvar', st_terms[pos + j])):
                        okl[0] = False
                elif isinstance(node, Let):
                    chk(node.child)
                else:
                    chk(node.then)
                    chk(node.els)
            chk(tree)
            if okl[0]:
                iv = init_vals[j]
                n0 = len(iv) if isinstance(iv, list) else len_lb(I, iv.le)
                I.len_lower[res_terms[pos + j]] = n0 + len_lb(I, src_le)
    for loc, t in zip(locs, tpls):
        v = _tpl_input(I, t, acc_terms)
        if isinstance(v, SList):
            v.holder = None
        if loc[0] == 'name':
            frame.env[loc[1]] = v
        else:
            attr_objs[loc].slots[loc[2]] = v
    why = 'loop-local name read after a loop over a symbolic list'
    for nm in list(local_names) + sorted(target_names):
        if nm is not None:
            frame.env[nm] = Undefined(why)
    for k, c in enumerate(ctl):
        pj = res_terms[k]
        if c == 'err' and multi_err:
            for ei, en in enumerate(errs):
                _raise_if(I, ('eq', ('ivar', pj), ('ilit', ei + 1)), en)
        elif c == 'err':
            _raise_if(I, ('bvar', pj), errs[0] if errs else 'Exception')
        elif c == 'ret':
            if I.decide(('rawprop', '(Option.isSome %s = true)' % pj)):
                if len(rconst) == 1 and rconst[0] is not _MISSING:
                    # every `return` inside the loop returns the same constant
                    raise _Return(rconst[0])
                dflt = _default_term(rkind[0])
                raise _Return(mtypes.make_input(
                    index, '(Option.getD %s %s)' % (pj, dflt), rkind[0], rkind[1]))
    if st.orelse:
        if 'brk' in ctl:
            if not I.decide(('bvar', res_terms[ctl.index('brk')])):
                frame.exec_block(st.orelse)
        else:
            frame.exec_block(st.orelse)


def _hoist_memo(I, frame, mm, hoisted):
    """A memoising property of an outer object is first read inside a loop / comprehension:
    fill it before the loop instead -- only when that evaluation is total (no decision, no
    exception), so that doing it early is unobservable."""
    index = I.index
    prop = mm.slot[1:]
    _, m = index.find_member(mm.obj.cls, prop)
    if hoisted > 8 or m is None or getattr(m, 'kind', None) != 'property':
        raise Unsupported('loop body over a symbolic list mutates slot %s of a %s '
                          'object that is not a recognised accumulator' % (
                              mm.slot, mm.obj.cls.name))
    I.nofork += 1
    try:
        I.getattr(mm.obj, prop, frame)
    except (_NeedFork, PyRaise):
        raise Unsupported('memo slot %s is first filled inside a loop and its '
                          'evaluation is not total' % mm.slot)
    finally:
        I.nofork -= 1
    # whether Python fills this slot depends on the loop running at all: the cache
    # state of the object is not modelled from here on (it must not be returned)
    mm.obj.cache_unmodelled = True


def _tree_has_err(node):
    if isinstance(node, Leaf):
        return node.err is not None
    if isinstance(node, Let):
        return _tree_has_err(node.child)
    return _tree_has_err(node.then) or _tree_has_err(node.els)


_SKIP = ('skip-item',)


def sym_comprehension_v2(frame, e, it):
    I = frame.I
    index = I.index
    if isinstance(e, ast.DictComp):
        raise Unsupported('dict comprehension over symbolic list')
    g = e.generators[0]
    L, idx_name, el_target = _iter_parts(g.target, it)
    if L.elem is None:
        raise Unsupported('comprehension over a list whose element kind is not known')
    Lorig = L
    L = bound_list(I, L)
    uid = I.fresh('map')
    pp_name = 'e_' + uid
    key = object()
    snap = _snapshot(frame.env)

    def run(depth):
        env = dict(frame.env)
        fr = Frame(I, frame.func, env)
        fr.module = frame.module
        state = {'depth': depth}
        cur = _cur_term(pp_name, depth)
        fr.assign(el_target, elem_input(index, cur, L))
        if getattr(L, 'range_bounds', None) is not None:
            I.len_lower[('range', cur)] = L.range_bounds
        _body_facts(I, L, pp_name, depth)
        if idx_name is not None:
            env[idx_name] = _idx_value(pp_name, depth, key)
        I.sym_lists[id(key)] = (L, key, pp_name, state, Lorig)
        for cond in g.ifs:
            if not I.test(fr.eval(cond)):
                return _SKIP
        v = fr.eval(e.elt)
        why = _changed(snap, set())
        if why is not None:
            raise Unsupported('comprehension over a symbolic list mutates %s' % why)
        return v

    depth = 0
    hoisted = 0
    while True:
        try:
            tree = I.explore(lambda: run(depth))
            break
        except _NeedDepth as nd:
            depth = _next_depth(depth, nd)
        except _MemoInLoop as mm:
            _restore(snap)
            hoisted += 1
            _hoist_memo(I, frame, mm, hoisted)
            snap = _snapshot(frame.env)
        except _NeedIndexValue:
            if depth == 'idx':
                raise       # the index of an enclosing loop is meant
            depth = 'idx'
    kind = [None, None]
    has_skip = [False]

    def scan_leaves(node):
        if isinstance(node, Leaf):
            if node.err is not None:
                raise Unsupported('comprehension element raises %s' % node.err)
            if node.value is _SKIP:
                has_skip[0] = True
                return
            kd = elem_kind(node.value, index)
            kind[0] = unify_kind(kind[0], kd)
            if node.value is not None and kind[1] is None:
                kind[1] = _class_of_v2(node.value)
        elif isinstance(node, Let):
            scan_leaves(node.child)
        else:
            scan_leaves(node.then)
            scan_leaves(node.els)
    scan_leaves(tree)
    if kind[0] is None:
        raise Unsupported('comprehension that never yields')
    if kind[0] == ('opt', None):
        raise Unsupported('comprehension that only yields None')
    if depth == 2 and len_lb(I, L.le) < 2:
        _raise_if(I, ('rawprop', '(%s.length = 1)' % list_term(L.le)), 'IndexError')
    src_le, pp_ty = _pairs_src(L, depth)
    binder = '(%s : %s)' % (pp_name, pp_ty)
    if has_skip[0] and isinstance(kind[0], tuple) and kind[0][0] == 'opt':
        raise Unsupported('filtered comprehension with optional items')
    if has_skip[0]:
        def conv(node):
            if isinstance(node, Leaf):
                return Leaf(None if node.value is _SKIP else node.value, None)
            if isinstance(node, Let):
                return Let(node.name, node.kind, node.expr, conv(node.child))
            return Branch(node.cond, conv(node.then), conv(node.els))
        body = emit.emit_tree(conv(tree), ('opt', kind[0]), index, 3)
        le = ('lfiltermap', binder, '\n' + body, src_le)
    else:
        body = emit.emit_tree(tree, kind[0], index, 3)
        le = ('lmap', binder, '\n' + body, src_le)
    nm = 'lst_' + uid
    I.trace.append(('let', nm, 'raw', list_term(le)))
    if not has_skip[0]:
        I.len_lower[nm] = len_lb(I, src_le)
    return SList(('lvar', nm), kind[0], kind[1])
