"""Loops and comprehensions over symbolic lists (vertex lists of unknown length).

Supported shapes (anything else raises Unsupported = failed translation):
  * `for x in L:` / `for i, x in enumerate(L):` whose body only updates local accumulator
    variables (scalars / booleans / point objects), may read `L[i - 1]` (the cyclic
    predecessor: Python's `L[-1]` wrap-around for i = 0) and contains no return/break.
    -> `List.foldl` over `L` or over `cyclicPairs L`.
  * `tuple(f(x) for x in L)`, `[f(L[i-1], x) for i, x in enumerate(L)]` -> `List.map`.
  * `reversed(L)` -> `List.reverse`;  `sum(L)` over a symbolic list of scalars -> foldl.
"""
import ast

import emit
import mtypes
from symexec import (Sc, Bo, Obj, SList, Unsupported, Frame, is_num, to_sc, to_bo,
                     _Return)


class SymIdx(object):
    """The loop index of an enumerate loop over a symbolic list (offset from current)."""

    def __init__(self, key, off=0):
        self.key = key
        self.off = off


def list_term(le):
    k = le[0]
    if k == 'lvar':
        return le[1]
    if k == 'lrev':
        return '(List.reverse %s)' % list_term(le[1])
    if k == 'lmap':
        return '(List.map (fun %s => %s) %s)' % (le[1], le[2], list_term(le[3]))
    if k == 'lpairs':
        return '(cyclicPairs %s)' % list_term(le[1])
    raise Unsupported('list expr %r' % (le,))


def elem_kind(v, index):
    """Model type of a loop-carried / mapped value."""
    if isinstance(v, Bo) or isinstance(v, bool):
        return 'B'
    if isinstance(v, Sc) or is_num(v):
        return 'S'
    if isinstance(v, Obj):
        for t, classes in mtypes.RESULT_CLASSES.items():
            if any(index.is_subclass(v.cls, c) for c in classes):
                return t
    raise Unsupported('loop-carried value of unsupported kind: %r' % (v,))


def _stored_names(stmts):
    out = []
    for st in stmts:
        for node in ast.walk(st):
            if isinstance(node, ast.Name) and isinstance(node.ctx, ast.Store):
                if node.id not in out:
                    out.append(node.id)
            if isinstance(node, (ast.Return, ast.Break, ast.Continue)):
                raise Unsupported('return/break/continue inside a loop over a symbolic list')
    return out


def _proj(term, i, n):
    if n == 1:
        return term
    s = term
    for _ in range(i):
        s = '%s.2' % s
    if i < n - 1:
        s = '%s.1' % s
    return s


def _target_names(target):
    if isinstance(target, ast.Name):
        return [target.id]
    if isinstance(target, (ast.Tuple, ast.List)):
        out = []
        for t in target.elts:
            out.extend(_target_names(t))
        return out
    raise Unsupported('loop target')


def _pyclass_for(elem, pycls):
    return pycls


def exec_sym_for(frame, st, it):
    I = frame.I
    index = I.index
    if st.orelse:
        raise Unsupported('for/else over symbolic list')
    enum = isinstance(it, tuple)
    L = it[1] if enum else it
    if enum:
        if not (isinstance(st.target, ast.Tuple) and len(st.target.elts) == 2 and
                all(isinstance(t, ast.Name) for t in st.target.elts)):
            raise Unsupported('enumerate target')
        idx_name, el_name = st.target.elts[0].id, st.target.elts[1].id
    else:
        if not isinstance(st.target, ast.Name):
            raise Unsupported('loop target')
        idx_name, el_name = None, st.target.id
    if all(isinstance(x, ast.Assert) for x in st.body):
        # type-checking loop: run the assertions once on a generic element
        env = dict(frame.env)
        fr = Frame(I, frame.func, env)
        fr.module = frame.module
        env[el_name] = mtypes.make_input(index, 'elem', L.elem, L.pycls)
        fr.exec_block(st.body)
        return
    stored = _stored_names(st.body)
    accs = [n for n in stored if n in frame.env and n not in (idx_name, el_name)]
    if not accs:
        raise Unsupported('loop over symbolic list without accumulators')
    kinds = [elem_kind(frame.env[n], index) for n in accs]
    n = len(accs)
    uid = I.fresh('loop')
    st_name = 'st_' + uid
    pp_name = 'pp_' + uid
    used_prev = [False]
    key = object()

    def run_body(use_pairs):
        env = dict(frame.env)
        fr = Frame(I, frame.func, env)
        fr.module = frame.module
        for i, (nm, kd) in enumerate(zip(accs, kinds)):
            env[nm] = mtypes.make_input(index, _proj(st_name, i, n), kd,
                                        _class_of(frame.env[nm]))
        cur_term = (pp_name + '.2') if use_pairs else pp_name
        env[el_name] = mtypes.make_input(index, cur_term, L.elem, L.pycls)
        if idx_name is not None:
            env[idx_name] = SymIdx(key, 0)
        I.sym_lists[id(key)] = (L, key, pp_name, used_prev, use_pairs)
        fr.exec_block(st.body)
        return tuple(env[nm] for nm in accs)

    # first pass discovers whether L[i-1] is used
    saved = (I.uses_math,)
    try:
        tree = I.explore(lambda: run_body(False))
        use_pairs = used_prev[0]
    except _NeedPairs:
        use_pairs = True
        tree = None
    if use_pairs:
        tree = I.explore(lambda: run_body(True))
    ret = ('tup',) + tuple(kinds) if n > 1 else kinds[0]

    def leaf_fix(node):
        return node
    body = emit.emit_tree(_untuple(tree, n), ret, index, 3)
    st_ty = mtypes.lean_type(ret)
    el_ty = mtypes.lean_type(L.elem)
    if use_pairs:
        src = '(cyclicPairs %s)' % list_term(L.le)
        pp_ty = '(%s × %s)' % (el_ty, el_ty)
    else:
        src = list_term(L.le)
        pp_ty = '(%s)' % el_ty
    init = emit.value_term(tuple(frame.env[nm] for nm in accs) if n > 1
                           else frame.env[accs[0]], ret, index)
    res_name = 'acc_' + uid
    text = '(List.foldl (fun (%s : %s) (%s : %s) =>\n%s)\n      %s %s)' % (
        st_name, st_ty, pp_name, pp_ty, body, init, src)
    I.trace.append(('let', res_name, 'raw', text))
    for i, (nm, kd) in enumerate(zip(accs, kinds)):
        frame.env[nm] = mtypes.make_input(index, _proj(res_name, i, n), kd,
                                          _class_of(frame.env[nm]))
    # loop-local temporaries (including the loop variables) are left undefined: reading
    # them after the loop is not supported
    for nm in stored:
        if nm not in accs and nm in frame.env:
            del frame.env[nm]


class _NeedPairs(Exception):
    pass


def _class_of(v):
    if isinstance(v, Obj):
        return v.cls.name
    return None


def _untuple(tree, n):
    """Leaves carry python tuples of accumulator values; for n == 1 unwrap them."""
    from symexec import Leaf, Let, Branch
    if n != 1:
        return tree

    def rec(node):
        if isinstance(node, Leaf):
            return Leaf(node.value[0] if node.err is None else None, node.err)
        if isinstance(node, Let):
            return Let(node.name, node.kind, node.expr, rec(node.child))
        return Branch(node.cond, rec(node.then), rec(node.els))
    return rec(tree)


def sym_index(frame, L, i, e):
    """L[i] for a symbolic list."""
    I = frame.I
    index = I.index
    if isinstance(i, SymIdx):
        info = I.sym_lists.get(id(i.key))
        if info is None:
            raise Unsupported('symbolic index outside its loop')
        L0, key, pp_name, used_prev, use_pairs = info
        if list_term(L0.le) != list_term(L.le):
            raise Unsupported('symbolic index into a different list')
        if i.off == 0:
            return mtypes.make_input(index, (pp_name + '.2') if use_pairs else pp_name,
                                     L.elem, L.pycls)
        if i.off == -1:
            used_prev[0] = True
            if not use_pairs:
                raise _NeedPairs()
            return mtypes.make_input(index, pp_name + '.1', L.elem, L.pycls)
        raise Unsupported('symbolic index offset %d' % i.off)
    if isinstance(i, int):
        dflt = _default_term(L.elem)
        if i == 0:
            return mtypes.make_input(index, '(%s.headD %s)' % (list_term(L.le), dflt),
                                     L.elem, L.pycls)
        if i == -1:
            return mtypes.make_input(index, '(%s.getLastD %s)' % (list_term(L.le), dflt),
                                     L.elem, L.pycls)
        if i > 0:
            return mtypes.make_input(index, '(%s.getD %d %s)' % (list_term(L.le), i, dflt),
                                     L.elem, L.pycls)
    raise Unsupported('index %r into symbolic list' % (i,))


def _default_term(elem):
    t = mtypes.parse_type(elem)
    if t == 'S':
        return '(0 : α)'
    if t == 'V2':
        return '(⟨0, 0⟩ : V2 α)'
    if t == 'V3':
        return '(⟨0, 0, 0⟩ : V3 α)'
    raise Unsupported('no default element for %r' % (t,))


def sym_comprehension(frame, e, it):
    """[f(x) for x in L] / tuple(f(L[i-1], x) for i, x in enumerate(L))."""
    I = frame.I
    index = I.index
    g = e.generators[0]
    if g.ifs:
        raise Unsupported('filtered comprehension over symbolic list')
    enum = isinstance(it, tuple)
    L = it[1] if enum else it
    if enum:
        if not (isinstance(g.target, ast.Tuple) and len(g.target.elts) == 2 and
                all(isinstance(t, ast.Name) for t in g.target.elts)):
            raise Unsupported('enumerate target')
        idx_name, el_name = g.target.elts[0].id, g.target.elts[1].id
    else:
        if not isinstance(g.target, ast.Name):
            raise Unsupported('comprehension target')
        idx_name, el_name = None, g.target.id
    uid = I.fresh('map')
    pp_name = 'e_' + uid
    used_prev = [False]
    key = object()

    def run(use_pairs):
        env = dict(frame.env)
        fr = Frame(I, frame.func, env)
        fr.module = frame.module
        env[el_name] = mtypes.make_input(index, (pp_name + '.2') if use_pairs else pp_name,
                                         L.elem, L.pycls)
        if idx_name is not None:
            env[idx_name] = SymIdx(key, 0)
        I.sym_lists[id(key)] = (L, key, pp_name, used_prev, use_pairs)
        return fr.eval(e.elt)

    try:
        tree = I.explore(lambda: run(False))
        use_pairs = False
    except _NeedPairs:
        use_pairs = True
        tree = I.explore(lambda: run(True))
    # element kind from the first leaf
    from symexec import Leaf, Let, Branch

    def first_leaf(node):
        while not isinstance(node, Leaf):
            node = node.child if isinstance(node, Let) else node.then
        return node
    lf = first_leaf(tree)
    if lf.err is not None:
        raise Unsupported('comprehension element raises %s' % lf.err)
    kind = elem_kind(lf.value, index)
    body = emit.emit_tree(tree, kind, index, 3)
    el_ty = mtypes.lean_type(L.elem)
    if use_pairs:
        src = ('lpairs', L.le)
        binder = '(%s : (%s × %s))' % (pp_name, el_ty, el_ty)
    else:
        src = L.le
        binder = '(%s : %s)' % (pp_name, el_ty)
    pycls = _class_of(lf.value)
    return SList(('lmap', binder, '\n' + body, src), kind, pycls)


def sym_sum(frame, L, start):
    I = frame.I
    if mtypes.parse_type(L.elem) != 'S':
        raise Unsupported('sum over non-scalar symbolic list')
    uid = I.fresh('sum')
    text = '(List.foldl (fun (s : α) (x : α) => s + x) %s %s)' % (
        emit.sexpr(to_sc(start)), list_term(L.le))
    I.trace.append(('let', 'sum_' + uid, 'raw', text))
    return Sc(('var', 'sum_' + uid))
