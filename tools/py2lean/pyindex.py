"""Index of the ladybug_geometry sources: modules, classes (with MRO), functions,
module-level constants and imports.  Everything is read from the *current working tree*
of the repository on every run; nothing is cached between runs."""
import ast
import os


class FuncInfo(object):
    __slots__ = ('name', 'node', 'module', 'cls', 'kind', 'qualname')

    def __init__(self, name, node, module, cls, kind):
        self.name = name
        self.node = node
        self.module = module      # ModuleInfo
        self.cls = cls            # ClassInfo or None
        self.kind = kind          # 'function' | 'method' | 'static' | 'class' | 'property'
        self.qualname = (cls.name + '.' if cls else '') + name

    def __repr__(self):
        return '<func %s.%s>' % (self.module.name, self.qualname)


class ClassInfo(object):
    def __init__(self, name, node, module):
        self.name = name
        self.node = node
        self.module = module
        self.base_exprs = node.bases
        self.members = {}     # name -> FuncInfo | ('const', ast expr)
        self.slots = []
        self._mro = None

    def mangle(self, attr):
        if attr.startswith('__') and not attr.endswith('__'):
            return '_' + self.name.lstrip('_') + attr
        return attr

    def __repr__(self):
        return '<class %s>' % self.name


class ModuleInfo(object):
    def __init__(self, name, path, tree, is_pkg):
        self.name = name
        self.path = path
        self.tree = tree
        self.is_pkg = is_pkg
        self.classes = {}
        self.functions = {}
        self.constants = {}   # name -> ast expr
        self.imports = {}     # local name -> ('module', dotted) | ('from', dotted, name)


def _decorator_kind(node):
    kind = 'method'
    for d in node.decorator_list:
        if isinstance(d, ast.Name):
            if d.id == 'staticmethod':
                kind = 'static'
            elif d.id == 'classmethod':
                kind = 'class'
            elif d.id == 'property':
                kind = 'property'
        elif isinstance(d, ast.Attribute) and d.attr in ('setter', 'deleter'):
            kind = 'setter'
    return kind


class Index(object):
    def __init__(self, repo_root, package='ladybug_geometry'):
        self.repo_root = repo_root
        self.package = package
        self.modules = {}
        pkg_dir = os.path.join(repo_root, package)
        for dirpath, dirnames, filenames in os.walk(pkg_dir):
            dirnames.sort()
            for fn in sorted(filenames):
                if not fn.endswith('.py'):
                    continue
                path = os.path.join(dirpath, fn)
                rel = os.path.relpath(path, repo_root)[:-3].replace(os.sep, '.')
                is_pkg = False
                if rel.endswith('.__init__'):
                    rel = rel[:-len('.__init__')]
                    is_pkg = True
                with open(path, 'rb') as f:
                    src = f.read()
                tree = ast.parse(src, filename=path)
                self._index_module(rel, path, tree, is_pkg)

    def _index_module(self, name, path, tree, is_pkg):
        mod = ModuleInfo(name, path, tree, is_pkg)
        self.modules[name] = mod
        for node in tree.body:
            self._index_stmt(mod, node)

    def _index_stmt(self, mod, node):
        if isinstance(node, ast.FunctionDef):
            mod.functions[node.name] = FuncInfo(node.name, node, mod, None, 'function')
        elif isinstance(node, ast.ClassDef):
            ci = ClassInfo(node.name, node, mod)
            mod.classes[node.name] = ci
            for st in node.body:
                if isinstance(st, ast.FunctionDef):
                    kind = _decorator_kind(st)
                    if kind == 'setter':
                        continue
                    mname = ci.mangle(st.name)
                    ci.members[mname] = FuncInfo(st.name, st, mod, ci, kind)
                elif isinstance(st, ast.Assign):
                    for t in st.targets:
                        if isinstance(t, ast.Name):
                            if t.id == '__slots__':
                                try:
                                    val = ast.literal_eval(st.value)
                                    if isinstance(val, str):
                                        val = (val,)
                                    ci.slots = list(val)
                                except Exception:
                                    ci.slots = []
                            else:
                                ci.members[ci.mangle(t.id)] = ('const', st.value)
        elif isinstance(node, ast.Assign):
            for t in node.targets:
                if isinstance(t, ast.Name):
                    mod.constants[t.id] = node.value
        elif isinstance(node, ast.Import):
            for a in node.names:
                mod.imports[a.asname or a.name.split('.')[0]] = ('module', a.name)
        elif isinstance(node, ast.ImportFrom):
            base = self._resolve_relative(mod, node.level, node.module)
            for a in node.names:
                mod.imports[a.asname or a.name] = ('from', base, a.name)
        elif isinstance(node, ast.Try):
            # `try: from itertools import izip as zip  except ImportError: xrange = range`:
            # under Python 3 the import fails and the handler runs
            py2_only = any(isinstance(st, ast.ImportFrom) and st.module == 'itertools' and
                           any(a.name in ('izip', 'imap', 'ifilter', 'izip_longest')
                               for a in st.names) for st in node.body)
            if py2_only:
                for h in node.handlers:
                    for st in h.body:
                        self._index_stmt(mod, st)
            else:
                for st in node.body:
                    self._index_stmt(mod, st)
        elif isinstance(node, ast.If):
            for st in node.body:
                self._index_stmt(mod, st)

    def _resolve_relative(self, mod, level, module):
        if level == 0:
            return module or ''
        parts = mod.name.split('.')
        if not mod.is_pkg:
            parts = parts[:-1]
        if level > 1:
            parts = parts[:len(parts) - (level - 1)]
        if module:
            parts = parts + module.split('.')
        return '.'.join(parts)

    # ---------------------------------------------------------------- lookup
    def module(self, short):
        """Module by dotted name, with or without the package prefix."""
        if short in self.modules:
            return self.modules[short]
        full = self.package + '.' + short
        return self.modules[full]

    def resolve_name(self, mod, name, _depth=0):
        """Resolve a global name in a module: returns ClassInfo, FuncInfo,
        ('const', mod, expr), ('pymodule', dotted) or None."""
        if name in mod.classes:
            return mod.classes[name]
        if name in mod.functions:
            return mod.functions[name]
        if name in mod.constants:
            return ('const', mod, mod.constants[name])
        if name in mod.imports and _depth < 10:
            imp = mod.imports[name]
            if imp[0] == 'module':
                if imp[1] in self.modules:
                    return ('lbgmodule', self.modules[imp[1]])
                return ('pymodule', imp[1])
            _, base, nm = imp
            if base in self.modules:
                r = self.resolve_name(self.modules[base], nm, _depth + 1)
                if r is not None:
                    return r
                sub = base + '.' + nm
                if sub in self.modules:
                    return ('lbgmodule', self.modules[sub])
                return None
            return ('pyname', base, nm)
        return None

    def find_class(self, name):
        if ':' in name:
            modname, cname = name.split(':')
            return self.module(modname).classes[cname]
        hits = [m.classes[name] for m in self.modules.values() if name in m.classes]
        if len(hits) != 1:
            raise KeyError('class %s: %d definitions' % (name, len(hits)))
        return hits[0]

    def mro(self, ci):
        if ci._mro is not None:
            return ci._mro
        out = [ci]
        for b in ci.base_exprs:
            if isinstance(b, ast.Name):
                r = self.resolve_name(ci.module, b.id)
                if isinstance(r, ClassInfo):
                    for c in self.mro(r):
                        if c not in out:
                            out.append(c)
        ci._mro = out
        return out

    def all_slots(self, ci):
        out = []
        for c in reversed(self.mro(ci)):
            for s in c.slots:
                s = c.mangle(s)
                if s not in out:
                    out.append(s)
        return out

    def find_member(self, ci, name):
        for c in self.mro(ci):
            if name in c.members:
                return c, c.members[name]
        return None, None

    def is_subclass(self, ci, other_name):
        return any(c.name == other_name for c in self.mro(ci))
