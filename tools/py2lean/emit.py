"""Lean emitter for the decision trees produced by symexec."""
from fractions import Fraction

from symexec import (Sc, Bo, Si, Obj, SList, SOpt, Leaf, Let, Branch, Unsupported, to_sc,
                     to_bo, to_si, is_num)
from mtypes import STRUCTS, RESULT_CLASSES, parse_type, lean_type


def num(fr):
    fr = Fraction(fr)
    if fr.denominator == 1:
        if fr.numerator < 0:
            return '(-%d : α)' % (-fr.numerator)
        return '(%d : α)' % fr.numerator
    if fr.numerator < 0:
        return '(-(%d : α) / %d)' % (-fr.numerator, fr.denominator)
    return '((%d : α) / %d)' % (fr.numerator, fr.denominator)


def sexpr(e):
    """Scalar expression -> Lean term (fully parenthesised)."""
    k = e[0]
    if k == 'var':
        return e[1]
    if k == 'lit':
        return num(e[1])
    if k == 'pi':
        return 'M.pi'
    if k in ('add', 'sub', 'mul', 'div'):
        op = {'add': '+', 'sub': '-', 'mul': '*', 'div': '/'}[k]
        return '(%s %s %s)' % (sexpr(e[1]), op, sexpr(e[2]))
    if k == 'neg':
        return '(-%s)' % sexpr(e[1])
    if k == 'abs':
        return '|%s|' % sexpr(e[1])
    if k in ('min', 'max'):
        return '(%s %s %s)' % (k, sexpr(e[1]), sexpr(e[2]))
    if k == 'math':
        return '(M.%s %s)' % (e[1], ' '.join(sexpr(a) for a in e[2]))
    if k == 'ite':
        return '(if %s then %s else %s)' % (pexpr(e[1]), sexpr(e[2]), sexpr(e[3]))
    if k == 'raw':
        return e[1]
    # ---- integer expressions (Lean `Int`)
    if k == 'ivar':
        return e[1]
    if k == 'ilit':
        return '(%d : Int)' % e[1] if e[1] >= 0 else '(-%d : Int)' % (-e[1])
    if k in ('iadd', 'isub', 'imul', 'imod', 'ifloordiv'):
        op = {'iadd': '+', 'isub': '-', 'imul': '*', 'imod': '%', 'ifloordiv': '/'}[k]
        return '(%s %s %s)' % (sexpr(e[1]), op, sexpr(e[2]))
    if k == 'ineg':
        return '(-%s)' % sexpr(e[1])
    if k == 'iabs':
        return '|%s|' % sexpr(e[1])
    if k == 'iite':
        return '(if %s then %s else %s)' % (pexpr(e[1]), sexpr(e[2]), sexpr(e[3]))
    if k == 'icast':
        return '((%s : Int) : α)' % sexpr(e[1])
    raise Unsupported('scalar expr %r' % (e,))


def pexpr(e):
    """Boolean expression -> Lean Prop."""
    k = e[0]
    if k == 'true':
        return 'True'
    if k == 'false':
        return 'False'
    if k == 'lt':
        return '(%s < %s)' % (sexpr(e[1]), sexpr(e[2]))
    if k == 'eq':
        return '(%s = %s)' % (sexpr(e[1]), sexpr(e[2]))
    if k == 'not':
        return '(¬ %s)' % pexpr(e[1])
    if k == 'and':
        return '(%s ∧ %s)' % (pexpr(e[1]), pexpr(e[2]))
    if k == 'or':
        return '(%s ∨ %s)' % (pexpr(e[1]), pexpr(e[2]))
    if k == 'bvar':
        return '(%s = true)' % e[1]
    if k == 'isnone':
        return '(%s = none)' % e[1]
    if k == 'rawprop':
        return e[1]
    raise Unsupported('bool expr %r' % (e,))


def bexpr(e):
    """Boolean expression -> Lean Bool."""
    if e[0] == 'bvar':
        return e[1]
    if e[0] == 'true':
        return 'true'
    if e[0] == 'false':
        return 'false'
    return '(decide %s)' % pexpr(e)


def value_term(v, t, index):
    """Symbolic value -> Lean term of model type t."""
    t = parse_type(t)
    if t == 'S':
        if isinstance(v, Bo):
            raise Unsupported('boolean where scalar expected')
        if isinstance(v, SOpt) and v.kind == 'S':
            return '(%s.getD 0)' % v.name
        return sexpr(to_sc(v))
    if t == 'B':
        if isinstance(v, SOpt) and v.kind == 'B':
            return '(%s.getD false)' % v.name
        if not isinstance(v, (bool, Bo)):
            raise Unsupported('expected boolean result, got %r' % (v,))
        return bexpr(to_bo(v))
    if t in ('N', 'I'):
        if isinstance(v, int) and not isinstance(v, bool):
            return '(%d)' % v
        if t == 'I' and isinstance(v, Si):
            return sexpr(v.e)
        raise Unsupported('expected integer result, got %r' % (v,))
    if isinstance(t, str):
        if isinstance(v, Obj):
            if not any(index.is_subclass(v.cls, c) for c in RESULT_CLASSES[t]):
                raise Unsupported('result of class %s where %s expected' % (v.cls.name, t))
            parts = []
            for (f, ft, slot, fcls) in STRUCTS[t]:
                is_opt = parse_type(ft)[0] == 'opt' if not isinstance(parse_type(ft), str) \
                    else False
                if slot not in v.slots or (v.slots[slot] is None and not is_opt):
                    raise Unsupported('slot %s of %s not set' % (slot, v.cls.name))
                parts.append(value_term(v.slots[slot], ft, index))
            extra = [sl for sl in v.slots if sl not in [x[2] for x in STRUCTS[t]]]
            if t in __import__('mtypes').SLOT_COMPLETE and extra:
                raise Unsupported('result has slots outside the model: %s' % extra)
            if t in __import__('mtypes').SLOT_COMPLETE and getattr(v, 'cache_unmodelled',
                                                                   False):
                raise Unsupported('result object whose memo state is not modelled (a memo '
                                  'read was moved out of a loop)')
            if len(parts) > 5:
                return '({\n      ' + ',\n      '.join(
                    '%s := %s' % (f[0], pt) for f, pt in zip(STRUCTS[t], parts)) + \
                    ' } : %s)' % lean_type(t)
            return '(⟨' + ', '.join(parts) + '⟩ : %s)' % lean_type(t)
        if isinstance(v, (tuple, list)) and len(v) == len(STRUCTS[t]) and \
                all(ft == 'S' for (_, ft, _, _) in STRUCTS[t]):
            return '(⟨' + ', '.join(value_term(x, 'S', index) for x in v) + \
                '⟩ : %s)' % lean_type(t)
        raise Unsupported('cannot convert %r to %s' % (v, t))
    if t[0] == 'opt':
        if v is None:
            return '(none : %s)' % lean_type(t)
        if isinstance(v, SOpt):
            if parse_type(v.kind) != t[1]:
                raise Unsupported('optional slot of kind %s stored where %s expected' % (
                    v.kind, t[1]))
            return v.name
        if t[1] == 'X':
            return '(some ())'
        return '(some %s)' % value_term(v, t[1], index)
    if t[0] == 'list':
        if isinstance(v, SList):
            from symloops import list_term
            return list_term(v.le)
        if not isinstance(v, (tuple, list)):
            raise Unsupported('expected list result, got %r' % (v,))
        return '([' + ', '.join(value_term(x, t[1], index) for x in v) + \
            '] : %s)' % lean_type(t)
    if t[0] == 'ptlist':
        if v is None:
            v = []
        elif not isinstance(v, (tuple, list)):
            v = [v]
        return value_term(v, ('list', t[1]), index)
    if t[0] == 'tup':
        if not isinstance(v, (tuple, list)) or len(v) != len(t) - 1:
            raise Unsupported('expected %d-tuple, got %r' % (len(t) - 1, v))
        return '(' + ', '.join(value_term(x, tt, index) for x, tt in zip(v, t[1:])) + ')'
    if t[0] == 'sum':
        try:
            return '(Sum.inl %s)' % value_term(v, t[1], index)
        except Unsupported:
            return '(Sum.inr %s)' % value_term(v, t[2], index)
    raise Unsupported('type %r' % (t,))


def emit_tree(node, ret, index, indent, err_as_none=False):
    pad = '  ' * indent
    if isinstance(node, Leaf):
        if node.err is not None:
            if err_as_none:
                return pad + '(none : %s)' % lean_type(ret)
            raise Unsupported('a path raises %s' % node.err)
        return pad + value_term(node.value, ret, index)
    if isinstance(node, Let):
        if node.kind == 'S':
            rhs = sexpr(node.expr)
            return pad + 'let %s : α := %s\n' % (node.name, rhs) + \
                emit_tree(node.child, ret, index, indent, err_as_none)
        if node.kind == 'B':
            return pad + 'let %s : Bool := %s\n' % (node.name, bexpr(node.expr)) + \
                emit_tree(node.child, ret, index, indent, err_as_none)
        if node.kind == 'raw':
            return pad + 'let %s := %s\n' % (node.name, node.expr) + \
                emit_tree(node.child, ret, index, indent, err_as_none)
        if node.kind == 'I':
            return pad + 'let %s : Int := %s\n' % (node.name, sexpr(node.expr)) + \
                emit_tree(node.child, ret, index, indent, err_as_none)
        raise Unsupported('let kind %s' % node.kind)
    if isinstance(node, Branch):
        return (pad + 'if %s then\n' % pexpr(node.cond) +
                emit_tree(node.then, ret, index, indent + 1, err_as_none) + '\n' +
                pad + 'else\n' +
                emit_tree(node.els, ret, index, indent + 1, err_as_none))
    raise Unsupported('node')


def tree_stats(node):
    if isinstance(node, Leaf):
        return (1, 0, 1 if node.err else 0)
    if isinstance(node, Let):
        a, b, c = tree_stats(node.child)
        return (a, b + 1, c)
    a1, b1, c1 = tree_stats(node.then)
    a2, b2, c2 = tree_stats(node.els)
    return (a1 + a2, b1 + b2, c1 + c2)
