"""Registry of the repository functions that py2lean extracts.

Each entry: name (Lean identifier in namespace Lbg.Gen), target (module.function or
module:Class.member), params [(lean name, model type, python class)], ret (model type),
group (Gen file), props (properties served)."""

KERNELS = []


def K(name, target, params, ret, group, props=(), **kw):
    d = dict(name=name, target=target, params=params, ret=ret, group=group,
             props=list(props))
    d.update(kw)
    KERNELS.append(d)


SEG2 = ('LR2', 'LineSegment2D')
RAY2 = ('LR2', 'Ray2D')
SEG3 = ('LR3', 'LineSegment3D')
RAY3 = ('LR3', 'Ray3D')
P2 = ('V2', 'Point2D')
W2 = ('V2', 'Vector2D')
P3 = ('V3', 'Point3D')
W3 = ('V3', 'Vector3D')
PL = ('PlaneS', 'Plane')
A2 = ('Arc2S', 'Arc2D')
A3 = ('Arc3S', 'Arc3D')


def p(name, t):
    return (name, t[0], t[1])


def S(name):
    return (name, 'S', None)


# ------------------------------------------------------------------ 2D intersections
_kinds2 = [('s', SEG2), ('r', RAY2)]
for (ka, ta) in _kinds2:
    for (kb, tb) in _kinds2:
        sfx = ka + kb
        K('intersect_line2d_' + sfx, 'intersection2d.intersect_line2d',
          [p('a', ta), p('b', tb)], 'Opt V2', 'Isect2', ['C11', 'C08'])
        K('does_intersection_exist_line2d_' + sfx,
          'intersection2d.does_intersection_exist_line2d',
          [p('a', ta), p('b', tb)], 'B', 'Isect2', ['C11', 'C08'])
        K('intersect_line2d_infinite_' + sfx, 'intersection2d.intersect_line2d_infinite',
          [p('a', ta), p('b', tb)], 'Opt V2', 'Isect2', ['C11'])
K('intersect_line_segment2d', 'intersection2d.intersect_line_segment2d',
  [p('a', SEG2), p('b', SEG2)], 'Opt V2', 'Isect2', ['C11'])
for (ka, ta) in _kinds2:
    K('closest_point2d_on_line2d_' + ka, 'intersection2d.closest_point2d_on_line2d',
      [p('q', P2), p('l', ta)], 'V2', 'Isect2', ['C12'])
    K('closest_point2d_on_line2d_infinite_' + ka,
      'intersection2d.closest_point2d_on_line2d_infinite',
      [p('q', P2), p('l', ta)], 'V2', 'Isect2', ['C12'])


def all_kernels():
    import copy
    return copy.deepcopy(KERNELS)
