"""Registry of the repository functions that py2lean extracts.

Each entry: name (Lean identifier in namespace Lbg.Gen), target (module.function or
module:Class.member), params [(lean name, model type, python class)], ret (model type),
group (Gen file), props (properties served)."""

KERNELS = []
_GENERATION = [0]


def K(name, target, params, ret, group, props=(), **kw):
    d = dict(name=name, target=target, params=params, ret=ret, group=group,
             props=list(props))
    if _GENERATION[0]:
        d['generation'] = _GENERATION[0]
    d.update(kw)
    KERNELS.append(d)


SEG2 = ('LR2', 'LineSegment2D')
RAY2 = ('LR2', 'Ray2D')
SEG3 = ('LR3', 'LineSegment3D')
RAY3 = ('LR3', 'Ray3D')
P2 = ('V2', 'Point2D')
W2 = ('V2', 'Vector2D')
P3 = ('V3', 'Point3D')
W3 = ('V3', 'Vector3D')
PL = ('PlaneS', 'Plane')
A2 = ('Arc2S', 'Arc2D')
A3 = ('Arc3S', 'Arc3D')


def p(name, t, hint=None):
    return (name, t[0], t[1], hint)


def S(name, hint=None):
    return (name, 'S', None, hint)


# ------------------------------------------------------------------ 2D intersections
_kinds2 = [('s', SEG2), ('r', RAY2)]
for (ka, ta) in _kinds2:
    for (kb, tb) in _kinds2:
        sfx = ka + kb
        K('intersect_line2d_' + sfx, 'intersection2d.intersect_line2d',
          [p('a', ta), p('b', tb)], 'Opt V2', 'Isect2', ['C11', 'C08'])
        K('does_intersection_exist_line2d_' + sfx,
          'intersection2d.does_intersection_exist_line2d',
          [p('a', ta), p('b', tb)], 'B', 'Isect2', ['C11', 'C08'])
        K('intersect_line2d_infinite_' + sfx, 'intersection2d.intersect_line2d_infinite',
          [p('a', ta), p('b', tb)], 'Opt V2', 'Isect2', ['C11'])
K('intersect_line_segment2d', 'intersection2d.intersect_line_segment2d',
  [p('a', SEG2), p('b', SEG2)], 'Opt V2', 'Isect2', ['C11'])
for (ka, ta) in _kinds2:
    K('closest_point2d_on_line2d_' + ka, 'intersection2d.closest_point2d_on_line2d',
      [p('q', P2), p('l', ta)], 'V2', 'Isect2', ['C12'])
    K('closest_point2d_on_line2d_infinite_' + ka,
      'intersection2d.closest_point2d_on_line2d_infinite',
      [p('q', P2), p('l', ta)], 'V2', 'Isect2', ['C12'])



# ------------------------------------------------------------------ vectors & points
PV2 = 'geometry2d.pointvector'
PV3 = 'geometry3d.pointvector'
K('v2_dot', PV2 + ':Vector2D.dot', [p('a', W2), p('b', W2)], 'S', 'Vec', ['C02', 'C16'])
K('v2_determinant', PV2 + ':Vector2D.determinant', [p('a', W2), p('b', W2)], 'S', 'Vec',
  ['C02', 'C01'])
K('v2_cross', PV2 + ':Vector2D.cross', [p('a', W2)], 'V2', 'Vec', ['C02'])
K('v2_magnitude_squared', PV2 + ':Vector2D.magnitude_squared', [p('a', W2)], 'S', 'Vec',
  ['C02'])
K('v2_magnitude', PV2 + ':Vector2D.magnitude', [p('a', W2)], 'S', 'Vec', ['C02'])
K('v2_normalize', PV2 + ':Vector2D.normalize', [p('a', W2)], 'V2', 'Vec', ['C02', 'C06'])
K('v2_reverse', PV2 + ':Vector2D.reverse', [p('a', W2)], 'V2', 'Vec', ['C02'])
K('v2_rotate', PV2 + ':Vector2D.rotate', [p('a', W2), S('angle', 'angle')], 'V2', 'Vec', ['C02'])
K('v2_reflect', PV2 + ':Vector2D.reflect', [p('a', W2), p('n', W2, 'unit')], 'V2', 'Vec', ['C02'])
K('v2_is_zero', PV2 + ':Vector2D.is_zero', [p('a', W2), S('tol', 'tol')], 'B', 'Vec', ['C02'])
K('v2_is_equivalent', PV2 + ':Vector2D.is_equivalent', [p('a', W2), p('b', W2), S('tol', 'tol')],
  'B', 'Vec', ['C13'])
K('v2_angle_counterclockwise', PV2 + ':Vector2D.angle_counterclockwise',
  [p('a', W2), p('b', W2)], 'S', 'Vec', ['C17'], tol_factor=1000)
K('p2_move', PV2 + ':Point2D.move', [p('a', P2), p('mv', W2)], 'V2', 'Vec', ['C02'])
K('p2_rotate', PV2 + ':Point2D.rotate', [p('a', P2), S('angle', 'angle'), p('o', P2)], 'V2', 'Vec',
  ['C02'])
K('p2_reflect', PV2 + ':Point2D.reflect', [p('a', P2), p('n', W2, 'unit'), p('o', P2)], 'V2',
  'Vec', ['C02'])
K('p2_scale', PV2 + ':Point2D.scale', [p('a', P2), S('factor', 'factor'), p('o', P2)], 'V2', 'Vec',
  ['C02'])
K('p2_scale_world', PV2 + ':Point2D.scale', [p('a', P2), S('factor', 'factor')], 'V2', 'Vec',
  ['C02'])
K('p2_distance_to_point', PV2 + ':Point2D.distance_to_point', [p('a', P2), p('b', P2)],
  'S', 'Vec', ['C12'])

K('v3_dot', PV3 + ':Vector3D.dot', [p('a', W3), p('b', W3)], 'S', 'Vec', ['C02', 'C16'])
K('v3_cross', PV3 + ':Vector3D.cross', [p('a', W3), p('b', W3)], 'V3', 'Vec',
  ['C02', 'C06'])
K('v3_magnitude_squared', PV3 + ':Vector3D.magnitude_squared', [p('a', W3)], 'S', 'Vec',
  ['C02'])
K('v3_magnitude', PV3 + ':Vector3D.magnitude', [p('a', W3)], 'S', 'Vec', ['C02'])
K('v3_normalize', PV3 + ':Vector3D.normalize', [p('a', W3)], 'V3', 'Vec', ['C02', 'C06'])
K('v3_reverse', PV3 + ':Vector3D.reverse', [p('a', W3)], 'V3', 'Vec', ['C02'])
K('v3_rotate', PV3 + ':Vector3D.rotate', [p('a', W3), p('axis', W3, 'nonzero'), S('angle', 'angle')], 'V3',
  'Vec', ['C02'])
K('v3_rotate_xy', PV3 + ':Vector3D.rotate_xy', [p('a', W3), S('angle', 'angle')], 'V3', 'Vec',
  ['C02'])
K('v3_reflect', PV3 + ':Vector3D.reflect', [p('a', W3), p('n', W3, 'unit')], 'V3', 'Vec', ['C02'])
K('v3_project', PV3 + ':Vector3D.project', [p('a', W3), p('n', W3)], 'V3', 'Vec', ['C02'])
K('v3_is_equivalent', PV3 + ':Vector3D.is_equivalent', [p('a', W3), p('b', W3), S('tol', 'tol')],
  'B', 'Vec', ['C13'])
K('p3_move', PV3 + ':Point3D.move', [p('a', P3), p('mv', W3)], 'V3', 'Vec', ['C02'])
K('p3_rotate', PV3 + ':Point3D.rotate', [p('a', P3), p('axis', W3, 'nonzero'), S('angle', 'angle'), p('o', P3)],
  'V3', 'Vec', ['C02'])
K('p3_rotate_xy', PV3 + ':Point3D.rotate_xy', [p('a', P3), S('angle', 'angle'), p('o', P3)], 'V3',
  'Vec', ['C02'])
K('p3_reflect', PV3 + ':Point3D.reflect', [p('a', P3), p('n', W3, 'unit'), p('o', P3)], 'V3',
  'Vec', ['C02'])
K('p3_scale', PV3 + ':Point3D.scale', [p('a', P3), S('factor', 'factor'), p('o', P3)], 'V3', 'Vec',
  ['C02'])
K('p3_scale_world', PV3 + ':Point3D.scale', [p('a', P3), S('factor', 'factor')], 'V3', 'Vec',
  ['C02'])
K('p3_project', PV3 + ':Point3D.project', [p('a', P3), p('n', W3), p('o', P3)], 'V3',
  'Vec', ['C02', 'C12'])
K('p3_distance_to_point', PV3 + ':Point3D.distance_to_point', [p('a', P3), p('b', P3)],
  'S', 'Vec', ['C12'])

# ------------------------------------------------------------------ plane
PLN = 'geometry3d.plane'
K('plane_init', PLN + ':Plane.__init__', [p('n', W3), p('o', P3)], 'PlaneS', 'Plane',
  ['C06'], ctor=True)
K('plane_init_x', PLN + ':Plane.__init__', [p('n', W3), p('o', P3), p('x', W3)], 'PlaneS',
  'Plane', ['C06'], ctor=True)
K('plane_xyz_to_xy', PLN + ':Plane.xyz_to_xy', [p('pl', PL), p('q', P3)], 'V2', 'Plane',
  ['C06', 'C09', 'C16'])
K('plane_xy_to_xyz', PLN + ':Plane.xy_to_xyz', [p('pl', PL), p('q', P2)], 'V3', 'Plane',
  ['C06', 'C09', 'C16'])
K('plane_flip', PLN + ':Plane.flip', [p('pl', PL)], 'PlaneS', 'Plane', ['C06', 'C02'])
K('plane_move', PLN + ':Plane.move', [p('pl', PL), p('mv', W3)], 'PlaneS', 'Plane', ['C02'])
K('plane_rotate', PLN + ':Plane.rotate', [p('pl', PL), p('axis', W3, 'nonzero'), S('angle', 'angle'), p('o', P3)],
  'PlaneS', 'Plane', ['C02'])
K('plane_rotate_xy', PLN + ':Plane.rotate_xy', [p('pl', PL), S('angle', 'angle'), p('o', P3)],
  'PlaneS', 'Plane', ['C02'])
K('plane_reflect', PLN + ':Plane.reflect', [p('pl', PL), p('n', W3, 'unit'), p('o', P3)],
  'PlaneS', 'Plane', ['C02'])
K('plane_scale', PLN + ':Plane.scale', [p('pl', PL), S('factor', 'factor'), p('o', P3)], 'PlaneS',
  'Plane', ['C02'])
K('plane_is_point_above', PLN + ':Plane.is_point_above', [p('pl', PL), p('q', P3)], 'B',
  'Plane', ['C07'])
K('plane_closest_point', PLN + ':Plane.closest_point', [p('pl', PL), p('q', P3)], 'V3',
  'Plane', ['C12'])
K('plane_distance_to_point', PLN + ':Plane.distance_to_point', [p('pl', PL), p('q', P3)],
  'S', 'Plane', ['C12'])
K('plane_project_point', PLN + ':Plane.project_point', [p('pl', PL), p('q', P3)], 'Opt V3',
  'Plane', ['C12'])
K('plane_is_coplanar', PLN + ':Plane.is_coplanar', [p('pl', PL), p('pl2', PL)], 'B',
  'Plane', ['C09'])

# ------------------------------------------------------------------ 3D intersections
I3 = 'intersection3d'
for (ka, ta) in [('s', SEG3), ('r', RAY3)]:
    K('intersect_line3d_plane_' + ka, I3 + '.intersect_line3d_plane',
      [p('l', ta), p('pl', PL)], 'Opt V3', 'Isect3', ['C11'],
      well_conditioned='line_not_parallel_to_plane')
    K('intersect_line3d_plane_infinite_' + ka, I3 + '.intersect_line3d_plane_infinite',
      [p('l', ta), p('pl', PL)], 'Opt V3', 'Isect3', ['C11'],
      well_conditioned='line_not_parallel_to_plane')
    K('closest_point3d_on_line3d_' + ka, I3 + '.closest_point3d_on_line3d',
      [p('q', P3), p('l', ta)], 'V3', 'Isect3', ['C12'])
    K('closest_point3d_on_line3d_infinite_' + ka, I3 + '.closest_point3d_on_line3d_infinite',
      [p('q', P3), p('l', ta)], 'V3', 'Isect3', ['C12'])
    K('closest_point3d_between_line3d_plane_' + ka,
      I3 + '.closest_point3d_between_line3d_plane', [p('l', ta), p('pl', PL)],
      'Opt (Tup V3 V3)', 'Isect3', ['C12'])
    K('intersect_line3d_sphere_' + ka, I3 + '.intersect_line3d_sphere',
      [p('l', ta), ('sp', 'SphereS', 'Sphere')], 'PtList V3', 'Isect3', ['C11'])
K('intersect_plane_plane', I3 + '.intersect_plane_plane', [p('pa', PL), p('pb', PL)],
  'Opt (Tup V3 V3)', 'Isect3', ['C11'], well_conditioned='planes_not_parallel')
K('closest_point3d_on_plane', I3 + '.closest_point3d_on_plane', [p('q', P3), p('pl', PL)],
  'V3', 'Isect3', ['C12'])
K('intersect_plane_sphere', I3 + '.intersect_plane_sphere',
  [p('pl', PL), ('sp', 'SphereS', 'Sphere')], 'Opt (Sum (Tup V3 V3 S) V3)', 'Isect3', ['C11'])



# ------------------------------------------------------------------ segments and rays
SPH = ('SphereS', 'Sphere')
CON = ('ConeS', 'Cone')
CYL = ('CylS', 'Cylinder')
for (dim, mod1d, modl, modr, TS, TR, TP, TW, lr) in [
        ('2', 'geometry2d._1d', 'geometry2d.line', 'geometry2d.ray', SEG2, RAY2, P2, W2, 'LR2'),
        ('3', 'geometry3d._1d', 'geometry3d.line', 'geometry3d.ray', SEG3, RAY3, P3, W3, 'LR3')]:
    vt = 'V' + dim
    scls = 'LineSegment%sD' % dim
    rcls = 'Ray%sD' % dim
    K('seg%s_min' % dim, modl + ':%s.min' % scls, [p('l', TS)], vt, 'Line', ['C10'])
    K('seg%s_max' % dim, modl + ':%s.max' % scls, [p('l', TS)], vt, 'Line', ['C10'])
    K('seg%s_center' % dim, modl + ':%s.center' % scls, [p('l', TS)], vt, 'Line', ['C10'])
    K('ray%s_min' % dim, modr + ':%s.min' % rcls, [p('l', TR)], vt, 'Line', ['C10'])
    K('ray%s_max' % dim, modr + ':%s.max' % rcls, [p('l', TR)], vt, 'Line', ['C10'])
    K('seg%s_p2' % dim, modl + ':%s.p2' % scls, [p('l', TS)], vt, 'Line', ['C17', 'C02'])
    K('seg%s_midpoint' % dim, modl + ':%s.midpoint' % scls, [p('l', TS)], vt, 'Line',
      ['C17'])
    K('seg%s_length' % dim, modl + ':%s.length' % scls, [p('l', TS)], 'S', 'Line',
      ['C01', 'C17', 'C16'])
    K('seg%s_point_at' % dim, modl + ':%s.point_at' % scls, [p('l', TS), S('t')], vt,
      'Line', ['C17', 'C16'])
    K('seg%s_point_at_length' % dim, modl + ':%s.point_at_length' % scls,
      [p('l', TS), S('d')], vt, 'Line', ['C17'])
    K('seg%s_flip' % dim, modl + ':%s.flip' % scls, [p('l', TS)], lr, 'Line', ['C02'])
    K('seg%s_move' % dim, modl + ':%s.move' % scls, [p('l', TS), p('mv', TW)], lr, 'Line',
      ['C02'])
    K('seg%s_scale' % dim, modl + ':%s.scale' % scls,
      [p('l', TS), S('factor', 'factor'), p('o', TP)], lr, 'Line', ['C02'])
    K('seg%s_scale_world' % dim, modl + ':%s.scale' % scls,
      [p('l', TS), S('factor', 'factor')], lr, 'Line', ['C02'])
    K('seg%s_reflect' % dim, modl + ':%s.reflect' % scls,
      [p('l', TS), p('n', TW, 'unit'), p('o', TP)], lr, 'Line', ['C02'])
    K('ray%s_reverse' % dim, modr + ':%s.reverse' % rcls, [p('l', TR)], lr, 'Line', ['C02'])
    K('ray%s_move' % dim, modr + ':%s.move' % rcls, [p('l', TR), p('mv', TW)], lr, 'Line',
      ['C02'])
    K('ray%s_scale' % dim, modr + ':%s.scale' % rcls,
      [p('l', TR), S('factor', 'factor'), p('o', TP)], lr, 'Line', ['C02'])
    K('ray%s_reflect' % dim, modr + ':%s.reflect' % rcls,
      [p('l', TR), p('n', TW, 'unit'), p('o', TP)], lr, 'Line', ['C02'])
    K('seg%s_distance_to_point' % dim, modl + ':%s.distance_to_point' % scls,
      [p('l', TS), p('q', TP)], 'S', 'Line', ['C12'])
K('seg2_rotate', 'geometry2d.line:LineSegment2D.rotate',
  [p('l', SEG2), S('angle', 'angle'), p('o', P2)], 'LR2', 'Line', ['C02'])
K('ray2_rotate', 'geometry2d.ray:Ray2D.rotate',
  [p('l', RAY2), S('angle', 'angle'), p('o', P2)], 'LR2', 'Line', ['C02'])
K('seg3_rotate', 'geometry3d.line:LineSegment3D.rotate',
  [p('l', SEG3), p('axis', W3, 'nonzero'), S('angle', 'angle'), p('o', P3)], 'LR3', 'Line',
  ['C02'])
K('seg3_rotate_xy', 'geometry3d.line:LineSegment3D.rotate_xy',
  [p('l', SEG3), S('angle', 'angle'), p('o', P3)], 'LR3', 'Line', ['C02'])
K('ray3_rotate', 'geometry3d.ray:Ray3D.rotate',
  [p('l', RAY3), p('axis', W3, 'nonzero'), S('angle', 'angle'), p('o', P3)], 'LR3', 'Line',
  ['C02'])
K('seg2_from_end_points', 'geometry2d.line:LineSegment2D.from_end_points',
  [p('a', P2), p('b', P2)], 'LR2', 'Line', ['C17'])
K('seg3_from_end_points', 'geometry3d.line:LineSegment3D.from_end_points',
  [p('a', P3), p('b', P3)], 'LR3', 'Line', ['C17'])
K('seg3_split_with_plane', 'geometry3d.line:LineSegment3D.split_with_plane',
  [p('l', SEG3), p('pl', PL)], 'List LR3', 'Line', ['C17'])
K('seg2_offset', 'geometry2d.line:LineSegment2D.offset', [p('l', SEG2), S('d')], 'LR2',
  'Line', ['C19'])

# ------------------------------------------------------------------ arcs
ARC2 = 'geometry2d.arc:Arc2D.'
ARC3 = 'geometry3d.arc:Arc3D.'
K('arc2_init', ARC2 + '__init__', [p('c', P2), S('r', 'pos'), S('a1', 'arcangle'),
                                    S('a2', 'arcangle')], 'Arc2S', 'Arc', ['C13'], ctor=True)
K('arc2_p1', ARC2 + 'p1', [p('a', A2)], 'V2', 'Arc', ['C17', 'C10'])
K('arc2_p2', ARC2 + 'p2', [p('a', A2)], 'V2', 'Arc', ['C17', 'C10'])
K('arc2_midpoint', ARC2 + 'midpoint', [p('a', A2)], 'V2', 'Arc', ['C17'])
K('arc2_angle', ARC2 + 'angle', [p('a', A2)], 'S', 'Arc', ['C17', 'C01'])
K('arc2_length', ARC2 + 'length', [p('a', A2)], 'S', 'Arc', ['C17', 'C01'])
K('arc2_is_circle', ARC2 + 'is_circle', [p('a', A2)], 'B', 'Arc', ['C17'])
K('arc2_is_inverted', ARC2 + 'is_inverted', [p('a', A2)], 'B', 'Arc', ['C17'])
K('arc2_min', ARC2 + 'min', [p('a', A2)], 'V2', 'Arc', ['C10'])
K('arc2_max', ARC2 + 'max', [p('a', A2)], 'V2', 'Arc', ['C10'])
K('arc2_angle_quadrant', ARC2 + '_angle_quadrant', [S('angle', 'arcangle')], 'N', 'Arc',
  ['C10'])
K('arc2_move', ARC2 + 'move', [p('a', A2), p('mv', W2)], 'Arc2S', 'Arc', ['C02'])
K('arc2_rotate', ARC2 + 'rotate', [p('a', A2), S('angle', 'angle_generic'), p('o', P2)],
  'Arc2S', 'Arc', ['C02'])
K('arc2_reflect', ARC2 + 'reflect', [p('a', A2), p('n', W2, 'unit'), p('o', P2)], 'Arc2S',
  'Arc', ['C02'], tol_factor=100000)
K('arc2_scale', ARC2 + 'scale', [p('a', A2), S('factor', 'posfactor'), p('o', P2)], 'Arc2S',
  'Arc', ['C02'])
K('arc2_point_at', ARC2 + 'point_at', [p('a', A2), S('t', 'unitinterval')], 'V2', 'Arc',
  ['C17'])
K('arc2_point_at_angle', ARC2 + 'point_at_angle', [p('a', A2), S('ang', 'arcangle')], 'V2',
  'Arc', ['C17'])
K('arc2_pt_in', ARC2 + '_pt_in', [p('a', A2), p('q', P2)], 'B', 'Arc', ['C11', 'C12'])
K('arc2_a_from_pt', ARC2 + '_a_from_pt', [p('a', A2), p('q', P2)], 'S', 'Arc', ['C17'],
  tol_factor=1000)
K('arc2_cc_difference', ARC2 + '_cc_difference', [p('a', A2), S('ang', 'arcangle')], 'S',
  'Arc', ['C17'])
K('arc2_closest_point', ARC2 + 'closest_point', [p('a', A2), p('q', P2)], 'V2', 'Arc',
  ['C12'], tol_factor=1000)
for (kk, tt) in _kinds2:
    K('intersect_line2d_arc2d_' + kk, 'intersection2d.intersect_line2d_arc2d',
      [p('l', tt), p('a', A2)], 'PtList V2', 'Arc', ['C11'], tol_factor=1000)
    K('intersect_line2d_infinite_arc2d_' + kk,
      'intersection2d.intersect_line2d_infinite_arc2d',
      [p('l', tt), p('a', A2)], 'PtList V2', 'Arc', ['C11'], tol_factor=1000)
K('arc2_area', ARC2 + 'area', [p('a', A2)], 'Opt S', 'Arc', ['C01'], assert_mode='fork',
  err_as_none=True)

K('arc3_p1', ARC3 + 'p1', [p('a', A3)], 'V3', 'Arc', ['C17', 'C16'])
K('arc3_p2', ARC3 + 'p2', [p('a', A3)], 'V3', 'Arc', ['C17', 'C16'])
K('arc3_c', ARC3 + 'c', [p('a', A3)], 'V3', 'Arc', ['C17'])
K('arc3_midpoint', ARC3 + 'midpoint', [p('a', A3)], 'V3', 'Arc', ['C17', 'C16'])
K('arc3_length', ARC3 + 'length', [p('a', A3)], 'S', 'Arc', ['C17', 'C16', 'C01'])
K('arc3_point_at', ARC3 + 'point_at', [p('a', A3), S('t', 'unitinterval')], 'V3', 'Arc',
  ['C17', 'C16'])
K('arc3_min', ARC3 + 'min', [p('a', A3)], 'V3', 'Arc', ['C10'])
K('arc3_max', ARC3 + 'max', [p('a', A3)], 'V3', 'Arc', ['C10'])
K('arc3_move', ARC3 + 'move', [p('a', A3), p('mv', W3)], 'Arc3S', 'Arc', ['C02'])
K('arc3_rotate', ARC3 + 'rotate',
  [p('a', A3), p('axis', W3, 'nonzero'), S('angle', 'angle'), p('o', P3)], 'Arc3S', 'Arc',
  ['C02'])
K('arc3_rotate_xy', ARC3 + 'rotate_xy', [p('a', A3), S('angle', 'angle'), p('o', P3)],
  'Arc3S', 'Arc', ['C02'])
K('arc3_reflect', ARC3 + 'reflect', [p('a', A3), p('n', W3, 'unit'), p('o', P3)], 'Arc3S',
  'Arc', ['C02'], tol_factor=100000)
K('arc3_scale', ARC3 + 'scale', [p('a', A3), S('factor', 'posfactor'), p('o', P3)], 'Arc3S',
  'Arc', ['C02'])
K('arc3_closest_point', ARC3 + 'closest_point', [p('a', A3), p('q', P3)], 'V3', 'Arc',
  ['C12', 'C16'], tol_factor=1000)

# ------------------------------------------------------------------ solids
SP = 'geometry3d.sphere:Sphere.'
CO = 'geometry3d.cone:Cone.'
CY = 'geometry3d.cylinder:Cylinder.'
for nm in ('min', 'max'):
    K('sphere_' + nm, SP + nm, [p('s', SPH)], 'V3', 'Solid', ['C10'])
    K('cone_' + nm, CO + nm, [p('s', CON)], 'V3', 'Solid', ['C10'])
    K('cyl_' + nm, CY + nm, [p('s', CYL)], 'V3', 'Solid', ['C10'])
for nm in ('area', 'volume', 'diameter', 'circumference'):
    K('sphere_' + nm, SP + nm, [p('s', SPH)], 'S', 'Solid', ['C01'])
for nm in ('height', 'radius', 'slant_height', 'area', 'volume'):
    K('cone_' + nm, CO + nm, [p('s', CON)], 'S', 'Solid', ['C01'])
for nm in ('height', 'diameter', 'area', 'volume'):
    K('cyl_' + nm, CY + nm, [p('s', CYL)], 'S', 'Solid', ['C01'])
K('cyl_center_end', CY + 'center_end', [p('s', CYL)], 'V3', 'Solid', ['C10'])
for (pre, tgt, T, mt) in [('sphere', SP, SPH, 'SphereS'), ('cone', CO, CON, 'ConeS'),
                          ('cyl', CY, CYL, 'CylS')]:
    K(pre + '_move', tgt + 'move', [p('s', T), p('mv', W3)], mt, 'Solid', ['C02'])
    K(pre + '_rotate', tgt + 'rotate',
      [p('s', T), p('axis', W3, 'nonzero'), S('angle', 'angle'), p('o', P3)], mt, 'Solid',
      ['C02'])
    K(pre + '_rotate_xy', tgt + 'rotate_xy', [p('s', T), S('angle', 'angle'), p('o', P3)],
      mt, 'Solid', ['C02'])
    K(pre + '_reflect', tgt + 'reflect', [p('s', T), p('n', W3, 'unit'), p('o', P3)], mt,
      'Solid', ['C02'])
    K(pre + '_scale', tgt + 'scale', [p('s', T), S('factor', 'posfactor'), p('o', P3)], mt,
      'Solid', ['C02'])



# ------------------------------------------------------------------ polygon (vertex lists)
LP2 = ('vs', 'List V2', 'Point2D', None)
LP3 = ('vs', 'List V3', 'Point3D', None)
POLY = 'geometry2d.polygon:Polygon2D.'
K('polygon2d_area', POLY + 'area', [LP2], 'S', 'Poly', ['C01', 'C03', 'C16'],
  self_from={'cls': 'Polygon2D', 'slots': {'_vertices': 'vs'}})
K('polygon2d_is_clockwise', POLY + 'is_clockwise', [LP2], 'B', 'Poly', ['C01', 'C03', 'C06'],
  self_from={'cls': 'Polygon2D', 'slots': {'_vertices': 'vs'}})
K('polygon2d_are_clockwise', POLY + '_are_clockwise', [LP2], 'B', 'Poly', ['C01', 'C06'])



# ------------------------------------------------------------------ Polygon2D cache transfer
PC = ('Poly2C', 'Polygon2D')
K('polygon2d_reverse', POLY + 'reverse', [p('s', PC)], 'Poly2C', 'Cache', ['C03'])
K('polygon2d_move', POLY + 'move', [p('s', PC), p('mv', W2)], 'Poly2C', 'Cache', ['C03', 'C02'])
K('polygon2d_rotate', POLY + 'rotate', [p('s', PC), S('angle', 'angle'), p('o', P2)],
  'Poly2C', 'Cache', ['C03', 'C02'])
K('polygon2d_reflect', POLY + 'reflect', [p('s', PC), p('n', W2, 'unit'), p('o', P2)],
  'Poly2C', 'Cache', ['C03', 'C02'])
K('polygon2d_scale', POLY + 'scale', [p('s', PC), S('factor', 'factor'), p('o', P2)],
  'Poly2C', 'Cache', ['C03', 'C02'])
K('polygon2d_scale_world', POLY + 'scale', [p('s', PC), S('factor', 'factor')],
  'Poly2C', 'Cache', ['C03', 'C02'])
K('polygon2d_read_area', POLY + 'area', [p('s', PC)], 'Tup S Poly2C', 'Cache', ['C03'],
  ret_self=True)
K('polygon2d_read_is_clockwise', POLY + 'is_clockwise', [p('s', PC)], 'Tup B Poly2C', 'Cache',
  ['C03'], ret_self=True)
K('polygon2d_copy', POLY + '__copy__', [p('s', PC)], 'Poly2C', 'Cache', ['C03', 'C13'])



# ------------------------------------------------------------------ mesh face kernels
T3_2 = ('verts', 'Tup V2 V2 V2', ('Point2D', 'Point2D', 'Point2D'), None)
T4_2 = ('verts', 'Tup V2 V2 V2 V2', ('Point2D',) * 4, 'convexquad')
T3_3 = ('pts', 'Tup V3 V3 V3', ('Point3D', 'Point3D', 'Point3D'), None)
T4_3 = ('pts', 'Tup V3 V3 V3 V3', ('Point3D',) * 4, 'convexquad')
M2 = 'geometry2d.mesh:Mesh2D.'
M3 = 'geometry3d.mesh:Mesh3D.'
K('mesh2d_get_area_tri', M2 + '_get_area', [T3_2], 'S', 'Mesh', ['C01', 'C16'])
K('mesh2d_get_area_quad', M2 + '_get_area', [T4_2], 'S', 'Mesh', ['C01', 'C16'])
K('mesh2d_tri_centroid', M2 + '_tri_centroid', [T3_2], 'V2', 'Mesh', ['C01', 'C16'])
K('mesh2d_face_center_tri', M2 + '_face_center', [T3_2], 'V2', 'Mesh', ['C20'])
K('mesh2d_face_center_quad', M2 + '_face_center', [T4_2], 'V2', 'Mesh', ['C20'])
K('mesh3d_normal_area_tri', M3 + '_calculate_normal_and_area_for_triangle', [T3_3],
  'Tup V3 S', 'Mesh', ['C01', 'C16'])
K('mesh3d_normal_area_quad', M3 + '_calculate_normal_and_area_for_quad', [T4_3],
  'Tup V3 S', 'Mesh', ['C01', 'C16'])
K('mesh3d_get_tri_area', M3 + '_get_tri_area', [T3_3], 'S', 'Mesh', ['C01', 'C16'])
K('mesh3d_tri_centroid', M3 + '_tri_centroid', [T3_3], 'V3', 'Mesh', ['C01', 'C16'])
K('mesh3d_quad_centroid', M3 + '_quad_centroid', [T4_3], 'V3', 'Mesh', ['C01', 'C16'])
K('mesh3d_face_center_quad', M3 + '_face_center', [T4_3], 'V3', 'Mesh', ['C20'])

# ------------------------------------------------------------------ earcut predicates
BPT = ('BP', 'triangulation:_Node')
TRI = 'triangulation.'
K('earcut_area', TRI + '_area', [p('p', BPT), p('q', BPT), p('r', BPT)], 'S', 'Tri', ['C05'])
K('earcut_equals', TRI + '_equals', [p('p1', BPT), p('p2', BPT)], 'B', 'Tri', ['C05'])
K('earcut_intersects', TRI + '_intersects',
  [p('p1', BPT), p('q1', BPT), p('p2', BPT), p('q2', BPT)], 'B', 'Tri', ['C05'])
K('earcut_point_in_triangle', TRI + '_point_in_triangle',
  [S('ax'), S('ay'), S('bx'), S('by_'), S('cx'), S('cy'), S('px'), S('py')], 'B', 'Tri',
  ['C05'])

# ------------------------------------------------------------------ boolean point predicates
BOOLP = ('BP', 'BooleanPoint')
BO = 'boolean:BooleanPoint.'
K('bool_collinear', BO + 'collinear', [p('p1', BOOLP), p('p2', BOOLP), p('p3', BOOLP),
                                       S('tol', 'tol')], 'B', 'Bool', ['C04'])
K('bool_compare', BO + 'compare', [p('p1', BOOLP), p('p2', BOOLP), S('tol', 'tol')], 'I',
  'Bool', ['C04'])
K('bool_point_above_or_on_line', BO + 'point_above_or_on_line',
  [p('pt', BOOLP), p('left', BOOLP), p('right', BOOLP), S('tol', 'tol')], 'B', 'Bool',
  ['C04'])
K('bool_between', BO + 'between',
  [p('pt', BOOLP), p('left', BOOLP), p('right', BOOLP), S('tol', 'tol')], 'B', 'Bool',
  ['C04'])
K('bool_is_equivalent', BO + 'is_equivalent', [p('a', BOOLP), p('b', BOOLP), S('tol', 'tol')],
  'B', 'Bool', ['C04'])



# ------------------------------------------------------------------ Face3D kernels
FACE = 'geometry3d.face:Face3D.'
K('face3d_normal_from_3pts', FACE + '_normal_from_3pts',
  [p('pt1', P3), p('pt2', P3), p('pt3', P3)], 'V3', 'Face', ['C06', 'C01'])



# ------------------------------------------------------------------ serialisation (C13)
_SER = [
    ('v2', 'geometry2d.pointvector:Vector2D', W2, 'V2', True),
    ('p2', 'geometry2d.pointvector:Point2D', P2, 'V2', True),
    ('v3', 'geometry3d.pointvector:Vector3D', W3, 'V3', True),
    ('p3', 'geometry3d.pointvector:Point3D', P3, 'V3', True),
    ('seg2', 'geometry2d.line:LineSegment2D', SEG2, 'LR2', True),
    ('ray2', 'geometry2d.ray:Ray2D', RAY2, 'LR2', True),
    ('seg3', 'geometry3d.line:LineSegment3D', SEG3, 'LR3', True),
    ('ray3', 'geometry3d.ray:Ray3D', RAY3, 'LR3', True),
    ('plane', 'geometry3d.plane:Plane', PL, 'PlaneS', False),
    ('arc2', 'geometry2d.arc:Arc2D', A2, 'Arc2S', False),
    ('arc3', 'geometry3d.arc:Arc3D', A3, 'Arc3S', False),
    ('sphere', 'geometry3d.sphere:Sphere', SPH, 'SphereS', False),
    ('cone', 'geometry3d.cone:Cone', CON, 'ConeS', False),
    ('cyl', 'geometry3d.cylinder:Cylinder', CYL, 'CylS', False),
]
for (pre, tgt, T, mt, has_array) in _SER:
    K(pre + '_dict_roundtrip', tgt + '.to_dict', [p('x', T)], mt, 'Serial', ['C13'],
      roundtrip='dict')
    if has_array:
        K(pre + '_array_roundtrip', tgt + '.to_array', [p('x', T)], mt, 'Serial', ['C13'],
          roundtrip='array')
    K(pre + '_copy', tgt + '.duplicate', [p('x', T)], mt, 'Serial', ['C13'],
      roundtrip='copy')
    K(pre + '_eq', tgt + '.__eq__', [p('x', T), p('y', T)], 'B', 'Serial', ['C13'],
      roundtrip='eq')



# ------------------------------------------------------------------ auto-discovered members
# (tools/py2lean/discover.py; translator-validated by the kernel correspondence)
K('a_v2d_min', 'geometry2d.pointvector:Vector2D.min', [p('x', W2)], 'V2', 'Auto', [])
K('a_v2d_max', 'geometry2d.pointvector:Vector2D.max', [p('x', W2)], 'V2', 'Auto', [])
K('a_v2d_angle', 'geometry2d.pointvector:Vector2D.angle', [p('x', W2), p('other', W2)], 'S', 'Auto', ['C16'])
K('a_v2d_angle_clockwise', 'geometry2d.pointvector:Vector2D.angle_clockwise', [p('x', W2), p('other', W2)], 'S', 'Auto', ['C16'])
K('a_p2d_min', 'geometry2d.pointvector:Point2D.min', [p('x', P2)], 'V2', 'Auto', [])
K('a_p2d_max', 'geometry2d.pointvector:Point2D.max', [p('x', P2)], 'V2', 'Auto', [])
K('a_p2d_magnitude', 'geometry2d.pointvector:Point2D.magnitude', [p('x', P2)], 'S', 'Auto', ['C16'])
K('a_p2d_magnitude_squared', 'geometry2d.pointvector:Point2D.magnitude_squared', [p('x', P2)], 'S', 'Auto', ['C16'])
K('a_p2d_is_zero', 'geometry2d.pointvector:Point2D.is_zero', [p('x', P2), S('tolerance', 'tol')], 'B', 'Auto', ['C16'])
K('a_p2d_is_equivalent', 'geometry2d.pointvector:Point2D.is_equivalent', [p('x', P2), p('other', P2), S('tolerance', 'tol')], 'B', 'Auto', ['C13'])
K('a_p2d_normalize', 'geometry2d.pointvector:Point2D.normalize', [p('x', P2)], 'V2', 'Auto', ['C16'])
K('a_p2d_reverse', 'geometry2d.pointvector:Point2D.reverse', [p('x', P2)], 'V2', 'Auto', ['C16'])
K('a_p2d_dot', 'geometry2d.pointvector:Point2D.dot', [p('x', P2), p('other', P2)], 'S', 'Auto', ['C16'])
K('a_p2d_determinant', 'geometry2d.pointvector:Point2D.determinant', [p('x', P2), p('other', P2)], 'S', 'Auto', ['C16'])
K('a_p2d_cross', 'geometry2d.pointvector:Point2D.cross', [p('x', P2)], 'V2', 'Auto', ['C16'])
K('a_p2d_angle', 'geometry2d.pointvector:Point2D.angle', [p('x', P2), p('other', P2)], 'S', 'Auto', ['C16'])
K('a_p2d_angle_counterclockwise', 'geometry2d.pointvector:Point2D.angle_counterclockwise', [p('x', P2), p('other', P2)], 'S', 'Auto', ['C16'])
K('a_p2d_angle_clockwise', 'geometry2d.pointvector:Point2D.angle_clockwise', [p('x', P2), p('other', P2)], 'S', 'Auto', ['C16'])
K('a_v3d_min', 'geometry3d.pointvector:Vector3D.min', [p('x', W3)], 'V3', 'Auto', [])
K('a_v3d_max', 'geometry3d.pointvector:Vector3D.max', [p('x', W3)], 'V3', 'Auto', [])
K('a_v3d_is_zero', 'geometry3d.pointvector:Vector3D.is_zero', [p('x', W3), S('tolerance', 'tol')], 'B', 'Auto', ['C16'])
K('a_v3d_angle', 'geometry3d.pointvector:Vector3D.angle', [p('x', W3), p('other', W3)], 'S', 'Auto', ['C16'])
K('a_p3d_min', 'geometry3d.pointvector:Point3D.min', [p('x', P3)], 'V3', 'Auto', [])
K('a_p3d_max', 'geometry3d.pointvector:Point3D.max', [p('x', P3)], 'V3', 'Auto', [])
K('a_p3d_magnitude', 'geometry3d.pointvector:Point3D.magnitude', [p('x', P3)], 'S', 'Auto', ['C16'])
K('a_p3d_magnitude_squared', 'geometry3d.pointvector:Point3D.magnitude_squared', [p('x', P3)], 'S', 'Auto', ['C16'])
K('a_p3d_is_zero', 'geometry3d.pointvector:Point3D.is_zero', [p('x', P3), S('tolerance', 'tol')], 'B', 'Auto', ['C16'])
K('a_p3d_is_equivalent', 'geometry3d.pointvector:Point3D.is_equivalent', [p('x', P3), p('other', P3), S('tolerance', 'tol')], 'B', 'Auto', ['C13'])
K('a_p3d_normalize', 'geometry3d.pointvector:Point3D.normalize', [p('x', P3)], 'V3', 'Auto', ['C16'])
K('a_p3d_reverse', 'geometry3d.pointvector:Point3D.reverse', [p('x', P3)], 'V3', 'Auto', ['C16'])
K('a_p3d_dot', 'geometry3d.pointvector:Point3D.dot', [p('x', P3), p('other', P3)], 'S', 'Auto', ['C16'])
K('a_p3d_cross', 'geometry3d.pointvector:Point3D.cross', [p('x', P3), p('other', P3)], 'V3', 'Auto', ['C16'])
K('a_p3d_angle', 'geometry3d.pointvector:Point3D.angle', [p('x', P3), p('other', P3)], 'S', 'Auto', ['C16'])
K('a_seg2d_endpoints', 'geometry2d.line:LineSegment2D.endpoints', [p('x', SEG2)], 'List V2', 'Auto', ['C16'])
K('a_seg2d_vertices', 'geometry2d.line:LineSegment2D.vertices', [p('x', SEG2)], 'List V2', 'Auto', ['C16'])
K('a_seg2d_is_equivalent', 'geometry2d.line:LineSegment2D.is_equivalent', [p('x', SEG2), p('other', SEG2), S('tolerance', 'tol')], 'B', 'Auto', ['C13'])
K('a_seg2d_intersect_line_ray', 'geometry2d.line:LineSegment2D.intersect_line_ray', [p('x', SEG2), p('line_ray', SEG2)], 'Opt V2', 'Auto', ['C11'])
K('a_seg2d_closest_point', 'geometry2d.line:LineSegment2D.closest_point', [p('x', SEG2), p('point', P2)], 'V2', 'Auto', ['C12'])
K('a_seg2d_is_parallel', 'geometry2d.line:LineSegment2D.is_parallel', [p('x', SEG2), p('line_ray', SEG2), S('angle_tolerance', 'tol')], 'B', 'Auto', ['C16'])
K('a_seg2d_is_colinear', 'geometry2d.line:LineSegment2D.is_colinear', [p('x', SEG2), p('line_ray', SEG2), S('tolerance', 'tol')], 'B', 'Auto', ['C16'])
K('a_ray2d_p', 'geometry2d.ray:Ray2D.p', [p('x', RAY2)], 'V2', 'Auto', ['C16'])
K('a_ray2d_v', 'geometry2d.ray:Ray2D.v', [p('x', RAY2)], 'V2', 'Auto', ['C16'])
K('a_ray2d_center', 'geometry2d.ray:Ray2D.center', [p('x', RAY2)], 'V2', 'Auto', ['C10'])
K('a_ray2d_closest_point', 'geometry2d.ray:Ray2D.closest_point', [p('x', RAY2), p('point', P2)], 'V2', 'Auto', ['C12'])
K('a_ray2d_distance_to_point', 'geometry2d.ray:Ray2D.distance_to_point', [p('x', RAY2), p('point', P2)], 'S', 'Auto', ['C12'])
K('a_ray2d_intersect_line_ray', 'geometry2d.ray:Ray2D.intersect_line_ray', [p('x', RAY2), p('line_ray', SEG2)], 'Opt V2', 'Auto', ['C11'])
K('a_ray2d_is_parallel', 'geometry2d.ray:Ray2D.is_parallel', [p('x', RAY2), p('line_ray', SEG2), S('angle_tolerance', 'tol')], 'B', 'Auto', ['C16'])
K('a_ray2d_is_colinear', 'geometry2d.ray:Ray2D.is_colinear', [p('x', RAY2), p('line_ray', SEG2), S('tolerance', 'tol')], 'B', 'Auto', ['C16'])
K('a_seg3d_endpoints', 'geometry3d.line:LineSegment3D.endpoints', [p('x', SEG3)], 'List V3', 'Auto', ['C16'])
K('a_seg3d_vertices', 'geometry3d.line:LineSegment3D.vertices', [p('x', SEG3)], 'List V3', 'Auto', ['C16'])
K('a_seg3d_is_horizontal', 'geometry3d.line:LineSegment3D.is_horizontal', [p('x', SEG3), S('tolerance', 'tol')], 'B', 'Auto', ['C16'])
K('a_seg3d_is_vertical', 'geometry3d.line:LineSegment3D.is_vertical', [p('x', SEG3), S('tolerance', 'tol')], 'B', 'Auto', ['C16'])
K('a_seg3d_is_parallel', 'geometry3d.line:LineSegment3D.is_parallel', [p('x', SEG3), p('line_ray', SEG3), S('angle_tolerance', 'tol')], 'B', 'Auto', ['C16'])
K('a_seg3d_is_colinear', 'geometry3d.line:LineSegment3D.is_colinear', [p('x', SEG3), p('line_ray', SEG3), S('tolerance', 'tol')], 'B', 'Auto', ['C16'])
K('a_seg3d_closest_point', 'geometry3d.line:LineSegment3D.closest_point', [p('x', SEG3), p('point', P3)], 'V3', 'Auto', ['C12'])
K('a_seg3d_intersect_plane', 'geometry3d.line:LineSegment3D.intersect_plane', [p('x', SEG3), p('plane', PL)], 'Opt V3', 'Auto', ['C11'])
K('a_ray3d_rotate_xy', 'geometry3d.ray:Ray3D.rotate_xy', [p('x', RAY3), S('angle', 'angle'), p('origin', P3)], 'LR3', 'Auto', ['C02'])
K('a_ray3d_p', 'geometry3d.ray:Ray3D.p', [p('x', RAY3)], 'V3', 'Auto', ['C16'])
K('a_ray3d_v', 'geometry3d.ray:Ray3D.v', [p('x', RAY3)], 'V3', 'Auto', ['C16'])
K('a_ray3d_center', 'geometry3d.ray:Ray3D.center', [p('x', RAY3)], 'V3', 'Auto', ['C10'])
K('a_ray3d_is_parallel', 'geometry3d.ray:Ray3D.is_parallel', [p('x', RAY3), p('line_ray', SEG3), S('angle_tolerance', 'tol')], 'B', 'Auto', ['C16'])
K('a_ray3d_is_colinear', 'geometry3d.ray:Ray3D.is_colinear', [p('x', RAY3), p('line_ray', SEG3), S('tolerance', 'tol')], 'B', 'Auto', ['C16'])
K('a_ray3d_closest_point', 'geometry3d.ray:Ray3D.closest_point', [p('x', RAY3), p('point', P3)], 'V3', 'Auto', ['C12'])
K('a_ray3d_distance_to_point', 'geometry3d.ray:Ray3D.distance_to_point', [p('x', RAY3), p('point', P3)], 'S', 'Auto', ['C12'])
K('a_ray3d_intersect_plane', 'geometry3d.ray:Ray3D.intersect_plane', [p('x', RAY3), p('plane', PL)], 'Opt V3', 'Auto', ['C11'])
K('a_plane_azimuth', 'geometry3d.plane:Plane.azimuth', [p('x', PL)], 'S', 'Auto', ['C16'])
K('a_plane_altitude', 'geometry3d.plane:Plane.altitude', [p('x', PL)], 'S', 'Auto', ['C16'])
K('a_plane_tilt', 'geometry3d.plane:Plane.tilt', [p('x', PL)], 'S', 'Auto', ['C16'])
K('a_plane_min', 'geometry3d.plane:Plane.min', [p('x', PL)], 'V3', 'Auto', [])
K('a_plane_max', 'geometry3d.plane:Plane.max', [p('x', PL)], 'V3', 'Auto', [])
K('a_plane_closest_points_between_line', 'geometry3d.plane:Plane.closest_points_between_line', [p('x', PL), p('line_ray', SEG3)], 'Opt (Tup V3 V3)', 'Auto', ['C12'])
K('a_plane_distance_to_line', 'geometry3d.plane:Plane.distance_to_line', [p('x', PL), p('line_ray', SEG3)], 'S', 'Auto', ['C12'])
K('a_plane_intersect_line_ray', 'geometry3d.plane:Plane.intersect_line_ray', [p('x', PL), p('line_ray', SEG3)], 'Opt V3', 'Auto', ['C11'])
K('a_plane_intersect_plane', 'geometry3d.plane:Plane.intersect_plane', [p('x', PL), p('plane', PL)], 'Opt LR3', 'Auto', ['C11'], well_conditioned='planes_not_parallel')
K('a_plane_is_coplanar_tolerance', 'geometry3d.plane:Plane.is_coplanar_tolerance', [p('x', PL), p('plane', PL), S('tolerance', 'tol'), S('angle_tolerance', 'tol')], 'B', 'Auto', ['C16'])
K('a_arc2d_point_at_length', 'geometry2d.arc:Arc2D.point_at_length', [p('x', A2), S('length', 'pos')], 'V2', 'Auto', ['C17'])
K('a_arc2d_distance_to_point', 'geometry2d.arc:Arc2D.distance_to_point', [p('x', A2), p('point', P2)], 'S', 'Auto', ['C12'])
K('a_arc2d_intersect_line_infinite', 'geometry2d.arc:Arc2D.intersect_line_infinite', [p('x', A2), p('line_ray', SEG2)], 'PtList V2', 'Auto', ['C11'])
K('a_arc3d_angle', 'geometry3d.arc:Arc3D.angle', [p('x', A3)], 'S', 'Auto', ['C16'])
K('a_arc3d_area', 'geometry3d.arc:Arc3D.area', [p('x', A3)], 'S', 'Auto', ['C16'])
K('a_arc3d_is_circle', 'geometry3d.arc:Arc3D.is_circle', [p('x', A3)], 'B', 'Auto', ['C16'])
K('a_arc3d_is_inverted', 'geometry3d.arc:Arc3D.is_inverted', [p('x', A3)], 'B', 'Auto', ['C16'])
K('a_arc3d_point_at_angle', 'geometry3d.arc:Arc3D.point_at_angle', [p('x', A3), S('angle', 'angle')], 'V3', 'Auto', ['C17'])
K('a_arc3d_point_at_length', 'geometry3d.arc:Arc3D.point_at_length', [p('x', A3), S('length', 'pos')], 'V3', 'Auto', ['C17'])
K('a_arc3d_distance_to_point', 'geometry3d.arc:Arc3D.distance_to_point', [p('x', A3), p('point', P3)], 'S', 'Auto', ['C12'])
K('a_cone_base', 'geometry3d.cone:Cone.base', [p('x', CON)], 'Arc3S', 'Auto', ['C16'])
K('a_cyl_base_bottom', 'geometry3d.cylinder:Cylinder.base_bottom', [p('x', CYL)], 'Arc3S', 'Auto', ['C16'])
K('a_cyl_base_top', 'geometry3d.cylinder:Cylinder.base_top', [p('x', CYL)], 'Arc3S', 'Auto', ['C16'])


# ------------------------------------------------------------------ second generation
# (bounding boxes, polylines, polygon members over vertex / segment lists, ...): module
# kernels2.py; translated with the v2 semantics of the interpreter (Interp.v2)
_GENERATION[0] = 1
import kernels2  # noqa: E402,F401
kernels2.register(K, globals())


# ------------------------------------------------------------------ third generation
# (Face3D construction, offsets, hole merging, segment joining, mesh helpers ...)
_GENERATION[0] = 2
import kernels3  # noqa: E402,F401
kernels3.register(K, globals())


def all_kernels():
    import copy
    return copy.deepcopy(KERNELS)
