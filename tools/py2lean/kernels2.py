"""Second generation of extracted kernels (interpreter semantics `v2`).

Functions over lists of geometry: bounding boxes, polylines, the Polygon2D members that
loop over vertices / segments, remaining triangulation / boolean predicates, Face3D
members.  Every kernel here is translated with `v2=True`: Python exceptions of list
operations (IndexError of `L[0]` on an empty list, ValueError of `min([])` …) are part of
the model, so most kernels return `Option τ` (`err_as_none`): `none` = the call raises."""


def register(K0, ns):
    p, S = ns['p'], ns['S']
    SEG2, SEG3, RAY2, RAY3 = ns['SEG2'], ns['SEG3'], ns['RAY2'], ns['RAY3']
    P2, W2, P3, W3, PL = ns['P2'], ns['W2'], ns['P3'], ns['W3'], ns['PL']

    def K(name, target, params, ret, group, props=(), **kw):
        kw.setdefault('v2', True)
        if ret.startswith('Opt '):
            kw.setdefault('err_as_none', True)
        K0(name, target, params, ret, group, props, **kw)

    def L(name, t, hint=None):
        """list parameter: t = (model type, python class)"""
        return (name, 'List ' + (t[0] if ' ' not in t[0] else '(%s)' % t[0]), t[1], hint)

    # -------------------------------------------------------------- bounding.py (C10)
    B = 'bounding.'
    for (dim, TS, TPT) in (('2', SEG2, P2), ('3', SEG3, P3)):
        sfx = '_seg' + dim
        K('bounding_domain_x' + sfx, B + 'bounding_domain_x', [L('geoms', TS)],
          'Opt (Tup S S)', 'Bound', ['C10'])
        K('bounding_domain_y' + sfx, B + 'bounding_domain_y', [L('geoms', TS)],
          'Opt (Tup S S)', 'Bound', ['C10'])
        K('bounding_rectangle' + sfx, B + 'bounding_rectangle', [L('geoms', TS)],
          'Opt (Tup V2 V2)', 'Bound', ['C10'])
        K('bounding_rectangle_extents' + sfx, B + 'bounding_rectangle_extents',
          [L('geoms', TS)], 'Opt (Tup S S)', 'Bound', ['C10'])
        # oriented versions (axis_angle != 0 is decided inside the function)
        K('bounding_rectangle_angle' + sfx, B + 'bounding_rectangle',
          [L('geoms', TS), S('axis_angle', 'angle')], 'Opt (Tup V2 V2)', 'Bound', ['C10'])
        K('bounding_rectangle_extents_angle' + sfx, B + 'bounding_rectangle_extents',
          [L('geoms', TS), S('axis_angle', 'angle')], 'Opt (Tup S S)', 'Bound', ['C10'])
        K('orient_geometry' + sfx, B + '_orient_geometry',
          [L('geoms', TS), S('axis_angle', 'angle'), p('center', TPT)],
          'List LR' + dim, 'Bound', ['C10', 'C02'])
        K('bounding_domain_z_2d_safe' + sfx, B + 'bounding_domain_z_2d_safe',
          [L('geoms', TS)], 'Opt (Tup S S)', 'Bound', ['C10'])
        K('overlapping_bounding_rect' + sfx, B + 'overlapping_bounding_rect',
          [p('g1', TS), p('g2', TS), S('distance', 'tol')], 'B', 'Bound', ['C10'])
    K('bounding_domain_z_seg3', B + 'bounding_domain_z', [L('geoms', SEG3)],
      'Opt (Tup S S)', 'Bound', ['C10'])
    K('bounding_box_seg3', B + 'bounding_box', [L('geoms', SEG3)], 'Opt (Tup V3 V3)',
      'Bound', ['C10'])
    K('bounding_box_extents_seg3', B + 'bounding_box_extents', [L('geoms', SEG3)],
      'Opt (Tup S S S)', 'Bound', ['C10'])
    K('bounding_box_angle_seg3', B + 'bounding_box',
      [L('geoms', SEG3), S('axis_angle', 'angle')], 'Opt (Tup V3 V3)', 'Bound', ['C10'])
    K('bounding_box_extents_angle_seg3', B + 'bounding_box_extents',
      [L('geoms', SEG3), S('axis_angle', 'angle')], 'Opt (Tup S S S)', 'Bound', ['C10'])
    K('overlapping_bounding_boxes_seg3', B + 'overlapping_bounding_boxes',
      [p('g1', SEG3), p('g2', SEG3), S('distance', 'tol')], 'B', 'Bound', ['C10'])

    # -------------------------------------------------- Base2DIn2D / Base2DIn3D (C10)
    # Methods of constructed objects: the constructor guarantees `len(vertices) >= 3`
    # (`_check_vertices_input`), registered as `assume_len` (recorded assumption); the
    # receiver is built from its slots.
    LP2 = ('vs', 'List V2', 'Point2D', 'len>=3')
    LP3 = ('vs', 'List V3', 'Point3D', 'len>=3')
    LP2any = ('vs', 'List V2', 'Point2D', 'len>=0')
    LP3any = ('vs', 'List V3', 'Point3D', 'len>=0')
    INV = {'vs': 3}
    for (dim, mod, cls, LP, LPany, vt) in (
            ('2', 'geometry2d._2d', 'Base2DIn2D', LP2, LP2any, 'V2'),
            ('3', 'geometry3d._2d', 'Base2DIn3D', LP3, LP3any, 'V3')):
        sf = {'cls': cls, 'slots': {'_vertices': 'vs'}}
        tgt = mod + ':' + cls + '.'
        for nm in ('min', 'max', 'center'):
            K('base2d%s_%s' % (dim, nm), tgt + nm, [LP], vt, 'Base2D', ['C10'],
              self_from=sf, assume_len=INV)
        K('base2d%s_calculate_min_max' % dim, tgt + '_calculate_min_max', [LP],
          'Tup %s %s' % (vt, vt), 'Base2D', ['C10'], self_from=sf, assume_len=INV,
          post_self='_min,_max')
        K('base2d%s_init' % dim, tgt + '__init__', [LPany], 'Opt (List %s)' % vt, 'Base2D',
          ['C13'], ctor=True, post='vertices', assert_mode='fork')

    # ------------------------------------------------------- Polyline2D / Polyline3D
    # receiver = (vertices, interpolated); results that are polylines are read through
    # their `vertices` (post=...); in the constructor kernels (`*_init`, `from_array`) the
    # `len(vertices) >= 3` assertion is modelled (assert_mode='fork' -> none)
    B_ = ('interp', 'B', None, None)
    ARR2 = ('arr', 'List (Tup S S)', None, 'len>=0')
    ARR3 = ('arr', 'List (Tup S S S)', None, 'len>=0')
    for (dim, mod, cls, LP, LPany, vt, lr, TP, TW, ARR, arrt) in (
            ('2', 'geometry2d.polyline', 'Polyline2D', LP2, LP2any, 'V2', 'LR2', P2, W2,
             ARR2, 'Tup S S'),
            ('3', 'geometry3d.polyline', 'Polyline3D', LP3, LP3any, 'V3', 'LR3', P3, W3,
             ARR3, 'Tup S S S')):
        sf = {'cls': cls, 'slots': {'_vertices': 'vs', '_interpolated': 'interp'}}
        tgt = mod + ':' + cls + '.'
        pre = 'polyline%s_' % dim
        G = 'Polyline'
        kw = dict(self_from=sf, assume_len=INV)
        K(pre + 'segments', tgt + 'segments', [LP, B_], 'List ' + lr, G, ['C17'], **kw)
        K(pre + 'length', tgt + 'length', [LP, B_], 'S', G, ['C01', 'C16'], **kw)
        K(pre + 'p1', tgt + 'p1', [LP, B_], vt, G, ['C17'], **kw)
        K(pre + 'p2', tgt + 'p2', [LP, B_], vt, G, ['C17'], **kw)
        K(pre + 'is_closed', tgt + 'is_closed', [LP, B_, S('tol', 'tol')], 'B', G,
          ['C13'], **kw)
        K(pre + 'min', tgt + 'min', [LP, B_], vt, G, ['C10'], **kw)
        K(pre + 'max', tgt + 'max', [LP, B_], vt, G, ['C10'], **kw)
        K(pre + 'center', tgt + 'center', [LP, B_], vt, G, ['C10'], **kw)
        kwv = dict(self_from=sf, post='vertices', assume_len=INV)
        K(pre + 'reverse', tgt + 'reverse', [LP, B_], 'List ' + vt, G, ['C02'], **kwv)
        K(pre + 'move', tgt + 'move', [LP, B_, p('mv', TW)], 'List ' + vt, G, ['C02'], **kwv)
        if dim == '2':
            K(pre + 'rotate', tgt + 'rotate', [LP, B_, S('angle', 'angle'), p('o', TP)],
              'List V2', G, ['C02'], **kwv)
        else:
            K(pre + 'rotate', tgt + 'rotate',
              [LP, B_, p('axis', TW, 'nonzero'), S('angle', 'angle'), p('o', TP)],
              'List V3', G, ['C02'], **kwv)
            K(pre + 'rotate_xy', tgt + 'rotate_xy', [LP, B_, S('angle', 'angle'), p('o', TP)],
              'List V3', G, ['C02'], **kwv)
        K(pre + 'reflect', tgt + 'reflect', [LP, B_, p('n', TW, 'unit'), p('o', TP)],
          'List ' + vt, G, ['C02'], **kwv)
        K(pre + 'scale', tgt + 'scale', [LP, B_, S('factor', 'factor'), p('o', TP)],
          'List ' + vt, G, ['C02'], **kwv)
        K(pre + 'scale_world', tgt + 'scale', [LP, B_, S('factor', 'factor')],
          'List ' + vt, G, ['C02'], **kwv)
        K(pre + 'to_array', tgt + 'to_array', [LP, B_], 'List (%s)' % arrt, G, ['C13'], **kw)
        K(pre + 'copy', tgt + '__copy__', [LP, B_], 'List ' + vt, G, ['C13'], **kwv)
        K(pre + 'from_array', tgt + 'from_array', [ARR], 'Opt (List %s)' % vt, G, ['C13'],
          post='vertices', assert_mode='fork')
        K(pre + 'init', tgt + '__init__', [LPany, B_], 'Opt (List %s)' % vt, G, ['C13'],
          ctor=True, post='vertices', assert_mode='fork')
    sf2 = {'cls': 'Polyline2D', 'slots': {'_vertices': 'vs', '_interpolated': 'interp'}}
    sf3 = {'cls': 'Polyline3D', 'slots': {'_vertices': 'vs', '_interpolated': 'interp'}}
    PL2 = 'geometry2d.polyline:Polyline2D.'
    PL3 = 'geometry3d.polyline:Polyline3D.'
    for (kk, tt) in (('s', SEG2), ('r', RAY2)):
        K('polyline2_intersect_line_ray_' + kk, PL2 + 'intersect_line_ray',
          [LP2, B_, p('l', tt)], 'List V2', 'Polyline', ['C11'], self_from=sf2,
          assume_len=INV)
        K('polyline2_intersect_line_infinite_' + kk, PL2 + 'intersect_line_infinite',
          [LP2, B_, p('l', tt)], 'List V2', 'Polyline', ['C11'], self_from=sf2,
          assume_len=INV)
    K('polyline2_to_polygon', PL2 + 'to_polygon', [LP2, B_, S('tol', 'tol')],
      'Opt (List V2)', 'Polyline', ['C13'], self_from=sf2, post='vertices',
      assert_mode='fork', assume_len=INV)
    K('polyline3_intersect_plane', PL3 + 'intersect_plane', [LP3, B_, p('pl', PL)],
      'List V3', 'Polyline', ['C11'], self_from=sf3, assume_len=INV)
    K('polyline3_to_polyline2d', PL3 + 'to_polyline2d', [LP3, B_], 'List V2',
      'Polyline', ['C13'], self_from=sf3, post='vertices', assume_len=INV)

    # ------------------------------------------------- Polygon2D members (vertex loops)
    POLY = 'geometry2d.polygon:Polygon2D.'
    sfp = {'cls': 'Polygon2D', 'slots': {'_vertices': 'vs'}}
    kp = dict(self_from=sfp, assume_len=INV)
    G = 'PolyMore'
    K('polygon2d_segments', POLY + 'segments', [LP2], 'List LR2', G, ['C08', 'C01'], **kp)
    K('polygon2d_segments_from_vertices', POLY + '_segments_from_vertices', [LP2any],
      'Opt (List LR2)', G, ['C08'])
    K('polygon2d_perimeter', POLY + 'perimeter', [LP2], 'S', G, ['C01', 'C16'], **kp)
    K('polygon2d_is_convex', POLY + 'is_convex', [LP2], 'B', G, ['C01'], **kp)
    K('polygon2d_inside_angles', POLY + 'inside_angles', [LP2], 'List S', G, ['C01'],
      tol_factor=1000, **kp)
    K('polygon2d_outside_angles', POLY + 'outside_angles', [LP2], 'List S', G, ['C01'],
      tol_factor=1000, **kp)
    K('polygon2d_is_rectangle', POLY + 'is_rectangle', [LP2, S('angle_tolerance', 'tol')],
      'B', G, ['C01'], **kp)
    K('polygon2d_min', POLY + 'min', [LP2], 'V2', G, ['C10'], **kp)
    K('polygon2d_max', POLY + 'max', [LP2], 'V2', G, ['C10'], **kp)
    K('polygon2d_center', POLY + 'center', [LP2], 'V2', G, ['C10'], **kp)
    K('polygon2d_is_point_inside', POLY + 'is_point_inside',
      [LP2, p('point', P2), p('test_vector', W2)], 'B', G, ['C08'], **kp)
    K('polygon2d_is_point_inside_default', POLY + 'is_point_inside', [LP2, p('point', P2)],
      'B', G, ['C08'], **kp)
    K('polygon2d_is_point_inside_bound_rect', POLY + 'is_point_inside_bound_rect',
      [LP2, p('point', P2), p('test_vector', W2)], 'B', G, ['C08', 'C10'], **kp)
    K('polygon2d_is_point_on_edge', POLY + 'is_point_on_edge',
      [LP2, p('point', P2), S('tol', 'tol')], 'B', G, ['C08', 'C12'], **kp)
    K('polygon2d_point_relationship', POLY + 'point_relationship',
      [LP2, p('point', P2), S('tol', 'tol')], 'I', G, ['C08'], **kp)
    K('polygon2d_distance_to_point', POLY + 'distance_to_point', [LP2, p('point', P2)],
      'S', G, ['C12'], **kp)
    K('polygon2d_distance_from_edge_to_point', POLY + 'distance_from_edge_to_point',
      [LP2, p('point', P2)], 'S', G, ['C12'], **kp)
    for (kk, tt) in (('s', SEG2), ('r', RAY2)):
        K('polygon2d_intersect_line_ray_' + kk, POLY + 'intersect_line_ray',
          [LP2, p('l', tt)], 'List V2', G, ['C11'], **kp)
        K('polygon2d_intersect_line_infinite_' + kk, POLY + 'intersect_line_infinite',
          [LP2, p('l', tt)], 'List V2', G, ['C11'], **kp)
    K('polygon2d_snap_to_grid', POLY + 'snap_to_grid', [LP2, S('grid_increment', 'pos')],
      'List V2', G, ['C16'], post='vertices', **kp)
    K('polygon2d_to_array', POLY + 'to_array', [LP2], 'List (Tup S S)', G, ['C13'], **kp)
    K('polygon2d_from_array', POLY + 'from_array', [ARR2], 'Opt (List V2)', G, ['C13'],
      post='vertices', assert_mode='fork')
    K('polygon2d_init', POLY + '__init__', [LP2any], 'Opt Poly2C', G, ['C13', 'C03'],
      ctor=True, assert_mode='fork')
    K('polygon2d_from_rectangle', POLY + 'from_rectangle',
      [p('base_point', P2), p('height_vector', W2, 'nonzero'), S('base', 'pos'),
       S('height', 'pos')], 'Poly2C', G, ['C01', 'C03'])
    for n in (3, 4, 5, 6):
        K('polygon2d_from_regular_polygon_%d' % n, POLY + 'from_regular_polygon',
          [S('radius', 'pos'), p('base_point', P2)], 'Poly2C', G, ['C01', 'C03'],
          const_args={'number_of_sides': n}, kw_params=True)
    K('polygon2d_bounding_domain_x', POLY + '_bounding_domain_x', [L('geoms', SEG2)],
      'Opt (Tup S S)', G, ['C10'])
    K('polygon2d_bounding_domain_y', POLY + '_bounding_domain_y', [L('geoms', SEG2)],
      'Opt (Tup S S)', G, ['C10'])
    T2 = ('Tup S S', None)
    K('cell_get_seg_dist_sq', 'geometry2d.polygon:_Cell._get_seg_dist_sq',
      [S('px'), S('py'), ('a', 'Tup S S', None, None), ('b', 'Tup S S', None, None)], 'S',
      G, ['C12'])

    # ------------------------------------------------ two polygons (object arguments)
    LQ2 = ('ws', 'List V2', 'Point2D', 'len>=3')
    PG = lambda nm: ('obj', 'Polygon2D', {'_vertices': nm}, 'ctor')     # noqa: E731
    INV2 = {'vs': 3, 'ws': 3}
    K('polygon2d_overlapping_bounding_rect', POLY + 'overlapping_bounding_rect',
      [LP2, LQ2, S('tol', 'dist')], 'B', G, ['C10'], build=[PG('vs'), PG('ws'), 'tol'],
      assume_len=INV2)
    K('polygon2d_is_polygon_inside', POLY + 'is_polygon_inside', [LP2, LQ2], 'B', G,
      ['C08'], build=[PG('vs'), PG('ws')], assume_len=INV2)
    K('polygon2d_is_polygon_outside', POLY + 'is_polygon_outside', [LP2, LQ2], 'B', G,
      ['C08'], build=[PG('vs'), PG('ws')], assume_len=INV2)
    K('polygon2d_do_polygons_intersect', POLY + '_do_polygons_intersect', [LP2, LQ2], 'B',
      G, ['C08'], build=[PG('vs'), PG('ws')], assume_len=INV2)

    # --------------------------------------------------- boolean.py helpers (C04)
    BOOLP = ns['BOOLP']
    BO = 'boolean:BooleanPoint.'
    K('bool_calc_along_using_value', BO + '__calc_along_using_value',
      [S('value'), S('tol', 'tol')], 'I', 'BoolMore', ['C04'])
    K('bool_lines_intersect', BO + '_lines_intersect',
      [p('a0', BOOLP), p('a1', BOOLP), p('b0', BOOLP), p('b1', BOOLP), S('tol', 'tol')],
      'Opt (Tup I I BP)', 'BoolMore', ['C04'], post='alongA,alongB,pt')
    ISC = 'boolean:_Intersecter.'
    IS_ = ('obj', 'boolean:_Intersecter', {'tol': 'tol'}, 'raw')
    K('bool_event_compare', ISC + '__eventCompare',
      [S('tol', 'tol'), ('s1', 'B', None, None), p('p11', BOOLP), p('p12', BOOLP),
       ('s2', 'B', None, None), p('p21', BOOLP), p('p22', BOOLP)], 'I', 'BoolMore', ['C04'],
      build=[IS_, 's1', 'p11', 'p12', 's2', 'p21', 'p22'])
    EV = lambda a, b: ('obj', 'boolean:_Node', {'seg': (                # noqa: E731
        'obj', 'boolean:_Segment', {'start': a, 'end': b}, 'raw')}, 'raw')
    K('bool_status_compare', ISC + '__statusCompare',
      [S('tol', 'tol'), p('a1', BOOLP), p('a2', BOOLP), p('b1', BOOLP), p('b2', BOOLP)], 'I',
      'BoolMore', ['C04'], build=[IS_, EV('a1', 'a2'), EV('b1', 'b2')])

    # ------------------------------------------- triangulation.py helpers (C05)
    BPT = ns['BPT']
    TRI = 'triangulation.'
    K('earcut_locally_inside', TRI + '_locally_inside',
      [p('ap', BPT), p('a', BPT), p('an', BPT), p('b', BPT)], 'B', 'TriMore', ['C05'],
      build=[('with', 'a', {'prev': 'ap', 'next': 'an'}), 'b'])
    for n in (3, 4):
        ring = ['n%d' % i for i in range(n)]
        prm = [p(x, BPT) for x in ring]
        K('earcut_middle_inside_%d' % n, TRI + '_middle_inside', prm + [p('b', BPT)], 'B',
          'TriMore', ['C05'], prelink=[('ring', ring)], build=['n0', 'b'])
        K('earcut_get_leftmost_%d' % n, TRI + '_get_leftmost', prm, 'BP', 'TriMore', ['C05'],
          prelink=[('ring', ring)], build=['n0'])
        K('earcut_is_ear_%d' % n, TRI + '_is_ear', prm, 'B', 'TriMore', ['C05'],
          prelink=[('ring', ring)], build=['n1'])
    for n in (4,):
        ring = ['n%d' % i for i in range(n)]
        prm = [p(x, BPT) for x in ring]
        K('earcut_intersects_polygon_%d' % n, TRI + '_intersects_polygon', prm, 'B',
          'TriMore', ['C05'], prelink=[('ring', ring)], build=['n0', 'n2'])
        K('earcut_is_valid_diagonal_%d' % n, TRI + '_is_valid_diagonal', prm, 'B', 'TriMore',
          ['C05'], prelink=[('ring', ring)], build=['n0', 'n2'])

    # ------------------------------------------------------- Face3D (no holes) members
    # receiver = (boundary vertices, plane); `_vertices = _boundary`, `_holes = None`
    FACE = 'geometry3d.face:Face3D.'
    LB3 = ('vs', 'List V3', 'Point3D', None)
    PLN_ = ('pl', 'PlaneS', 'Plane', None)
    FC = ('obj', 'Face3D', {'_boundary': 'vs', '_plane': 'pl', '_vertices': 'vs'},
          ('args', ['_boundary', '_plane', ('const', None), ('const', False)]))
    kf = dict(build=[FC], assume_len=INV)
    G = 'FaceMore'
    for nm, rt, pr in (('normal', 'V3', ['C06']), ('azimuth', 'S', ['C16']),
                       ('altitude', 'S', ['C16']), ('tilt', 'S', ['C16']),
                       ('min', 'V3', ['C10']), ('max', 'V3', ['C10']),
                       ('center', 'V3', ['C10']), ('area', 'S', ['C01', 'C16']),
                       ('perimeter', 'S', ['C01', 'C16']), ('is_clockwise', 'B', ['C06']),
                       ('boundary_segments', 'List LR3', ['C17']),
                       ('has_holes', 'B', ['C16']),
                       ('upper_left_corner', 'V3', ['C10']),
                       ('lower_left_corner', 'V3', ['C10']),
                       ('upper_right_corner', 'V3', ['C10']),
                       ('lower_right_corner', 'V3', ['C10'])):
        K('face3d_' + nm, FACE + nm, [LB3, PLN_], rt, G, pr, **kf)
    K('face3d_polygon2d', FACE + 'polygon2d', [LB3, PLN_], 'List V2', G, ['C06', 'C16'],
      post='vertices', **kf)
    K('face3d_boundary_polygon2d', FACE + 'boundary_polygon2d', [LB3, PLN_], 'List V2', G,
      ['C06', 'C16'], post='vertices', **kf)
    K('face3d_is_horizontal', FACE + 'is_horizontal', [LB3, PLN_, S('tol', 'tol')], 'B', G,
      ['C16'], build=[FC, 'tol'], assume_len=INV)
    K('face3d_check_planar', FACE + 'check_planar', [LB3, PLN_, S('tol', 'tol')], 'B', G,
      ['C06'], build=[FC, 'tol', ('const', False)], assume_len=INV)
    K('face3d_check_planar_raise', FACE + 'check_planar', [LB3, PLN_, S('tol', 'tol')],
      'Opt B', G, ['C06'], build=[FC, 'tol'], assume_len=INV)
    LC3 = ('ws', 'List V3', 'Point3D', None)
    PLN2_ = ('pl2', 'PlaneS', 'Plane', None)
    FC2 = ('obj', 'Face3D', {'_boundary': 'ws', '_plane': 'pl2', '_vertices': 'ws'},
           ('args', ['_boundary', '_plane', ('const', None), ('const', False)]))
    K('face3d_is_coplanar', FACE + 'is_coplanar', [LB3, PLN_, LC3, PLN2_, S('tol', 'tol')],
      'B', G, ['C09'], build=[FC, FC2, 'tol'], assume_len=INV2)
    K('face3d_upper_oriented_plane', FACE + '_upper_oriented_plane', [LB3, PLN_], 'PlaneS', G,
      ['C06'], **kf)
    K('face3d_calculate_min_max', FACE + '_calculate_min_max', [LB3, PLN_], 'Tup V3 V3', G,
      ['C10'], post_self='_min,_max', **kf)

    # --------------------------------------------------------- Mesh2D / Mesh3D helpers
    M2 = 'geometry2d.mesh:Mesh2D.'
    M3 = 'geometry3d.mesh:Mesh3D.'
    T4_2 = ('verts', 'Tup V2 V2 V2 V2', ('Point2D',) * 4, None)
    G = 'MeshMore'
    K('mesh2d_quad_to_triangles', M2 + '_quad_to_triangles', [T4_2], 'List (Tup N N N)', G,
      ['C20', 'C01'])
    K('mesh2d_concave_quad_to_triangles', M2 + '_concave_quad_to_triangles', [T4_2],
      'List (Tup N N N)', G, ['C20'], assert_mode='assume')
    K('mesh2d_quad_centroid', M2 + '_quad_centroid', [T4_2], 'V2', G, ['C01', 'C16'])
    K('mesh2d_domain_dimensions', M2 + '_domain_dimensions', [S('dom', 'pos'), S('dim', 'pos')],
      'Tup S S', G, ['C20'])
    for (nx, ny) in ((1, 1), (2, 1), (2, 3)):
        K('mesh2d_grid_vertices_%dx%d' % (nx, ny), M2 + '_grid_vertices',
          [p('base_point', P2), S('x_dim', 'pos'), S('y_dim', 'pos')], 'List V2', G, ['C20'],
          const_args={'num_x': nx, 'num_y': ny}, kw_params=True)
        K('mesh2d_grid_centroids_%dx%d' % (nx, ny), M2 + '_grid_centroids',
          [p('base_point', P2), S('x_dim', 'pos'), S('y_dim', 'pos')], 'List V2', G, ['C20'],
          const_args={'num_x': nx, 'num_y': ny}, kw_params=True)
    MV2 = ('vs', 'List V2', 'Point2D', 'len>=3')
    MV3 = ('vs', 'List V3', 'Point3D', 'len>=3')
    FACES1 = ('const', ((0, 1, 2),))
    for (dim, tgt, cls, MV, vt) in (('2', M2, 'Mesh2D', MV2, 'V2'), ('3', M3, 'Mesh3D', MV3, 'V3')):
        MO = ('obj', cls, {'_vertices': 'vs', '_min': ('const', None), '_max': ('const', None),
                           '_center': ('const', None)}, ('args', ['_vertices', FACES1]))
        km = dict(build=[MO], assume_len={'vs': 1})
        for nm in ('min', 'max', 'center'):
            K('mesh%sd_%s' % (dim, nm), tgt + nm, [MV], vt, G, ['C10'], **km)
        K('mesh%sd_calculate_min_max' % dim, tgt + '_calculate_min_max', [MV],
          'Tup %s %s' % (vt, vt), G, ['C10'], post_self='_min,_max', **km)

    # ------------------------------------------------------------------ projection.py
    # homogeneous lists of one geometry class (the isinstance dispatch is decided by the
    # Python class of the list's elements)
    PR = 'projection.'
    G = 'Project'
    LPT3 = ('geos', 'List V3', 'Point3D', 'len>=0')
    LPT2 = ('geos', 'List V2', 'Point2D', 'len>=0')
    LVC3 = ('geos', 'List V3', 'Vector3D', 'len>=0')
    # (`Plane.project_point` returns None for a zero normal; a None inside a list is an
    # optional element, a None used as a point raises -> none)
    for (sfx, LG, r3, r2) in (('pts3', LPT3, 'List (Opt V3)', 'Opt (List V2)'),
                              ('pts2', LPT2, 'List (Opt V3)', 'Opt (List V2)'),
                              ('seg3', L('geos', SEG3), 'Opt (List LR3)', 'Opt (List LR2)'),
                              ('seg2', L('geos', SEG2), 'Opt (List LR3)', 'Opt (List LR2)'),
                              ('ray3', L('geos', RAY3), 'Opt (List LR3)', 'Opt (List LR2)'),
                              ('vec3', LVC3, 'Opt (List V3)', 'Opt (List V2)')):
        K('project_geometry_' + sfx, PR + 'project_geometry', [p('plane', PL), LG], r3, G,
          ['C12', 'C16'])
        K('project_geometry_2d_' + sfx, PR + 'project_geometry_2d', [p('plane', PL), LG], r2, G,
          ['C12', 'C16'])
    K('plane_project_points', 'geometry3d.plane:Plane.project_points', [p('plane', PL), LPT3],
      'List (Opt V3)', G, ['C12'])
    SPH, CON, CYL = ns['SPH'], ns['CON'], ns['CYL']
    K('project_geometry_sphere', PR + 'project_geometry', [p('plane', PL), L('geos', SPH)],
      'Opt (List SphereS)', G, ['C12'])
    K('project_geometry_cone', PR + 'project_geometry', [p('plane', PL), L('geos', CON)],
      'Opt (List ConeS)', G, ['C12'])
    # NOTE (library defect): a Cylinder is projected to a *Cone* whose angle is the cylinder's
    # radius (`projected_geos.append(Cone(pt, Vector3D(...), geo.radius))`); with the return
    # type `List CylS` this kernel does not translate ("result of class Cone where CylS
    # expected"), so the model states what the code does.
    K('project_geometry_cyl', PR + 'project_geometry', [p('plane', PL), L('geos', CYL)],
      'Opt (List ConeS)', G, ['C12'])
    K('project_geometry_plane', PR + 'project_geometry', [p('plane', PL), L('geos', PL)],
      'Opt (List PlaneS)', G, ['C12'])

    # ----------------------------------------- remaining members of the simple classes
    PV2 = 'geometry2d.pointvector:'
    PV3 = 'geometry3d.pointvector:'
    G = 'Auto2'
    for (dim, PV, TW, TP, vt) in (('2', PV2, W2, P2, 'V2'), ('3', PV3, W3, P3, 'V3')):
        V, P_ = PV + 'Vector%sD.' % dim, PV + 'Point%sD.' % dim
        K('v%s_sub' % dim, V + '__sub__', [p('a', TW), p('b', TW)], vt, G, ['C16'])
        K('v%s_sub_point' % dim, V + '__sub__', [p('a', TW), p('b', TP)], vt, G, ['C16'])
        K('v%s_rsub' % dim, V + '__rsub__', [p('a', TW), p('b', TW)], vt, G, ['C16'])
        K('v%s_truediv' % dim, V + '__truediv__', [p('a', TW), S('k', 'pos')], vt, G, ['C16'])
        K('v%s_rtruediv' % dim, V + '__rtruediv__', [p('a', TW, 'nonzerocoords'), S('k')], vt, G,
          ['C16'])
        K('v%s_div' % dim, V + '__div__', [p('a', TW), S('k', 'pos')], vt, G, ['C16'])
        K('v%s_floordiv' % dim, V + '__floordiv__', [p('a', TW), S('k', 'pos')], vt, G, ['C16'])
        K('v%s_ne' % dim, V + '__ne__', [p('a', TW), p('b', TW)], 'B', G, ['C13'])
        K('v%s_nonzero' % dim, V + '__nonzero__', [p('a', TW)], 'B', G, ['C16'])
        K('v%s_len' % dim, V + '__len__', [p('a', TW)], 'N', G, ['C16'])
        for i in range(int(dim)):
            K('v%s_getitem_%d' % (dim, i), V + '__getitem__', [p('a', TW)], 'S', G, ['C16'],
              const_args={'key': i})
        K('v%s_iter' % dim, V + '__iter__', [p('a', TW)], 'List S', G, ['C16'])
        K('p%s_sub' % dim, P_ + '__sub__', [p('a', TP), p('b', TP)], vt, G, ['C16'])
        K('p%s_sub_vector' % dim, P_ + '__sub__', [p('a', TP), p('b', TW)], vt, G, ['C16'])
    K('p2_lt', PV2 + 'Point2D.__lt__', [p('a', P2), p('b', P2)], 'B', G, ['C16'])
    K('p2_gt', PV2 + 'Point2D.__gt__', [p('a', P2), p('b', P2)], 'B', G, ['C16'])
    K('v2_circular_mean', PV2 + 'Vector2D.circular_mean', [('angles', 'List S', None, 'len>=1;angle')],
      'S', G, ['C16'], assume_len={'angles': 1}, tol_factor=1000)
    K('v3_from_vector2d', PV3 + 'Vector3D.from_vector2d', [p('v', W2), S('z')], 'V3', G, ['C16'])
    K('p3_from_point2d', PV3 + 'Point3D.from_point2d', [p('v', P2), S('z')], 'V3', G, ['C16'])
    K('seg2_from_sdl', 'geometry2d.line:LineSegment2D.from_sdl',
      [p('s', P2), p('d', W2, 'nonzero'), S('length', 'pos')], 'LR2', G, ['C17'])
    K('seg3_from_sdl', 'geometry3d.line:LineSegment3D.from_sdl',
      [p('s', P3), p('d', W3, 'nonzero'), S('length', 'pos')], 'LR3', G, ['C17'])
    K('seg3_from_line_segment2d', 'geometry3d.line:LineSegment3D.from_line_segment2d',
      [p('l', SEG2), S('z')], 'LR3', G, ['C17'])
    K('seg2_abs', 'geometry2d.line:LineSegment2D.__abs__', [p('l', SEG2)], 'S', G, ['C01'])
    K('seg3_abs', 'geometry3d.line:LineSegment3D.__abs__', [p('l', SEG3)], 'S', G, ['C01'])
    K('ray3_from_ray2d', 'geometry3d.ray:Ray3D.from_ray2d', [p('l', RAY2), S('z')], 'LR3', G,
      ['C17'])
    K('ray3_scale_world_origin', 'geometry3d.ray:Ray3D.scale_world_origin',
      [p('l', RAY3), S('factor', 'factor')], 'LR3', G, ['C02'])
    K('cyl_from_start_end', 'geometry3d.cylinder:Cylinder.from_start_end',
      [p('p1', P3), p('p2', P3), S('radius', 'pos')], 'CylS', G, ['C17'])
    K('plane_from_three_points', 'geometry3d.plane:Plane.from_three_points',
      [p('o', P3), p('p2', P3), p('p3', P3)], 'PlaneS', G, ['C06'])
    K('plane_from_normal_k', 'geometry3d.plane:Plane.from_normal_k',
      [p('n', W3, 'nonzero'), S('k')], 'PlaneS', G, ['C06'])
    K('sphere_intersect_plane', 'geometry3d.sphere:Sphere.intersect_plane',
      [p('s', SPH), p('pl', PL)], 'Opt Arc3S', G, ['C11'], err_as_none=False)
    for (kk, tt) in (('s', SEG3), ('r', RAY3)):
        K('sphere_intersect_line_ray_' + kk, 'geometry3d.sphere:Sphere.intersect_line_ray',
          [p('s', SPH), p('l', tt)], 'Opt (Sum V3 LR3)', G, ['C11'], err_as_none=False)
    for (pre, tgt, T) in (('cyl', 'geometry3d.cylinder:Cylinder', CYL),
                          ('plane', 'geometry3d.plane:Plane', PL),
                          ('sphere', 'geometry3d.sphere:Sphere', SPH),
                          ('cone', 'geometry3d.cone:Cone', CON)):
        K(pre + '_ne', tgt + '.__ne__', [p('x', T), p('y', T)], 'B', G, ['C13'])

    # ------------------------------- container protocol of Base2DIn2D / Base2DIn3D etc.
    G = 'Base2D'
    for (dim, mod, cls, LP, vt) in (('2', 'geometry2d._2d', 'Base2DIn2D', LP2, 'V2'),
                                     ('3', 'geometry3d._2d', 'Base2DIn3D', LP3, 'V3')):
        sf = {'cls': cls, 'slots': {'_vertices': 'vs'}}
        tgt = mod + ':' + cls + '.'
        LQ = ('ws', 'List ' + vt, 'Point%sD' % dim, 'len>=3')
        OB = lambda nm: ('obj', cls, {'_vertices': nm}, 'ctor')          # noqa: E731
        K('base2d%s_len' % dim, tgt + '__len__', [LP], 'I', G, ['C16'], self_from=sf,
          assume_len=INV)
        K('base2d%s_iter' % dim, tgt + '__iter__', [LP], 'List ' + vt, G, ['C16'],
          self_from=sf, assume_len=INV)
        for i in (0, 2, -1):
            K('base2d%s_getitem_%s' % (dim, str(i).replace('-', 'm')), tgt + '__getitem__',
              [LP], vt, G, ['C16'], self_from=sf, assume_len=INV, const_args={'key': i})
        K('base2d%s_copy' % dim, tgt + '__copy__', [LP], 'List ' + vt, G, ['C13'],
          self_from=sf, assume_len=INV, post='vertices')
        K('base2d%s_duplicate' % dim, tgt + 'duplicate', [LP], 'List ' + vt, G, ['C13'],
          self_from=sf, assume_len=INV, post='vertices')
        K('base2d%s_eq' % dim, tgt + '__eq__', [LP, LQ], 'B', G, ['C13'],
          build=[OB('vs'), OB('ws')], assume_len=INV2)
        K('base2d%s_ne' % dim, tgt + '__ne__', [LP, LQ], 'B', G, ['C13'],
          build=[OB('vs'), OB('ws')], assume_len=INV2)
    K('polygon2d_eq', POLY + '__eq__', [LP2, LQ2], 'B', 'PolyMore', ['C13'],
      build=[PG('vs'), PG('ws')], assume_len=INV2)
    K('polyline2_from_polygon', PL2 + 'from_polygon', [LP2], 'List V2', 'Polyline', ['C13'],
      build=[PG('vs')], assume_len=INV, post='vertices')
    K('polyline2_interpolated', PL2 + 'interpolated', [LP2, B_], 'B', 'Polyline', ['C16'],
      self_from=sf2, assume_len=INV)
    K('polyline2_dict_roundtrip', PL2 + 'to_dict', [LP2, B_], 'Tup (List V2) B', 'Polyline',
      ['C13'], self_from=sf2, assume_len=INV, roundtrip='dict', post='vertices,interpolated')
    K('polyline3_dict_roundtrip', PL3 + 'to_dict', [LP3, B_], 'Tup (List V3) B', 'Polyline',
      ['C13'], self_from=sf3, assume_len=INV, roundtrip='dict', post='vertices,interpolated')
    K('polygon2d_dict_roundtrip', POLY + 'to_dict', [LP2], 'List V2', 'PolyMore', ['C13'],
      self_from=sfp, assume_len=INV, roundtrip='dict', post='vertices')
    K('polyline2_array_roundtrip', PL2 + 'to_array', [LP2, B_], 'List V2', 'Polyline', ['C13'],
      self_from=sf2, assume_len=INV, roundtrip='array', post='vertices')
    K('polygon2d_array_roundtrip', POLY + 'to_array', [LP2], 'List V2', 'PolyMore', ['C13'],
      self_from=sfp, assume_len=INV, roundtrip='array', post='vertices')

    # ---------------------------------- Face3D corner-ordered vertex lists (index loops)
    G = 'FaceMore'
    for nm in ('upper_left', 'lower_left', 'lower_right', 'upper_right'):
        K('face3d_%s_counter_clockwise_vertices' % nm,
          FACE + nm + '_counter_clockwise_vertices', [LB3, PLN_], 'List V3', G, ['C10', 'C06'],
          **kf)
        K('face3d_%s_counter_clockwise_boundary' % nm,
          FACE + nm + '_counter_clockwise_boundary', [LB3, PLN_], 'List V3', G, ['C10', 'C06'],
          **kf)
    K('face3d_corner_pt_verts', FACE + '_corner_pt_verts',
      [p('corner_pt', P2), ('verts3d', 'List V3', 'Point3D', 'len>=1'),
       ('verts2d', 'List V2', 'Point2D', 'len>=1')], 'Opt (List V3)', G, ['C10'])

    # --------------------------- loops that use the index as a value / None-initialised
    K('polygon2d_is_equivalent', POLY + 'is_equivalent', [LP2, LQ2, S('tol', 'tol')], 'B',
      'PolyMore', ['C13'], build=[PG('vs'), PG('ws'), 'tol'], assume_len=INV2)
    K('polygon2d_is_self_intersecting', POLY + 'is_self_intersecting', [LP2], 'B', 'PolyMore',
      ['C01', 'C08'], **kp)
    K('polyline2_is_self_intersecting', PL2 + 'is_self_intersecting', [LP2, B_], 'B',
      'Polyline', ['C01'], self_from=sf2, assume_len=INV)
    K('polygon2d_is_valid', POLY + 'is_valid', [LP2], 'B', 'PolyMore', ['C01'], **kp)
    kpa = dict(self_from=sfp, assume_len=INV, assert_mode='fork')
    K('polygon2d_remove_duplicate_vertices', POLY + 'remove_duplicate_vertices',
      [LP2, S('tol', 'tol')], 'Opt (List V2)', 'PolyMore', ['C15'], post='vertices', **kpa)
    K('polygon2d_remove_colinear_vertices', POLY + 'remove_colinear_vertices',
      [LP2, S('tol', 'tol')], 'Opt (List V2)', 'PolyMore', ['C15'], post='vertices', **kpa)
    K('polygon2d_self_intersection_points', POLY + 'self_intersection_points', [LP2], 'List V2',
      'PolyMore', ['C11'], **kp)
    K('polygon2d_rectangular_approximation', POLY + 'rectangular_approximation', [LP2],
      'Poly2C', 'PolyMore', ['C01'], **kp)
    K('polygon2d_inward_pointing_vec', POLY + '_inward_pointing_vec', [LP2], 'Tup V2 S',
      'PolyMore', ['C06'], build=[PG('vs')], assume_len=INV)
    K('polygon2d_does_polygon_touch', POLY + 'does_polygon_touch', [LP2, LQ2, S('tol', 'tol')],
      'B', 'PolyMore', ['C08'], build=[PG('vs'), PG('ws'), 'tol'], assume_len=INV2)
    K('polyline2_remove_colinear_vertices', PL2 + 'remove_colinear_vertices',
      [LP2, B_, S('tol', 'tol')], 'Opt (List V2)', 'Polyline', ['C15'], self_from=sf2,
      assume_len=INV, assert_mode='fork', post='vertices')
    K('polyline3_remove_colinear_vertices', PL3 + 'remove_colinear_vertices',
      [LP3, B_, S('tol', 'tol')], 'Opt (List V3)', 'Polyline', ['C15'], self_from=sf3,
      assume_len=INV, assert_mode='fork', post='vertices')
    G = 'FaceMore'
    for nm, rt, pr in (('is_convex', 'B', ['C01']), ('is_self_intersecting', 'B', ['C01']),
                       ('is_valid', 'B', ['C01'])):
        K('face3d_' + nm, FACE + nm, [LB3, PLN_], rt, G, pr, **kf)
    K('face3d_non_planar_vertices', FACE + 'non_planar_vertices', [LB3, PLN_, S('tol', 'tol')],
      'List V3', G, ['C06'], build=[FC, 'tol'], assume_len=INV)
    K('face3d_remove_duplicate_vertices', FACE + 'remove_duplicate_vertices',
      [LB3, PLN_, S('tol', 'tol')], 'Opt (List V3)', G, ['C15'], build=[FC, 'tol'],
      assume_len=INV, assert_mode='fork', post='vertices')
    K('face3d_remove_colinear_vertices', FACE + 'remove_colinear_vertices',
      [LB3, PLN_, S('tol', 'tol')], 'Opt (List V3)', G, ['C15'], build=[FC, 'tol'],
      assume_len=INV, assert_mode='fork', post='vertices')
    K('face3d_inward_pointing_vec', FACE + '_inward_pointing_vec', [LB3, PLN_], 'V3', G, ['C06'],
      build=[FC], assume_len=INV)
