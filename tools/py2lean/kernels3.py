"""Third generation of extracted kernels (v2 interpreter semantics, see kernels2.py).

Face3D construction (`__init__`, `_plane_from_vertices`, `from_rectangle`, `from_extrusion`,
`from_regular_polygon`, `flip`), offsets (C19), hole merging (C01/C06), segment joining (C18),
mesh helpers (C07/C20), remaining boolean / triangulation predicates (C04/C05)."""


def register(K0, ns):
    p, S = ns['p'], ns['S']
    SEG2, SEG3, RAY2, RAY3 = ns['SEG2'], ns['SEG3'], ns['RAY2'], ns['RAY3']
    P2, W2, P3, W3, PL = ns['P2'], ns['W2'], ns['P3'], ns['W3'], ns['PL']

    def K(name, target, params, ret, group, props=(), **kw):
        kw.setdefault('v2', True)
        kw.setdefault('v3', True)
        if ret.startswith('Opt '):
            kw.setdefault('err_as_none', True)
        K0(name, target, params, ret, group, props, **kw)

    def L(name, t, hint=None):
        return (name, 'List ' + (t[0] if ' ' not in t[0] else '(%s)' % t[0]), t[1], hint)

    INV = {'vs': 3}
    LB3 = ('vs', 'List V3', 'Point3D', None)
    LB3any = ('vs', 'List V3', 'Point3D', 'len>=0')
    PLN_ = ('pl', 'PlaneS', 'Plane', None)
    FACE = 'geometry3d.face:Face3D.'
    FC = ('obj', 'Face3D', {'_boundary': 'vs', '_plane': 'pl', '_vertices': 'vs'},
          ('args', ['_boundary', '_plane', ('const', None), ('const', False)]))

    # ------------------------------------------------------ Face3D construction (C06)
    G = 'FaceInit'
    FR = 'Opt (Tup (List V3) PlaneS)'
    K('face3d_plane_from_vertices', FACE + '_plane_from_vertices', [LB3any], 'Opt PlaneS', G,
      ['C06'])
    K('face3d_init', FACE + '__init__', [LB3any], FR, G, ['C06'], ctor=True,
      post='boundary,plane', assert_mode='fork')
    K('face3d_init_plane', FACE + '__init__', [LB3any, PLN_], FR, G, ['C06'], ctor=True,
      post='boundary,plane', assert_mode='fork')
    K('face3d_init_plane_noenforce', FACE + '__init__', [LB3any, PLN_], FR, G, ['C06'],
      ctor=True, post='boundary,plane', assert_mode='fork',
      const_args={'holes': None, 'enforce_right_hand': False})
    kf = dict(build=[FC], assume_len=INV)
    K('face3d_flip', FACE + 'flip', [LB3, PLN_], FR, G, ['C06'], post='boundary,plane',
      assert_mode='fork', **kf)
    K('face3d_plane', FACE + 'plane', [LB3, PLN_], 'PlaneS', G, ['C06'], **kf)
    K('face3d_boundary', FACE + 'boundary', [LB3, PLN_], 'List V3', G, ['C06'], **kf)
    K('face3d_vertices', FACE + 'vertices', [LB3, PLN_], 'List V3', G, ['C06'], **kf)
    K('face3d_from_rectangle', FACE + 'from_rectangle',
      [S('base', 'pos'), S('height', 'pos'), ('base_plane', 'PlaneS', 'Plane', None)],
      'Opt (Tup (List V3) PlaneS (Opt S) (Opt S) (Opt V3))', G, ['C06', 'C01'],
      post='boundary,plane,_perimeter,_area,_centroid', assert_mode='fork')
    K('face3d_from_rectangle_default', FACE + 'from_rectangle',
      [S('base', 'pos'), S('height', 'pos')],
      'Opt (Tup (List V3) PlaneS (Opt S) (Opt S) (Opt V3))', G, ['C06', 'C01'],
      post='boundary,plane,_perimeter,_area,_centroid', assert_mode='fork')
    K('face3d_from_extrusion', FACE + 'from_extrusion',
      [p('line_segment', SEG3), p('extrusion_vector', W3)],
      'Opt (Tup (List V3) PlaneS (Opt S) (Opt S) (Opt V3))', G, ['C06', 'C01'],
      post='boundary,plane,_perimeter,_area,_centroid', assert_mode='fork')
    for n in (3, 4, 6):
        K('face3d_from_regular_polygon_%d' % n, FACE + 'from_regular_polygon',
          [S('radius', 'pos'), ('base_plane', 'PlaneS', 'Plane', None)],
          'Opt (Tup (List V3) PlaneS)', G, ['C06', 'C01'], post='boundary,plane',
          assert_mode='fork', const_args={'side_count': n}, kw_params=True)
    K('face3d_copy', FACE + '__copy__', [LB3, PLN_], FR, G, ['C13'], post='boundary,plane',
      assert_mode='fork', **kf)
    K('face3d_to_array', FACE + 'to_array', [LB3, PLN_], 'Tup (List (Tup S S S))', G, ['C13'],
      **kf)
    K('face3d_move', FACE + 'move', [LB3, PLN_, p('mv', W3)], FR, G, ['C02'],
      post='boundary,plane', assert_mode='fork', build=[FC, 'mv'], assume_len=INV)
    K('face3d_scale', FACE + 'scale', [LB3, PLN_, S('factor', 'factor'), p('o', P3)], FR, G,
      ['C02'], post='boundary,plane', assert_mode='fork', build=[FC, 'factor', 'o'],
      assume_len=INV, tol_factor=1000)
    K('face3d_rotate_xy', FACE + 'rotate_xy', [LB3, PLN_, S('angle', 'angle'), p('o', P3)], FR,
      G, ['C02'], post='boundary,plane', assert_mode='fork', build=[FC, 'angle', 'o'],
      assume_len=INV)
    K('face3d_rotate', FACE + 'rotate',
      [LB3, PLN_, p('axis', W3, 'nonzero'), S('angle', 'angle'), p('o', P3)], FR, G, ['C02'],
      post='boundary,plane', assert_mode='fork', build=[FC, 'axis', 'angle', 'o'],
      assume_len=INV)
    K('face3d_reflect', FACE + 'reflect', [LB3, PLN_, p('n', W3, 'unit'), p('o', P3)], FR, G,
      ['C02'], post='boundary,plane', assert_mode='fork', build=[FC, 'n', 'o'],
      assume_len=INV)

    # ------------------------------------------------------------------ offsets (C19)
    G = 'Offset'
    POLY = 'geometry2d.polygon:Polygon2D.'
    LP2 = ('vs', 'List V2', 'Point2D', 'len>=3')
    B_ = ('interp', 'B', None, None)
    sfp = {'cls': 'Polygon2D', 'slots': {'_vertices': 'vs'}}
    sf2 = {'cls': 'Polyline2D', 'slots': {'_vertices': 'vs', '_interpolated': 'interp'}}
    PG = lambda nm: ('obj', 'Polygon2D', {'_vertices': nm}, 'ctor')     # noqa: E731
    K('polygon2d_offset', POLY + 'offset', [LP2, S('distance', 'offdist')],
      'Opt (List V2)', G, ['C19'], self_from=sfp, assume_len=INV, post='vertices',
      assert_mode='fork', tol_factor=1000, zero_div=True)
    K('polygon2d_offset_check', POLY + 'offset', [LP2, S('distance', 'offdist')],
      'Opt (Opt (List V2))', G, ['C19'], self_from=sfp, assume_len=INV, post='vertices',
      assert_mode='fork', const_args={'check_intersection': True}, tol_factor=1000,
      zero_div=True)
    K('polyline2_offset', 'geometry2d.polyline:Polyline2D.offset',
      [LP2, B_, S('distance', 'offdist')], 'Opt (List V2)', G, ['C19'], self_from=sf2,
      assume_len=INV, post='vertices', assert_mode='fork', tol_factor=1000, zero_div=True)
    K('polygon2d_perimeter_core_by_offset', POLY + 'perimeter_core_by_offset',
      [LP2, S('distance', 'offdist')], 'Opt (Tup (Opt (List Poly2C)) (Opt (List Poly2C)))', G,
      ['C19'], build=[PG('vs'), 'distance'], assume_len=INV, assert_mode='fork',
      tol_factor=1000, zero_div=True)

    # ------------------------------------------- polygons with holes (C01 / C06)
    G = 'Holes'
    LBD = ('boundary', 'List V2', 'Point2D', 'len>=3')
    LHL = ('hole', 'List V2', 'Point2D', 'len>=3')
    K('polygon2d_from_shape_with_hole', POLY + 'from_shape_with_hole', [LBD, LHL],
      'Opt (Tup (List V2) B)', G, ['C01', 'C06'], post='vertices,_is_clockwise',
      assert_mode='fork')
