#!/venv/bin/python
"""Confirm and evaluate seeded property-breaking changes.

usage: seeded_eval.py confirm <srcdir> <id>     # srcdir has patch.diff demo.py notes.json
       seeded_eval.py run <id> [--tier quick] [--seeds 0,1]   # apply to /repo, run checks, undo

`confirm` verifies in a scratch worktree (outside /repo and /verif, removed afterwards) that
the patch applies to /repo's HEAD, that the unedited test-suite still passes with it, that
the demonstration fails with it and passes without it; on success the change is stored as
/verif/seeded/<id>/{patch.diff,demo.py,meta.json}.
`run` applies a stored patch to /repo's working tree, runs ./check for the property (and any
extra properties listed in meta.json "also"), records exit status / VIOLATION lines in
meta.json["results"], and ALWAYS restores /repo (git checkout -- .)."""
import json
import os
import shutil
import subprocess
import sys
import time

VERIF = os.path.dirname(os.path.dirname(os.path.abspath(__file__)))
REPO = '/repo'


def sh(cmd, cwd=None, timeout=3600):
    p = subprocess.run(cmd, cwd=cwd, capture_output=True, text=True, timeout=timeout)
    return p.returncode, p.stdout + p.stderr


def confirm(src, sid):
    notes = json.load(open(os.path.join(src, 'notes.json')))
    wt = '/tmp/seedcheck_%s_%d' % (sid, os.getpid())
    rc, out = sh(['git', '-C', REPO, 'worktree', 'add', '--detach', wt, 'HEAD'])
    if rc != 0:
        print('worktree failed', out)
        return False
    ok = False
    res = {}
    try:
        shutil.copy(os.path.join(src, 'demo.py'), os.path.join(wt, 'demo.py'))
        rc, out = sh(['/venv/bin/python', 'demo.py'], cwd=wt, timeout=900)
        res['demo_clean'] = rc
        rc_a, out_a = sh(['git', 'apply', '--whitespace=nowarn', os.path.join(src, 'patch.diff')],
                         cwd=wt)
        res['apply'] = rc_a
        if rc_a == 0:
            rc, out = sh(['/venv/bin/python', '-m', 'pytest', 'tests', '-q', '-p',
                          'no:cacheprovider', '--timeout=900'], cwd=wt, timeout=1800)
            res['tests'] = rc
            res['tests_tail'] = out.strip().split('\n')[-1]
            rc, out = sh(['/venv/bin/python', 'demo.py'], cwd=wt, timeout=900)
            res['demo_mutant'] = rc
            res['demo_mutant_out'] = out[-600:]
        ok = res.get('demo_clean') == 0 and res.get('apply') == 0 and res.get('tests') == 0 \
            and res.get('demo_mutant') not in (0, None)
    finally:
        sh(['git', '-C', REPO, 'worktree', 'remove', '--force', wt])
        shutil.rmtree(wt, ignore_errors=True)
    print(sid, 'CONFIRMED' if ok else 'REJECTED', json.dumps(res)[:400])
    if ok:
        dst = os.path.join(VERIF, 'seeded', sid)
        os.makedirs(dst, exist_ok=True)
        shutil.copy(os.path.join(src, 'patch.diff'), os.path.join(dst, 'patch.diff'))
        shutil.copy(os.path.join(src, 'demo.py'), os.path.join(dst, 'demo.py'))
        meta = {'id': sid, 'property': notes.get('property'), 'files': notes.get('files'),
                'what': notes.get('what'), 'needs': notes.get('needs'),
                'why_tests_pass': notes.get('why_tests_pass'),
                'confirmed': {'base_commit': sh(['git', '-C', REPO, 'rev-parse', 'HEAD'])[1].strip(),
                              'tests_with_change': res.get('tests_tail'),
                              'demo_without_change': 'exit 0',
                              'demo_with_change': 'exit %s' % res.get('demo_mutant'),
                              'ran': 'git apply patch.diff; python -m pytest tests -q; '
                                     'python demo.py (scratch worktree, removed afterwards)'},
                'results': {}}
        json.dump(meta, open(os.path.join(dst, 'meta.json'), 'w'), indent=1)
    return ok


def run_isolated(sid, tier='quick', seeds=(0,)):
    """Like run(), but never touches /repo or /verif's build: the change is applied in a scratch
    worktree and the checks run from a scratch copy of /verif with LBG_REPO pointing at it
    (used while other jobs need /repo and /verif/lean unchanged)."""
    dst = os.path.join(VERIF, 'seeded', sid)
    meta = json.load(open(os.path.join(dst, 'meta.json')))
    base = '/tmp/mut_eval'
    os.makedirs(base, exist_ok=True)
    vcopy = os.path.join(base, 'verif_%d' % os.getpid())     # one copy per run: runs may overlap
    sh(['rsync', '-a', '--delete', '--exclude', '.git', '--exclude', 'replays',
        VERIF + '/', vcopy + '/'])
    wt = os.path.join(base, 'repo_%s_%d' % (sid, os.getpid()))
    rc, out = sh(['git', '-C', REPO, 'worktree', 'add', '--detach', wt, 'HEAD'])
    if rc != 0:
        print('worktree failed', out)
        return
    props = [meta['property']] + meta.get('also', [])
    try:
        rc, out = sh(['git', 'apply', '--whitespace=nowarn', os.path.join(dst, 'patch.diff')],
                     cwd=wt)
        if rc != 0:
            print('patch does not apply:', out[-300:])
            return
        for prop in props:
            for seed in seeds:
                t0 = time.time()
                env = dict(os.environ, VERIF_SEED=str(seed), VERIF_TIER=tier, LBG_REPO=wt)
                p = subprocess.run([os.path.join(vcopy, 'check'), prop, '--tier', tier],
                                   cwd=vcopy, capture_output=True, text=True, env=env,
                                   timeout=7200)
                viol = [l for l in p.stdout.split('\n') if l.startswith('VIOLATION')]
                key = '%s/%s/seed%d' % (prop, tier, seed)
                meta['results'][key] = {
                    'exit': p.returncode, 'violations': viol[:3],
                    'found_input': bool(viol) and not all('no-failing-input-found' in v
                                                          for v in viol),
                    'wall_s': round(time.time() - t0, 1),
                    'tail': p.stdout.strip().split('\n')[-6:]}
                print(sid, key, 'exit', p.returncode, viol[:1])
    finally:
        sh(['git', '-C', REPO, 'worktree', 'remove', '--force', wt])
        shutil.rmtree(wt, ignore_errors=True)
        shutil.rmtree(vcopy, ignore_errors=True)
        json.dump(meta, open(os.path.join(dst, 'meta.json'), 'w'), indent=1)


def run(sid, tier='quick', seeds=(0,)):
    dst = os.path.join(VERIF, 'seeded', sid)
    meta = json.load(open(os.path.join(dst, 'meta.json')))
    rc, out = sh(['git', '-C', REPO, 'status', '--porcelain'])
    if out.strip():
        print('/repo is not clean; refusing')
        return
    props = [meta['property']] + meta.get('also', [])
    try:
        rc, out = sh(['git', '-C', REPO, 'apply', '--whitespace=nowarn',
                      os.path.join(dst, 'patch.diff')])
        if rc != 0:
            print('patch does not apply to /repo HEAD:', out[-300:])
            meta['results']['apply'] = 'failed'
            return
        for prop in props:
            for seed in seeds:
                t0 = time.time()
                env = dict(os.environ, VERIF_SEED=str(seed), VERIF_TIER=tier)
                p = subprocess.run([os.path.join(VERIF, 'check'), prop, '--tier', tier],
                                   cwd=VERIF, capture_output=True, text=True, env=env,
                                   timeout=7200)
                viol = [l for l in p.stdout.split('\n') if l.startswith('VIOLATION')]
                key = '%s/%s/seed%d' % (prop, tier, seed)
                meta['results'][key] = {
                    'exit': p.returncode, 'violations': viol[:3],
                    'found_input': bool(viol) and not all('no-failing-input-found' in v
                                                          for v in viol),
                    'wall_s': round(time.time() - t0, 1),
                    'tail': p.stdout.strip().split('\n')[-6:]}
                print(sid, key, 'exit', p.returncode, viol[:1])
    finally:
        sh(['git', '-C', REPO, 'checkout', '--', '.'])
        # evidence / generated model written while the change was applied describe the mutant
        sh(['git', '-C', VERIF, 'checkout', '--', 'evidence', 'lean/LbgVerif/Gen'])
        rc, out = sh(['git', '-C', REPO, 'status', '--porcelain'])
        if out.strip():
            print('WARNING: /repo not clean after restore:', out)
        json.dump(meta, open(os.path.join(dst, 'meta.json'), 'w'), indent=1)


if __name__ == '__main__':
    if sys.argv[1] == 'confirm':
        confirm(sys.argv[2], sys.argv[3])
    elif sys.argv[1] == 'run':
        tier = 'quick'
        seeds = (0,)
        for i, a in enumerate(sys.argv):
            if a == '--tier':
                tier = sys.argv[i + 1]
            if a == '--seeds':
                seeds = tuple(int(x) for x in sys.argv[i + 1].split(','))
        (run_isolated if '--isolated' in sys.argv else run)(sys.argv[2], tier, seeds)
