#!/venv/bin/python
"""Runs every claimed check for a range of seeds from a scratch copy of /verif (so that the
working tree can be edited meanwhile) and prints one line per (property, seed).

usage: sweep.py <first_seed> <last_seed> [quick|thorough] [Cxx ...]"""
import json
import os
import shutil
import subprocess
import sys
import time

VERIF = os.path.dirname(os.path.dirname(os.path.abspath(__file__)))


def main():
    a, b = int(sys.argv[1]), int(sys.argv[2])
    tier = sys.argv[3] if len(sys.argv) > 3 and sys.argv[3] in ('quick', 'thorough') else 'quick'
    props = [x for x in sys.argv[3:] if x.startswith('C')]
    if not props:
        props = [c['property_id'] for c in json.load(open(os.path.join(VERIF, 'MANIFEST.json')))['checks']]
    copy = '/tmp/sweep/verif_%d' % os.getpid()
    os.makedirs('/tmp/sweep', exist_ok=True)
    subprocess.run(['rsync', '-a', '--delete', '--exclude', '.git', '--exclude', 'replays',
                    VERIF + '/', copy + '/'], check=True)
    bad = 0
    try:
        for seed in range(a, b + 1):
            for p in props:
                t0 = time.time()
                env = dict(os.environ, VERIF_SEED=str(seed), VERIF_TIER=tier)
                r = subprocess.run([os.path.join(copy, 'check'), p, '--tier', tier], cwd=copy,
                                   capture_output=True, text=True, env=env, timeout=4 * 3600)
                viol = [l for l in r.stdout.split('\n') if l.startswith('VIOLATION')]
                print('%s seed=%d %s exit=%d %.0fs %s' % (p, seed, tier, r.returncode,
                                                          time.time() - t0, viol[:2]), flush=True)
                if r.returncode != 0:
                    bad += 1
                    keep = '/tmp/sweep/fail_%s_%d' % (p, seed)
                    os.makedirs(keep, exist_ok=True)
                    with open(os.path.join(keep, 'stdout.txt'), 'w') as f:
                        f.write(r.stdout[-20000:] + '\n' + r.stderr[-5000:])
                    rp = os.path.join(copy, 'replays')
                    if os.path.isdir(rp):
                        for fn in os.listdir(rp):
                            if fn.startswith('%s-%d-' % (p, seed)):
                                shutil.copy(os.path.join(rp, fn), keep)
    finally:
        shutil.rmtree(copy, ignore_errors=True)
    print('sweep done: %d non-zero exits' % bad)


if __name__ == '__main__':
    main()
