#!/usr/bin/env python3
"""Rewrites the generated blocks of DESIGN.md (between <!-- BEGIN:x --> / <!-- END:x -->):
findings (from known_findings.json + /repo's git log), seeded (from seeded/*/meta.json),
inventory (theorem counts per Props file, generated kernels, model files)."""
import json
import os
import re
import subprocess

HERE = os.path.dirname(os.path.abspath(__file__))
VERIF = os.path.dirname(HERE)


def block_findings():
    k = json.load(open(os.path.join(VERIF, 'known_findings.json')))
    log = subprocess.run(['git', '-C', '/repo', 'log', '--format=%h %s', '-n', '200'],
                         capture_output=True, text=True).stdout.strip().split('\n')
    fixes = [l for l in log if l.split(' ', 1)[1].startswith('fix:')]
    out = ['### 6.1 Repaired in /repo (%d `fix:` commits; the 488 tests pass after each)' % len(fixes),
           '', '| commit | message |', '|---|---|']
    for l in reversed(fixes):
        sha, msg = l.split(' ', 1)
        out.append('| %s | %s |' % (sha, msg.replace('|', '\\|')))
    out += ['', '### 6.2 `fixed:` entries of known_findings.json (what failed, by property)', '',
            '| property | commit | what failed |', '|---|---|---|']
    for e in k:
        if e['status'].startswith('fixed'):
            m = re.match(r'fixed: property=(\S+) (\S+) (.*)', e['status'], re.S)
            out.append('| %s | %s | %s |' % (m.group(1), m.group(2),
                                             m.group(3).replace('|', '\\|').replace('\n', ' ')))
    out += ['', '### 6.3 Open findings (genuine, not repaired; printed as KNOWN-FINDING on every run)',
            '', '| property | site | signature | what fails |', '|---|---|---|---|']
    for e in k:
        if e['status'] == 'open':
            out.append('| %s | %s | `%s` | %s |' % (
                e['property'], e.get('site', ''), e['signature'].replace('|', '\\|'),
                e['what'].replace('|', '\\|').replace('\n', ' ')))
    return '\n'.join(out)


def block_seeded():
    d = os.path.join(VERIF, 'seeded')
    out = ['| id | property | change (one line) | checks run → result |', '|---|---|---|---|']
    n = det = inp = 0
    for sid in sorted(os.listdir(d)):
        mp = os.path.join(d, sid, 'meta.json')
        if not os.path.exists(mp):
            continue
        m = json.load(open(mp))
        res = []
        caught = False
        found = False
        for key, r in sorted(m.get('results', {}).items()):
            if not isinstance(r, dict):
                continue
            if r['exit'] == 1:
                caught = True
                found = found or r.get('found_input')
                res.append('%s: VIOLATION%s' % (key, '' if r.get('found_input')
                                                else ' (no-failing-input-found)'))
            else:
                res.append('%s: exit %s' % (key, r['exit']))
        n += 1
        det += caught
        inp += bool(found)
        what = (m.get('what') or '').replace('|', '\\|').replace('\n', ' ')
        out.append('| %s | %s | %s | %s |' % (sid, m.get('property'), what[:260],
                                              '; '.join(res) or 'not run'))
    out.append('')
    out.append('%d changes, %d reported as violations, %d of them with a concrete failing input.'
               % (n, det, inp))
    return '\n'.join(out)


def block_inventory():
    lean = os.path.join(VERIF, 'lean', 'LbgVerif')
    out = ['| file | theorems | lines |', '|---|---|---|']
    tot = 0
    for sub in ('Props', 'Lemmas', 'Model', 'Spec'):
        for fn in sorted(os.listdir(os.path.join(lean, sub))):
            if not fn.endswith('.lean'):
                continue
            src = open(os.path.join(lean, sub, fn)).read()
            nt = len(re.findall(r'^\s*(?:private |protected )?(?:theorem|lemma)\s', src, re.M))
            tot += nt
            out.append('| %s/%s | %d | %d |' % (sub, fn, nt, src.count('\n')))
    rep = json.load(open(os.path.join(lean, 'Gen', 'gen_report.json')))['kernels']
    fns = set()
    for r in rep.values():
        fns.update(r.get('touched', {}))
    out.append('')
    out.append('%d theorems/lemmas in total; %d generated kernels covering %d distinct source '
               'functions (each hashed into the evidence).' % (tot, len(rep), len(fns)))
    return '\n'.join(out)


def main():
    p = os.path.join(VERIF, 'DESIGN.md')
    s = open(p).read()
    for name, fn in (('findings', block_findings), ('seeded', block_seeded),
                     ('inventory', block_inventory)):
        a, b = '<!-- BEGIN:%s -->' % name, '<!-- END:%s -->' % name
        if a in s and b in s:
            i, j = s.index(a) + len(a), s.index(b)
            s = s[:i] + '\n' + fn() + '\n' + s[j:]
    open(p, 'w').write(s)
    print('DESIGN.md tables refreshed')


if __name__ == '__main__':
    main()
