#!/usr/bin/env python3
"""Regenerates MANIFEST.json from the per-property table below (single source)."""
import json
import os

HERE = os.path.dirname(os.path.abspath(__file__))
VERIF = os.path.dirname(HERE)

# id -> (category, technique, text, level_note, design_ref)
CHECKS = {}
NOT_YET = {}


def claim(pid, category, technique, text, note, ref):
    CHECKS[pid] = (category, technique, text, note, ref)


exec(open(os.path.join(HERE, 'manifest_table.py')).read())

props = [json.loads(l) for l in open(os.path.join(VERIF, 'properties.jsonl'))]
checks = []
na = []
for p in props:
    pid = p['id']
    if pid in CHECKS:
        cat, tech, text, note, ref = CHECKS[pid]
        checks.append({
            'property_id': pid,
            'quick_cmd': './check %s --tier quick' % pid,
            'thorough_cmd': './check %s --tier thorough' % pid,
            'evidence_file': 'evidence/%s.json' % pid,
            'replay_cmd_template': './check %s --replay {path}' % pid,
            'engine': 'lean4-proof',
            'level_claimed': {'category': cat, 'text': text, 'design_ref': ref},
            'level_note': note,
            'technique': tech,
        })
    else:
        na.append({'property_id': pid, 'reason': NOT_YET.get(
            pid, 'check not built yet in this round (work in progress); see DESIGN.md section 4')})
m = {
    'version': 1,
    'setup_cmd': '/venv/bin/python tools/py2lean/gen.py --repo /repo && cd lean && lake build',
    'hooks': {
        'guard': 'LBG_VERIF',
        'enable': 'no source hooks are needed: the harness reads private slots from outside '
                  'and the translator reads the source; LBG_VERIF=1 is exported by ./check '
                  'for uniformity',
        'baseline_off_cmd': 'cd /repo && /venv/bin/python -m pytest -ra -q -p no:cacheprovider --timeout=900 --continue-on-collection-errors',
        'source_commits': [],
        'add_only': True,
    },
    'engines': [{
        'name': 'lean4-proof',
        'path': 'lean/',
        'serves_properties': sorted(CHECKS.keys()),
        'kind_free_text': 'Lean 4 theorems about a model regenerated from the source by the '
                          'py2lean symbolic translator (tools/py2lean) plus hand-written '
                          'models tied by a correspondence harness (tools/harness); '
                          './check drives regenerate -> lake build -> axiom audit -> '
                          'correspondence -> failing-input search',
    }],
    'checks': checks,
    'not_applicable': na,
    'notes': 'See DESIGN.md. Every check regenerates lean/LbgVerif/Gen from /repo first.',
}
with open(os.path.join(VERIF, 'MANIFEST.json'), 'w') as f:
    json.dump(m, f, indent=1)
print('MANIFEST.json: %d checks, %d not_applicable' % (len(checks), len(na)))
