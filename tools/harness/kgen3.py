"""Input generators for third-generation kernels (tools/py2lean/kernels3.py)."""
import kgen2
from kgen2 import _face, _face_args, _polygon, _tol     # noqa: F401
from lbg import Point2D, Point3D, Vector3D                # noqa: F401


def _face_verts_only(g, stream):
    r = g.rng
    c = r.random()
    if c < 0.1:
        return [g.value(('list', 'V3'), 'Point3D', stream, 'len>=0')]
    vs, pl = _face(g, stream)
    if c < 0.2:
        vs = [Point3D(v.x, v.y, v.z) for v in vs[:2]] + [Point3D(
            2 * vs[1].x - vs[0].x, 2 * vs[1].y - vs[0].y, 2 * vs[1].z - vs[0].z)]   # colinear
    return [vs]


def _face_any(extra=()):
    """(vertices, plane) where the vertex list may be too short for a face."""
    def gen(g, stream):
        if g.rng.random() < 0.1:
            vs = g.value(('list', 'V3'), 'Point3D', stream, 'len>=0')
            return [vs, g.value('PlaneS', 'Plane', stream)] + [f(g, stream) for f in extra]
        vs, pl = _face(g, stream)
        return [vs, pl] + [f(g, stream) for f in extra]
    return gen


GENERATORS = {
    'face3d_plane_from_vertices': _face_verts_only,
    'face3d_init': _face_verts_only,
    'face3d_init_plane': _face_any(),
    'face3d_init_plane_noenforce': _face_any(),
}
for _nm in ('flip', 'plane', 'boundary', 'vertices', 'copy', 'to_array'):
    GENERATORS['face3d_' + _nm] = _face_args()
GENERATORS['face3d_move'] = _face_args([lambda g, s: g.value('V3', 'Vector3D', s)])
GENERATORS['face3d_scale'] = _face_args([lambda g, s: g.value('S', None, s, 'factor'),
                                         lambda g, s: g.value('V3', 'Point3D', s)])
GENERATORS['face3d_rotate_xy'] = _face_args([lambda g, s: g.value('S', None, s, 'angle'),
                                             lambda g, s: g.value('V3', 'Point3D', s)])
GENERATORS['face3d_rotate'] = _face_args([lambda g, s: g.value('V3', 'Vector3D', s, 'nonzero'),
                                          lambda g, s: g.value('S', None, s, 'angle'),
                                          lambda g, s: g.value('V3', 'Point3D', s)])
GENERATORS['face3d_reflect'] = _face_args([lambda g, s: g.value('V3', 'Vector3D', s, 'unit'),
                                           lambda g, s: g.value('V3', 'Point3D', s)])


def _offdist(g, stream):
    r = g.rng
    if r.random() < 0.08:
        return 0.0
    # lattice distances are odd multiples of 1/32: twice such a distance is never a lattice
    # width (multiples of 1/4), so an inward offset never collapses to exactly zero width
    return r.choice([-1, 1]) * (r.choice([0.15625, 0.28125, 0.53125]) if stream == 'lattice'
                                else r.uniform(0.02, 0.6))


def _offset_poly(g, stream):
    vs = _polygon(g, stream)
    if g.rng.random() < 0.2:       # a duplicated vertex (filtered by offset)
        i = g.rng.randrange(len(vs))
        vs = vs[:i] + [Point2D(vs[i].x, vs[i].y)] + vs[i:]
    return vs


def _no_collapse_tie(gen):
    """Reject (polygon, distance) pairs whose narrowest bounding extent is within 2% of twice the
    offset distance: there the inward offset collapses to zero width and whether the library
    answers None is decided by rounding (a tie, not a disagreement)."""
    def wrapped(g, stream):
        for _ in range(30):
            args = gen(g, stream)
            vs, d = args[0], abs(args[-1])
            w = min(max(p.x for p in vs) - min(p.x for p in vs),
                    max(p.y for p in vs) - min(p.y for p in vs))
            if abs(w - 2 * d) > 0.02 * max(w, 2 * d, 1e-9):
                return args
        return args
    return wrapped


GENERATORS['polygon2d_offset'] = lambda g, s: [_offset_poly(g, s), _offdist(g, s)]
GENERATORS['polygon2d_offset_check'] = _no_collapse_tie(
    lambda g, s: [_offset_poly(g, s), _offdist(g, s)])
GENERATORS['polygon2d_perimeter_core_by_offset'] = _no_collapse_tie(
    lambda g, s: [_offset_poly(g, s), abs(_offdist(g, s))])
GENERATORS['polyline2_offset'] = lambda g, s: [_offset_poly(g, s), g.rng.random() < 0.5,
                                               _offdist(g, s)]


def _boundary_hole(g, stream):
    """A boundary polygon and a (usually smaller, inner) hole polygon."""
    b = _polygon(g, stream)
    r = g.rng
    n = float(len(b))
    cx, cy = sum(v.x for v in b) / n, sum(v.y for v in b) / n
    if r.random() < 0.7:
        k = r.choice([0.25, 0.5])
        h = [Point2D(cx + (v.x - cx) * k, cy + (v.y - cy) * k) for v in b]
        if r.random() < 0.5:
            h.reverse()
        j = r.randrange(len(h))
        h = h[j:] + h[:j]
    else:
        h = _polygon(g, stream)
    return [list(b), list(h)]


GENERATORS['polygon2d_from_shape_with_hole'] = _boundary_hole
