"""Shared harness code: Lean driver client, exact wire encoding, real-object construction,
comparison within the properties' tolerance, evidence and violation protocol."""
import importlib
import json
import math
import os
import random
import subprocess
import sys
import tempfile
import time
from fractions import Fraction

VERIF = os.path.abspath(os.path.join(os.path.dirname(__file__), '..', '..'))
LEAN_DIR = os.path.join(VERIF, 'lean')
sys.path.insert(0, os.path.join(VERIF, 'tools', 'py2lean'))

from ladybug_geometry.geometry2d.pointvector import Point2D, Vector2D   # noqa: E402
from ladybug_geometry.geometry3d.pointvector import Point3D, Vector3D   # noqa: E402
from ladybug_geometry.geometry2d.line import LineSegment2D              # noqa: E402
from ladybug_geometry.geometry2d.ray import Ray2D                       # noqa: E402
from ladybug_geometry.geometry3d.line import LineSegment3D              # noqa: E402
from ladybug_geometry.geometry3d.ray import Ray3D                       # noqa: E402
from ladybug_geometry.geometry3d.plane import Plane                     # noqa: E402
from ladybug_geometry.geometry2d.arc import Arc2D                       # noqa: E402
from ladybug_geometry.geometry3d.arc import Arc3D                       # noqa: E402
from ladybug_geometry.geometry3d.sphere import Sphere                   # noqa: E402
from ladybug_geometry.geometry3d.cone import Cone                       # noqa: E402
from ladybug_geometry.geometry3d.cylinder import Cylinder               # noqa: E402

import mtypes  # noqa: E402
STRUCT_SLOTS = dict((k, [(slot, ft) for (f, ft, slot, c) in v])
                    for k, v in mtypes.STRUCTS.items())


from tyspec import parse_type  # noqa: E402,F401


# ------------------------------------------------------------------ exact numbers
def fr(x):
    """Exact rational of a python number."""
    if isinstance(x, Fraction):
        return x
    if isinstance(x, bool):
        return Fraction(int(x))
    if isinstance(x, int):
        return Fraction(x)
    if isinstance(x, float):
        if x != x or x in (float('inf'), float('-inf')):
            raise ValueError('non-finite float')
        return Fraction(x)
    raise TypeError('not a number: %r' % (x,))


def wnum(x):
    f = fr(x)
    if f.denominator == 1:
        return str(f.numerator)
    return '%d/%d' % (f.numerator, f.denominator)


def rnum(s):
    if isinstance(s, (int, float)):
        return Fraction(s)
    return Fraction(s)


# ------------------------------------------------------------------ wire encoding
def to_wire(v, t):
    """Real python value -> wire JSON of model type t (reads private slots)."""
    t = parse_type(t)
    if t == 'S':
        return wnum(v)
    if t == 'B':
        return bool(v)
    if t in ('N', 'I'):
        return int(v)
    if t == 'X':
        return True
    if isinstance(t, str):
        return [to_wire(getattr(v, slot), ft) for (slot, ft) in STRUCT_SLOTS[t]]
    if t[0] == 'opt':
        return None if v is None else to_wire(v, t[1])
    if t[0] == 'list':
        return [to_wire(x, t[1]) for x in v]
    if t[0] == 'tup':
        items = [to_wire(x, tt) for x, tt in zip(v, t[1:])]
        return nest(items)
    raise ValueError(t)


def nest(items):
    if len(items) <= 2:
        return list(items)
    return [items[0], nest(items[1:])]


def unnest(j, n):
    out = []
    for i in range(n - 1):
        out.append(j[0])
        j = j[1]
        if i == n - 2:
            out.append(j)
    if n == 1:
        return [j]
    if n == 2:
        return out[:2]
    return out


def canon_real(v, t):
    """Real result -> canonical tree of Fractions / bools / None / lists."""
    t = parse_type(t)
    if t == 'S':
        return fr(v)
    if t == 'B':
        if not isinstance(v, bool):
            raise TypeError('expected bool result, got %r' % (v,))
        return v
    if t in ('N', 'I'):
        return int(v)
    if t == 'X':
        return True
    if isinstance(t, str):
        if isinstance(v, (tuple, list)):
            return [fr(x) for x in v]
        if not all(hasattr(v, slot) for (slot, ft) in STRUCT_SLOTS[t]):
            raise TypeError('%r is not a %s' % (v, t))
        return [canon_real(getattr(v, slot), ft) for (slot, ft) in STRUCT_SLOTS[t]]
    if t[0] == 'opt':
        return None if v is None else canon_real(v, t[1])
    if t[0] == 'list':
        return [canon_real(x, t[1]) for x in v]
    if t[0] == 'ptlist':
        if v is None:
            return []
        if not isinstance(v, (tuple, list)):
            v = [v]
        return [canon_real(x, t[1]) for x in v]
    if t[0] == 'tup':
        if not isinstance(v, (tuple, list)) or len(v) != len(t) - 1:
            raise TypeError('expected %d-tuple' % (len(t) - 1))
        return [canon_real(x, tt) for x, tt in zip(v, t[1:])]
    if t[0] == 'sum':
        try:
            return ['inl', canon_real(v, t[1])]
        except (TypeError, AttributeError, ValueError):
            return ['inr', canon_real(v, t[2])]
    raise ValueError(t)


def canon_wire(j, t):
    """Model answer -> the same canonical form."""
    t = parse_type(t)
    if t == 'S':
        return rnum(j)
    if t == 'B':
        return bool(j)
    if t in ('N', 'I'):
        return int(j)
    if t == 'X':
        return True
    if isinstance(t, str):
        return [canon_wire(x, ft) for x, (slot, ft) in zip(j, STRUCT_SLOTS[t])]
    if t[0] == 'opt':
        return None if j is None else canon_wire(j, t[1])
    if t[0] in ('list', 'ptlist'):
        return [canon_wire(x, t[1]) for x in j]
    if t[0] == 'tup':
        items = unnest(j, len(t) - 1)
        return [canon_wire(x, tt) for x, tt in zip(items, t[1:])]
    if t[0] == 'sum':
        if 'inl' in j:
            return ['inl', canon_wire(j['inl'], t[1])]
        return ['inr', canon_wire(j['inr'], t[2])]
    raise ValueError(t)


def flat_numbers(c):
    if isinstance(c, Fraction):
        return [c]
    if isinstance(c, (list, tuple)):
        out = []
        for x in c:
            out.extend(flat_numbers(x))
        return out
    return []


def same_shape(a, b):
    """Discrete agreement: None-ness, booleans, list lengths, integers."""
    if isinstance(a, Fraction) and isinstance(b, Fraction):
        return True
    if isinstance(a, bool) or isinstance(b, bool) or a is None or b is None or \
            isinstance(a, int) or isinstance(b, int):
        return a == b and type(a) == type(b)
    if isinstance(a, str) or isinstance(b, str):
        return a == b
    if isinstance(a, (list, tuple)) and isinstance(b, (list, tuple)):
        return len(a) == len(b) and all(same_shape(x, y) for x, y in zip(a, b))
    return False


def max_diff(a, b):
    fa, fb = flat_numbers(a), flat_numbers(b)
    if not fa:
        return Fraction(0)
    return max(abs(x - y) for x, y in zip(fa, fb))


# ------------------------------------------------------------------ driver client
class Driver(object):
    """Batch client for the Lean driver (`lake env lean --run Driver.lean`)."""

    def __init__(self):
        self.calls = 0
        self.wall = 0.0

    def run(self, requests, timeout=3000):
        """requests: list of (op, args).  Returns list of (ok, val_or_err)."""
        if not requests:
            return []
        t0 = time.time()
        with tempfile.NamedTemporaryFile('w', suffix='.jsonl', delete=False,
                                         dir=scratch_dir()) as f:
            for i, (op, args) in enumerate(requests):
                f.write(json.dumps({'id': i, 'op': op, 'args': args}) + '\n')
            path = f.name
        try:
            with open(path) as fin:
                p = subprocess.run(['lake', 'env', 'lean', '--run', 'Driver.lean'],
                                   cwd=LEAN_DIR, stdin=fin, capture_output=True,
                                   text=True, timeout=timeout)
        finally:
            os.unlink(path)
        if p.returncode != 0:
            raise DriverError('driver exit %d: %s' % (p.returncode,
                                                      (p.stderr or p.stdout)[-2000:]))
        out = [None] * len(requests)
        for line in p.stdout.splitlines():
            line = line.strip()
            if not line.startswith('{'):
                continue
            j = json.loads(line)
            if j.get('id') is None:
                continue
            out[j['id']] = (j['ok'], j.get('val') if j['ok'] else j.get('err'))
        if any(o is None for o in out):
            raise DriverError('driver answered %d of %d requests: %s' % (
                sum(o is not None for o in out), len(out), p.stderr[-1000:]))
        self.calls += len(requests)
        self.wall += time.time() - t0
        return out


class DriverError(Exception):
    pass


def scratch_dir():
    d = os.path.join(VERIF, '.scratch')
    os.makedirs(d, exist_ok=True)
    return d


# ------------------------------------------------------------------ generators
class Gen(object):
    """All random choices derive from one PRNG seeded by VERIF_SEED."""

    def __init__(self, seed, salt=''):
        self.rng = random.Random('%s/%s' % (seed, salt))

    # scalar streams
    def lattice(self, lo=-8, hi=8, denom=4):
        return self.rng.randint(lo * denom, hi * denom) / float(denom)

    def real(self, mag=1e3):
        r = self.rng
        m = r.choice([1.0, 10.0, mag])
        return r.uniform(-m, m)

    def scalar(self, stream):
        return self.lattice() if stream == 'lattice' else self.real()

    def angle(self, stream):
        r = self.rng
        if stream == 'lattice':
            return r.randint(-16, 16) * math.pi / 8
        return r.uniform(-4 * math.pi, 4 * math.pi)

    def unit3(self, stream='real'):
        r = self.rng
        if stream == 'lattice':
            # only exactly representable unit vectors: the lattice stream must keep
            # double arithmetic exact
            return r.choice([Vector3D(1, 0, 0), Vector3D(0, 1, 0), Vector3D(0, 0, 1),
                             Vector3D(-1, 0, 0), Vector3D(0, -1, 0), Vector3D(0, 0, -1)])
        while True:
            v = Vector3D(r.gauss(0, 1), r.gauss(0, 1), r.gauss(0, 1))
            if v.magnitude > 1e-3:
                return v.normalize()

    def unit2(self, stream='real'):
        r = self.rng
        if stream == 'lattice':
            return r.choice([Vector2D(1, 0), Vector2D(0, 1), Vector2D(-1, 0),
                             Vector2D(0, -1)])
        a = r.uniform(0, 2 * math.pi)
        return Vector2D(math.cos(a), math.sin(a)).normalize()

    def value(self, t, pycls, stream, hint=None):
        """Random real object for model type t / python class pycls."""
        t = parse_type(t)
        r = self.rng
        s = lambda: self.scalar(stream)     # noqa: E731
        if hint == 'convexquad' and isinstance(t, tuple) and t[0] == 'tup':
            # convex quad with random shape, counter-clockwise or clockwise
            while True:
                angs = sorted(r.uniform(0, 2 * math.pi) for _ in range(4))
                if min(b - a for a, b in zip(angs, angs[1:] + [angs[0] + 2 * math.pi])) > 0.3 \
                        and max(b - a for a, b in zip(angs, angs[1:] + [angs[0] + 2 * math.pi])) < 2.8:
                    break
            if stream == 'lattice':
                base = r.choice([[(0, 0), (4, 0), (3, 2), (0, 1)], [(0, 0), (2, 0), (2, 2), (0, 2)],
                                 [(1, 0), (5, 1), (4, 4), (0, 2)], [(0, 0), (3, 0), (5, 3), (1, 2)]])
                pts2 = [Point2D(float(x), float(y)) for x, y in base]
            else:
                rad = r.uniform(0.5, 20)
                cx, cy = s(), s()
                pts2 = [Point2D(cx + rad * r.uniform(0.6, 1.0) * math.cos(a),
                                cy + rad * r.uniform(0.6, 1.0) * math.sin(a)) for a in angs]
                # radial jitter may break convexity: fall back to the circle points
                poly = None
                from ladybug_geometry.geometry2d.polygon import Polygon2D
                if not Polygon2D(pts2).is_convex:
                    pts2 = [Point2D(cx + rad * math.cos(a), cy + rad * math.sin(a))
                            for a in angs]
            if r.random() < 0.5:
                pts2.reverse()
            if t[1] == 'V2':
                return tuple(pts2)
            pl = self.value('PlaneS', 'Plane', 'lattice' if stream == 'lattice' else 'real')
            return tuple(pl.xy_to_xyz(q) for q in pts2)
        if isinstance(t, tuple) and t[0] == 'tup':
            pcs = pycls if isinstance(pycls, (tuple, list)) else [pycls] * (len(t) - 1)
            return tuple(self.value(tt, pc, stream) for tt, pc in zip(t[1:], pcs))
        if t == 'BP':
            if pycls and pycls.endswith('_Node'):
                from ladybug_geometry.triangulation import _Node
                return _Node(0, s(), s())
            from ladybug_geometry.boolean import BooleanPoint
            return BooleanPoint(s(), s())
        if hint == 'unit':
            return self.unit2(stream) if t == 'V2' else self.unit3(stream)
        if hint == 'nonzerocoords':
            while True:
                v = self.value(t, pycls, stream)
                if all(c != 0 for c in v):
                    return v
        if hint == 'nonzero':
            while True:
                v = self.value(t, pycls, stream)
                if v.magnitude_squared != 0:
                    return v
        if hint == 'angle':
            return self.angle(stream)
        if hint == 'angle_generic':
            return r.uniform(-4 * math.pi, 4 * math.pi)
        if hint == 'arcangle':
            if stream == 'lattice':
                return r.randint(0, 16) * math.pi / 8
            return r.uniform(0, 2 * math.pi)
        if hint == 'factor':
            f = r.choice([0.25, 0.5, 2.0, 3.0, -1.5]) if stream == 'lattice' else \
                r.choice([-1, 1]) * r.uniform(0.05, 20)
            return f
        if hint == 'posfactor':
            return r.choice([0.25, 0.5, 2.0, 3.0]) if stream == 'lattice' else \
                r.uniform(0.05, 20)
        if hint == 'pos':
            return abs(s()) + 0.25
        if hint == 'dist':
            return r.choice([0.0, 0.25, 1.0, 4.0, 16.0]) if stream == 'lattice' else \
                r.uniform(0, 30)
        if hint == 'tol':
            return r.choice([0.0, 0.25, 1.0, 1e-3, 0.01])
        if hint == 'unitinterval':
            return r.randint(0, 8) / 8.0 if stream == 'lattice' else r.random()
        if t == 'S':
            return s()
        if t == 'B':
            return r.random() < 0.5
        if t == 'V2':
            cls = Point2D if pycls == 'Point2D' else Vector2D
            return cls(s(), s())
        if t == 'V3':
            cls = Point3D if pycls == 'Point3D' else Vector3D
            return cls(s(), s(), s())
        if t == 'LR2':
            cls = LineSegment2D if pycls == 'LineSegment2D' else Ray2D
            while True:
                v = Vector2D(s(), s())
                if v.magnitude_squared != 0 or r.random() < 0.02:
                    break
            return cls(Point2D(s(), s()), v)
        if t == 'LR3':
            cls = LineSegment3D if pycls == 'LineSegment3D' else Ray3D
            while True:
                v = Vector3D(s(), s(), s())
                if v.magnitude_squared != 0 or r.random() < 0.02:
                    break
            return cls(Point3D(s(), s(), s()), v)
        if t == 'PlaneS':
            n = self.unit3(stream)
            if stream != 'lattice' and r.random() < 0.15:
                n = r.choice([Vector3D(0, 0, 1), Vector3D(0, 0, -1), Vector3D(1, 0, 0),
                              Vector3D(1e-7, 0, 1).normalize()])
            o = Point3D(s(), s(), s())
            if r.random() < 0.4:
                # user-supplied x axis orthogonal to n
                while True:
                    w = self.unit3('real')
                    x = n.cross(w)
                    if x.magnitude > 1e-3:
                        break
                return Plane(n, o, x.normalize())
            return Plane(n, o)
        if t == 'Arc2S':
            c = Point2D(s(), s())
            rad = abs(s()) + 0.25
            if r.random() < 0.2:
                return Arc2D(c, rad)
            two_pi = 2 * math.pi
            if stream == 'lattice':
                a1 = r.randint(0, 15) * math.pi / 8
                a2 = r.randint(0, 15) * math.pi / 8
                if a1 == a2:
                    a2 = (a1 + math.pi / 8) % two_pi
            else:
                a1 = r.uniform(0, two_pi)
                a2 = r.uniform(0, two_pi)
            return Arc2D(c, rad, a1, a2)
        if t == 'Arc3S':
            pl = self.value('PlaneS', 'Plane', stream)
            a = self.value('Arc2S', 'Arc2D', stream)
            return Arc3D(pl, a.r, a.a1, a.a2)
        if isinstance(t, tuple) and t[0] == 'list' and (
                t[1] not in ('V2', 'V3') or (hint or '').startswith('len')):
            # generic list: hint 'len>=K' / 'len>=K;<element hint>' (default K = 0: the
            # empty list is drawn too, it exercises the IndexError / ValueError paths)
            lo, ehint = 0, None
            if hint:
                head, _, ehint = hint.partition(';')
                lo = int(head[len('len>='):])
                ehint = ehint or None
            n = lo + r.choice([0, 0, 1, 1, 2, 2, 3, 4, 6])
            return [self.value(t[1], pycls, stream, ehint) for _ in range(n)]
        if t == 'I':
            return r.randint(-5, 9)
        if isinstance(t, tuple) and t[0] == 'list' and t[1] in ('V2', 'V3'):
            if t[1] == 'V2':
                return list(self.value('Poly2C', 'Polygon2D', stream).vertices)
            pl = self.value('PlaneS', 'Plane', 'real')
            return [pl.xy_to_xyz(v) for v in self.value('Poly2C', 'Polygon2D', stream).vertices]
        if t == 'Poly2C':
            from ladybug_geometry.geometry2d.polygon import Polygon2D
            n = r.randint(3, 9)
            cx, cy = s(), s()
            angs = sorted(r.sample(range(20 if stream == 'lattice' else 32), n))
            pts = []
            for a in angs:
                rad = r.choice([1.0, 2.0, 3.0, 1.5]) if stream == 'lattice' else \
                    r.uniform(0.5, 5.0)
                if stream == 'lattice':
                    # dyadic points on a coarse "star" so that arithmetic stays exact
                    dx, dy = [(4, 0), (4, 1), (3, 2), (2, 3), (1, 4), (0, 4), (-1, 4), (-2, 3),
                              (-3, 2), (-4, 1), (-4, 0), (-4, -1), (-3, -2), (-2, -3),
                              (-1, -4), (0, -4), (1, -4), (2, -3), (3, -2), (4, -1)][a % 20]
                    pts.append(Point2D(cx + dx * rad / 2, cy + dy * rad / 2))
                else:
                    t_ = 2 * math.pi * a / 32
                    pts.append(Point2D(cx + rad * math.cos(t_), cy + rad * math.sin(t_)))
            if r.random() < 0.5:
                pts.reverse()
            poly = Polygon2D(pts)
            for prop in ('area', 'is_clockwise', 'perimeter', 'is_convex', 'min', 'center',
                         'segments', 'is_self_intersecting', 'inside_angles'):
                if r.random() < 0.4:
                    getattr(poly, prop)
            return poly
        if t == 'SphereS':
            return Sphere(Point3D(s(), s(), s()), abs(s()) + 0.25)
        if t == 'ConeS':
            ax = self.unit3(stream)
            h = abs(s()) + 0.5
            return Cone(Point3D(s(), s(), s()), ax * h, r.uniform(0.1, 1.3))
        if t == 'CylS':
            ax = self.unit3(stream)
            h = abs(s()) + 0.5
            return Cylinder(Point3D(s(), s(), s()), ax * h, abs(s()) + 0.25)
        raise ValueError('no generator for %r' % (t,))


# ------------------------------------------------------------------ preconditions
def _planes_not_parallel(args):
    pls = [a for a in args if isinstance(a, Plane)]
    if len(pls) < 2:
        return True
    return pls[0].n.cross(pls[1].n).magnitude > 1e-3


def _line_not_parallel_to_plane(args):
    pl = [a for a in args if isinstance(a, Plane)]
    ln = [a for a in args if isinstance(a, (LineSegment3D, Ray3D))]
    if not pl or not ln or ln[0].v.magnitude == 0:
        return True
    return abs(pl[0].n.dot(ln[0].v.normalize())) > 1e-3


def _lines_not_parallel(args):
    ln = [a for a in args if isinstance(a, (LineSegment2D, Ray2D))]
    if len(ln) < 2 or ln[0].v.magnitude == 0 or ln[1].v.magnitude == 0:
        return True
    return abs(ln[0].v.normalize().determinant(ln[1].v.normalize())) > 1e-3


PRECONDITIONS = {'planes_not_parallel': _planes_not_parallel,
                 'line_not_parallel_to_plane': _line_not_parallel_to_plane,
                 'lines_not_parallel': _lines_not_parallel}


def find_real_class(name):
    """Class of the library by bare name (searched in the modules the kernels use)."""
    for mn in ('geometry2d.pointvector', 'geometry3d.pointvector', 'geometry2d.line',
               'geometry2d.ray', 'geometry3d.line', 'geometry3d.ray', 'geometry3d.plane',
               'geometry2d.polygon', 'geometry2d.polyline', 'geometry3d.polyline',
               'geometry3d.face', 'geometry2d.mesh', 'geometry3d.mesh',
               'geometry3d.polyface', 'boolean', 'triangulation', 'geometry2d.arc',
               'geometry3d.arc', 'geometry3d.sphere', 'geometry3d.cone',
               'geometry3d.cylinder'):
        mod = importlib.import_module('ladybug_geometry.' + mn)
        if hasattr(mod, name):
            return getattr(mod, name)
    raise AttributeError(name)


# ------------------------------------------------------------------ real-side calls
def resolve_real(target, ctor=False):
    """'intersection2d.intersect_line2d' | 'geometry2d.pointvector:Vector2D.dot'
    -> (callable taking the kernel's positional args)."""
    if ':' in target:
        modname, rest = target.split(':')
        mod = importlib.import_module('ladybug_geometry.' + modname)
        clsname, meth = rest.split('.')
        cls = getattr(mod, clsname)
        if ctor:
            return cls
        if meth.startswith('__') and not meth.endswith('__'):
            # private member: find the defining class for the mangled name
            for c in cls.__mro__:
                nm = '_' + c.__name__.lstrip('_') + meth
                if nm in c.__dict__:
                    meth = nm
                    break
        raw = None
        for c in cls.__mro__:
            if meth in c.__dict__:
                raw = c.__dict__[meth]
                break
        if raw is None:
            raise AttributeError(target)
        if isinstance(raw, property):
            return lambda self: raw.fget(self)
        if isinstance(raw, staticmethod):
            return raw.__func__
        if isinstance(raw, classmethod):
            return lambda *a, **k: raw.__func__(cls, *a, **k)
        return raw
    modname, fn = target.rsplit('.', 1)
    mod = importlib.import_module('ladybug_geometry.' + modname)
    return getattr(mod, fn)


ERR_KINDS = {AssertionError: 'assert', ZeroDivisionError: 'zero_div', ValueError: 'value',
             TypeError: 'type', IndexError: 'index', AttributeError: 'attr'}


def call_real(f, args, kwargs=None):
    try:
        return ('ok', f(*args, **(kwargs or {})))
    except tuple(ERR_KINDS.keys()) as e:
        for k, v in ERR_KINDS.items():
            if isinstance(e, k):
                return ('err', v)
        return ('err', 'other')


# ------------------------------------------------------------------ evidence
def write_json(path, obj):
    os.makedirs(os.path.dirname(path), exist_ok=True)
    tmp = path + '.tmp'
    with open(tmp, 'w') as f:
        json.dump(_strkeys(obj), f, indent=1, sort_keys=True, default=_json_default)
    os.replace(tmp, path)


def _strkeys(o):
    """dict keys as strings (mixed int/str keys cannot be sorted by json.dump)."""
    if isinstance(o, dict):
        return {(k if isinstance(k, str) else repr(k)): _strkeys(v) for k, v in o.items()}
    if isinstance(o, (list, tuple)):
        return [_strkeys(v) for v in o]
    return o


def _json_default(o):
    if isinstance(o, Fraction):
        return wnum(o)
    if isinstance(o, (set, frozenset)):
        return sorted(o)
    return repr(o)
