"""C11 - intersection results lie on both operands and none are missed (composite level).

Routines driven on the real classes (both operand orders where both exist):
  2D  LineSegment2D/Ray2D.intersect_line_ray, Polygon2D / Polyline2D.intersect_line_ray and
      .intersect_line_infinite, Arc2D.intersect_line_ray / .intersect_line_infinite
  3D  Plane.intersect_line_ray <-> LineSegment3D/Ray3D.intersect_plane, Polyline3D.intersect_plane,
      Plane.intersect_plane (both orders), Plane.intersect_arc <-> Arc3D.intersect_plane,
      Sphere.intersect_line_ray / .intersect_plane, Face3D.intersect_line_ray / .intersect_plane,
      Polyface3D.intersect_line_ray / .intersect_plane

Oracle: the true configuration is decided in exact rational arithmetic on the float inputs
(roots of the circle / sphere quadratics to 30 digits; arc spans with libm atan2):
  soundness     every returned point / segment lies on both operands and inside their
                parameter ranges / angular span / face region within 1e-9 x magnitude
                (sphere: an end point produced by clamping lies in the closed ball)
  completeness  a transversal crossing well inside both ranges is returned (matched by
                position), and nothing is returned for exactly separated operands;
                configurations within the degenerate band are excluded from this half only
  symmetry      swapping the operands gives the same result
"""
import math
import random
import time
from fractions import Fraction as F

from ladybug_geometry.geometry2d.pointvector import Point2D, Vector2D
from ladybug_geometry.geometry2d.ray import Ray2D
from ladybug_geometry.geometry2d.line import LineSegment2D
from ladybug_geometry.geometry2d.arc import Arc2D
from ladybug_geometry.geometry2d.polyline import Polyline2D
from ladybug_geometry.geometry2d.polygon import Polygon2D
from ladybug_geometry.geometry3d.pointvector import Point3D, Vector3D
from ladybug_geometry.geometry3d.ray import Ray3D
from ladybug_geometry.geometry3d.line import LineSegment3D
from ladybug_geometry.geometry3d.arc import Arc3D
from ladybug_geometry.geometry3d.polyline import Polyline3D
from ladybug_geometry.geometry3d.plane import Plane
from ladybug_geometry.geometry3d.face import Face3D
from ladybug_geometry.geometry3d.polyface import Polyface3D
from ladybug_geometry.geometry3d.sphere import Sphere

from . import hxlib as hx

TOL = 1e-9
# completeness half: below this |sin| the position of the crossing point is not determined
# to 1e-9 x magnitude in double precision (error ~ 2^-52 x magnitude / sin), and
# intersect_line_segment2d deliberately returns None when its two evaluations disagree
SIN_MIN = 1e-6
TWO_PI = 2 * math.pi
ASSUMPTIONS = [
    'operands are non-degenerate (direction vectors >= 0.05 long, radii >= 0.05, arcs spanning '
    '0.2 .. 2pi-0.2 rad or full circles, valid simple faces); coordinates up to 1e3',
    'completeness half only when: |sin(angle between the operands)| >= 1e-6 (the property says '
    '1e-9; between 1e-9 and 1e-6 the crossing point is not determined to 1e-9 x magnitude in '
    'double precision and LineSegment2D.intersect_line_ray documents that it gives up), the '
    'crossing parameter is farther than max(1e-9, 1e-9 x magnitude / (|v| sin)) from a range '
    'end, the crossing point is farther than that from a face edge / arc end, circle and '
    'sphere crossings have sin^2 >= max(1e-12, 1e-13 x magnitude^2 / r^2) (the quadratic is '
    'evaluated from squared coordinates), cutting planes meet face / arc planes with '
    'sin >= 1e-2 (plane-plane point is conditioned by 1/sin^2)',
    'plane pairs (plane/plane, plane/arc plane, plane/face plane) with 0 < sin < 1e-3 are out '
    'of scope for both halves (the common point is conditioned by 1/sin^2; planes parallel up '
    'to one ulp make Plane.intersect_arc divide by zero)',
    'Face3D.intersect_line_ray: crossings whose (1, 1e-5) containment test ray passes within '
    '1e-9 of a face vertex are excluded (documented fringe case, property C08)',
    'a tangent line/arc result may be a bare point instead of a list (both accepted)',
]
TRUSTED = [
    'C11 composite oracle is a Python Fraction implementation; arc spans use libm '
    'atan2 in double precision with a 1e-9 margin; no Lean executable specification here',
]


# ------------------------------------------------------------------ exact line-likes
def u_status(u, kind, margin):
    """'in' / 'out' / 'edge' of the parameter u for kind seg [0,1], ray [0,inf), line."""
    if kind == 'line':
        return 'in'
    if u < -margin:
        return 'out'
    if u < margin:
        return 'edge'
    if kind == 'ray':
        return 'in'
    if u > 1 + margin:
        return 'out'
    if u > 1 - margin:
        return 'edge'
    return 'in'


def lr_d2(pt, p, v, kind):
    """exact squared distance of pt to the segment / ray / line p + t v"""
    t = hx.dot(hx.sub(pt, p), v) / hx.n2(v)
    if kind != 'line':
        if t < 0:
            t = F(0)
        elif kind == 'seg' and t > 1:
            t = F(1)
    return hx.n2(hx.sub(pt, hx.add(p, hx.mul(v, t))))


def kind_of(obj):
    return 'ray' if isinstance(obj, (Ray2D, Ray3D)) else 'seg'


def fsq(x):
    return math.sqrt(float(x))


def pstr(p):
    return '(%s)' % ', '.join('%.12g' % float(c) for c in p)


class Case(object):
    def __init__(self, site, variant, scale):
        self.site, self.variant, self.scale = site, variant, scale
        self.tol = TOL * scale
        self.out = []
        self.ambiguous = False

    def fail(self, clause, detail, site=None):
        v = ('|' + self.variant) if self.variant else ''
        self.out.append(('%s%s|%s' % (site or self.site, v, clause), detail))


def as_list(res):
    if res is None:
        return []
    if isinstance(res, (Point2D, Point3D)):
        return [res]
    return list(res)


def match_points(cs, expected, got, tol, what, exact_count):
    """every expected point is among got; with exact_count the numbers agree too."""
    used = [False] * len(got)
    for e in expected:
        hit = None
        for i, g in enumerate(got):
            if not used[i] and hx.fdist(e, g) <= tol:
                hit = i
                break
        if hit is None:
            cs.fail('missed', '%s: the exact crossing %s is not returned (returned: %s)' % (
                what, pstr(e), ', '.join(pstr(g) for g in got) or 'nothing'))
            return False
        used[hit] = True
    if exact_count and len(got) != len(expected):
        extra = [g for i, g in enumerate(got) if not used[i]]
        cs.fail('spurious', '%s: %d results for %d exact crossings; unmatched %s' % (
            what, len(got), len(expected), ', '.join(pstr(g) for g in extra)))
        return False
    return True


# ------------------------------------------------------------------ 2D: chains vs line
def cross2(p, v, kv, q, w, kw, scale):
    """Exact crossing of p + s v (kind kv) with q + t w (kind kw).
    -> (status, point or None): 'cross' / 'miss' / 'amb'."""
    d = hx.det2(v, w)
    if d == 0:
        # parallel: collinear overlap is ambiguous, otherwise exactly separated
        if hx.det2(hx.sub(q, p), v) == 0:
            return 'amb', None
        return 'miss', None
    sin2 = d * d / (hx.n2(v) * hx.n2(w))
    if sin2 < F(SIN_MIN) ** 2:
        return 'amb', None
    sin = fsq(sin2)
    qp = hx.sub(q, p)
    s = hx.det2(qp, w) / d
    t = hx.det2(qp, v) / d
    ms = max(TOL, TOL * scale / (fsq(hx.n2(v)) * sin))
    mt = max(TOL, TOL * scale / (fsq(hx.n2(w)) * sin))
    a, b = u_status(s, kv, F(ms)), u_status(t, kw, F(mt))
    if a == 'out' or b == 'out':
        return 'miss', None
    if a == 'in' and b == 'in':
        return 'cross', hx.add(p, hx.mul(v, s))
    return 'amb', None


def check_chain_line(site, variant, edges, lr, lr_kind, res, cs_list, what):
    """edges: list of (a, b) exact end points of the chain; lr: library line/ray with
    effective kind lr_kind ('seg' / 'ray' / 'line'); res: list of returned Point2D."""
    p, v = hx.fx(lr.p), hx.fx(lr.v)
    scale = hx.mag_of([e[0] for e in edges], [e[1] for e in edges], lr.p, lr.v)
    cs = Case(site, variant, scale)
    tol = cs.tol
    got = [tuple(float(c) for c in g) for g in res]
    # soundness
    for g in res:
        ge = hx.fx(g)
        dl = lr_d2(ge, p, v, lr_kind)
        if dl > F(tol) ** 2:
            cs.fail('not-on-line', '%s: returned %s is %.3g off the %s' % (
                what, pstr(ge), fsq(dl), {'seg': 'segment', 'ray': 'ray',
                                           'line': 'infinite line'}[lr_kind]))
            break
        de = min(hx.pt_seg_d2(ge, a, b) for a, b in edges)
        if de > F(tol) ** 2:
            cs.fail('not-on-object', '%s: returned %s is %.3g off the polygon/polyline' % (
                what, pstr(ge), fsq(de)))
            break
    # completeness
    expected = []
    amb = 0
    for a, b in edges:
        st, pt = cross2(a, hx.sub(b, a), 'seg', p, v, lr_kind, scale)
        if st == 'cross':
            expected.append(tuple(float(c) for c in pt))
        elif st == 'amb':
            amb += 1
    if not cs.out:
        ok = match_points(cs, expected, got, 100 * tol, what, amb == 0)
        if ok and amb and not (len(expected) <= len(got) <= len(expected) + amb):
            cs.fail('spurious', '%s: %d results, %d exact crossings and %d borderline edges' % (
                what, len(got), len(expected), amb))
    cs_list.extend(cs.out)
    return len(expected), amb


# ------------------------------------------------------------------ 2D: arcs vs line
def arc_span(a):
    if a.a1 == 0 and a.a2 == TWO_PI:
        return 0.0, TWO_PI
    s = a.a2 - a.a1
    if s < 0:
        s += TWO_PI
    return a.a1, s


def span_status(a, px, py, margin):
    """status of the direction (px, py) from the centre w.r.t. the angular span"""
    a1, span = arc_span(a)
    if span >= TWO_PI:
        return 'in'
    phi = (math.atan2(py, px) - a1) % TWO_PI
    if margin <= phi <= span - margin:
        return 'in'
    if span + margin < phi < TWO_PI - margin:
        return 'out'
    return 'edge'


def circle_line_roots(c, r, p, v):
    """exact data of |p + u v - c| = r: (rel, u1, u2) with rel = sin^2 of the crossing
    angle (negative: separated); roots to 30 digits (None when rel <= 0)."""
    a = hx.n2(v)
    pc = hx.sub(p, c)
    b = 2 * hx.dot(v, pc)
    cc = hx.n2(pc) - r * r
    D = b * b - 4 * a * cc
    rel = D / (4 * a * r * r)
    if D <= 0:
        return rel, None, None
    sq = hx.fsqrt(D, 40)
    return rel, (-b + sq) / (2 * a), (-b - sq) / (2 * a)


def check_arc_line(a, variant, lr, lr_kind, res, method, cs_list):
    site = 'Arc2D.%s' % method
    scale = hx.mag_of(a.c, a.r, lr.p, lr.v)
    cs = Case(site, variant, scale)
    tol = cs.tol
    what = 'Arc2D(c=%s, r=%.9g, a1=%.9g, a2=%.9g) x %r' % (pstr(a.c), a.r, a.a1, a.a2, lr)
    c, r = hx.fx(a.c), F(a.r)
    p, v = hx.fx(lr.p), hx.fx(lr.v)
    got = [tuple(float(t) for t in g) for g in res]
    for g in res:
        ge = hx.fx(g)
        dl = lr_d2(ge, p, v, lr_kind)
        if dl > F(tol) ** 2:
            cs.fail('not-on-line', '%s: returned %s is %.3g off the line operand' % (
                what, pstr(ge), fsq(dl)))
            break
        rad = fsq(hx.n2(hx.sub(ge, c)))
        if abs(rad - a.r) > tol:
            cs.fail('not-on-object', '%s: returned %s is at distance %.12g from the centre' % (
                what, pstr(ge), rad))
            break
        if span_status(a, g.x - a.c.x, g.y - a.c.y, -(tol / a.r + 1e-12)) != 'in':
            cs.fail('out-of-range', '%s: returned %s is outside the angular span' % (
                what, pstr(ge)))
            break
    rel, u1, u2 = circle_line_roots(c, r, p, v)
    mt = max(1e-12, 1e-13 * scale * scale / (a.r * a.r))
    expected = []
    amb = 0
    if rel < -mt:
        pass
    elif rel <= mt:
        amb = 2
    else:
        sin = math.sqrt(float(rel))
        mu = max(TOL, TOL * scale / (fsq(hx.n2(v)) * sin))
        ma = max(TOL, TOL * scale / (a.r * sin))
        for u in (u1, u2):
            pt = hx.add(p, hx.mul(v, u))
            s1 = u_status(u, lr_kind, F(mu))
            s2 = span_status(a, float(pt[0] - c[0]), float(pt[1] - c[1]), ma)
            if s1 == 'out' or s2 == 'out':
                continue
            if s1 == 'in' and s2 == 'in':
                expected.append(tuple(float(t) for t in pt))
            else:
                amb += 1
    if not cs.out:
        ok = match_points(cs, expected, got, 1000 * tol, what, amb == 0)
        if ok and amb and len(got) > len(expected) + amb:
            cs.fail('spurious', '%s: %d results, %d exact crossings' % (what, len(got),
                                                                       len(expected)))
    cs_list.extend(cs.out)
    return len(expected), amb


# ------------------------------------------------------------------ 3D: plane vs line
def plane_nk(pl):
    n = hx.fx(pl.n)
    return n, F(pl.k), fsq(hx.n2(n))


def cross_plane_line(n, k, nn, p, v, kind, scale):
    """-> (status, exact point or None)"""
    dv = hx.dot(n, v)
    s0 = hx.dot(n, p) - k
    if dv == 0:
        return ('amb' if abs(float(s0)) / nn <= TOL * scale else 'miss'), None
    sin = abs(float(dv)) / (nn * fsq(hx.n2(v)))
    if sin < SIN_MIN:
        return 'amb', None
    u = -s0 / dv
    mu = max(TOL, TOL * scale / (fsq(hx.n2(v)) * sin))
    st = u_status(u, kind, F(mu))
    if st == 'out':
        return 'miss', None
    if st == 'in':
        return 'cross', hx.add(p, hx.mul(v, u))
    return 'amb', None


def sound_plane_line(cs, pt, n, k, nn, p, v, kind, what):
    pe = hx.fx(pt)
    off = abs(float(hx.dot(n, pe) - k)) / nn
    if off > cs.tol:
        cs.fail('not-on-plane', '%s: returned %s is %.3g off the plane' % (what, pstr(pe), off))
        return False
    dl = lr_d2(pe, p, v, kind)
    if dl > F(cs.tol) ** 2:
        cs.fail('not-on-line', '%s: returned %s is %.3g off the line operand' % (
            what, pstr(pe), fsq(dl)))
        return False
    return True


def check_plane_line(pl, lr, cs_list):
    kind = kind_of(lr)
    name = type(lr).__name__
    scale = hx.mag_of(pl.o, lr.p, lr.v)
    cs = Case('Plane.intersect_line_ray', name, scale)
    what = '%r x %r' % (pl, lr)
    r1 = hx.guarded(pl.intersect_line_ray, lr)
    r2 = hx.guarded(lr.intersect_plane, pl)
    for r in (r1, r2):
        if r[0] == 'raise':
            cs.fail('raises ' + hx.exc_name(r[1]), '%s: %s' % (what, str(r[1])[:200]))
            cs_list.extend(cs.out)
            return 'raise'
    a, b = r1[1], r2[1]
    if a is not None:
        cs.scale = max(cs.scale, hx.mag_of(a))
        cs.tol = TOL * cs.scale
    if (a is None) != (b is None) or (a is not None and hx.fdist(tuple(a), tuple(b)) > cs.tol):
        cs.fail('swapped-differs', '%s: Plane.intersect_line_ray = %r, %s.intersect_plane = %r'
                % (what, a, name, b))
    n, k, nn = plane_nk(pl)
    p, v = hx.fx(lr.p), hx.fx(lr.v)
    if a is not None:
        sound_plane_line(cs, a, n, k, nn, p, v, kind, what)
    st, pt = cross_plane_line(n, k, nn, p, v, kind, scale)
    if not cs.out:
        if st == 'cross':
            if a is None or hx.fdist(tuple(a), tuple(float(c) for c in pt)) > 1000 * cs.tol:
                cs.fail('missed', '%s: exact crossing %s, returned %r' % (what, pstr(pt), a))
        elif st == 'miss' and a is not None:
            cs.fail('spurious', '%s: exactly separated but %s returned' % (what, pstr(a)))
    cs_list.extend(cs.out)
    return st


def check_polyline_plane(pln, pl, cs_list):
    scale = hx.mag_of(pln.vertices, pl.o)
    cs = Case('Polyline3D.intersect_plane', '', scale)
    what = 'Polyline3D(%s) x %r' % (', '.join(pstr(p) for p in pln.vertices), pl)
    r = hx.guarded(pln.intersect_plane, pl)
    if r[0] == 'raise':
        cs.fail('raises ' + hx.exc_name(r[1]), '%s: %s' % (what, str(r[1])[:200]))
        cs_list.extend(cs.out)
        return 0, 0
    res = as_list(r[1])
    n, k, nn = plane_nk(pl)
    vs = [hx.fx(p) for p in pln.vertices]
    for g in res:
        ge = hx.fx(g)
        off = abs(float(hx.dot(n, ge) - k)) / nn
        if off > cs.tol:
            cs.fail('not-on-plane', '%s: returned %s is %.3g off the plane' % (what, pstr(ge),
                                                                              off))
            break
        de = min(lr_d2(ge, a, hx.sub(b, a), 'seg') for a, b in zip(vs[:-1], vs[1:]))
        if de > F(cs.tol) ** 2:
            cs.fail('not-on-object', '%s: returned %s is %.3g off the polyline' % (
                what, pstr(ge), fsq(de)))
            break
    expected, amb = [], 0
    for a, b in zip(vs[:-1], vs[1:]):
        st, pt = cross_plane_line(n, k, nn, a, hx.sub(b, a), 'seg', scale)
        if st == 'cross':
            expected.append(tuple(float(c) for c in pt))
        elif st == 'amb':
            amb += 1
    if not cs.out:
        ok = match_points(cs, expected, [tuple(g) for g in res], 1000 * cs.tol, what, amb == 0)
        if ok and amb and len(res) > len(expected) + amb:
            cs.fail('spurious', '%s: %d results, %d exact crossings' % (what, len(res),
                                                                       len(expected)))
    cs_list.extend(cs.out)
    return len(expected), amb


# ------------------------------------------------------------------ 3D: plane vs plane
def check_plane_plane(a, b, cs_list):
    scale = hx.mag_of(a.o, b.o)
    cs = Case('Plane.intersect_plane', '', scale)
    what = '%r x %r' % (a, b)
    r1, r2 = hx.guarded(a.intersect_plane, b), hx.guarded(b.intersect_plane, a)
    for r in (r1, r2):
        if r[0] == 'raise':
            cs.fail('raises ' + hx.exc_name(r[1]), '%s: %s' % (what, str(r[1])[:200]))
            cs_list.extend(cs.out)
            return 'raise'
    n1, k1, nn1 = plane_nk(a)
    n2, k2, nn2 = plane_nk(b)
    cr = hx.cross(n1, n2)
    sin = fsq(hx.n2(cr)) / (nn1 * nn2)
    x, y = r1[1], r2[1]
    if 0 < sin < 1e-3:
        return 'ill-conditioned'       # the common point is conditioned by 1/sin^2
    tol = cs.tol
    if hx.n2(cr) == 0 and (x is not None or y is not None):
        r = x if x is not None else y
        cs.fail('spurious', '%s: exactly parallel planes (identical normals up to sign), but '
                'Ray3D(p=%s, v=%s) is returned instead of None' % (what, pstr(r.p), pstr(r.v)))
        cs_list.extend(cs.out)
        return 'parallel'
    if (x is None) != (y is None):
        cs.fail('swapped-differs', '%s: %r one way, %r the other' % (what, x, y))
    for r in (x, y):
        if r is None:
            continue
        pe, ve = hx.fx(r.p), hx.fx(r.v)
        for nm, (n, k, nn) in (('first', (n1, k1, nn1)), ('second', (n2, k2, nn2))):
            off = abs(float(hx.dot(n, pe) - k)) / nn
            if off > tol:
                cs.fail('not-on-plane', '%s: point %s of the returned ray is %.3g off the %s '
                        'plane (sin = %.3g)' % (what, pstr(pe), off, nm, sin))
            dd = abs(float(hx.dot(n, ve))) / (nn * max(fsq(hx.n2(ve)), 1e-300))
            if hx.n2(ve) == 0 or dd > 1e-9:
                cs.fail('not-on-plane', '%s: direction %s of the returned ray is not in the '
                        '%s plane (n.v/|v| = %.3g)' % (what, pstr(ve), nm, dd))
    if x is not None and y is not None and not cs.out:
        # the same line: y.p on line x
        d = lr_d2(hx.fx(y.p), hx.fx(x.p), hx.fx(x.v), 'line')
        if d > F(tol * 10) ** 2:
            cs.fail('swapped-differs', '%s: the two orders give lines %.3g apart' % (what,
                                                                                    fsq(d)))
    if not cs.out:
        if hx.n2(cr) == 0:
            if x is not None:
                cs.fail('spurious', '%s: exactly parallel planes, but %r returned' % (what, x))
        elif sin >= TOL and x is None:
            cs.fail('missed', '%s: planes meet at sin = %.3g but nothing returned' % (what, sin))
    cs_list.extend(cs.out)
    return 'parallel' if hx.n2(cr) == 0 else 'cross'


# ------------------------------------------------------------------ 3D: plane vs arc
def arc3_local(arc):
    pl = arc.plane
    return hx.fx(pl.o), hx.fx(pl.x), hx.fx(pl.y), hx.fx(pl.n)


def check_plane_arc(pl, arc, variant, cs_list):
    scale = hx.mag_of(pl.o, arc.plane.o, arc.radius)
    cs = Case('Plane.intersect_arc', variant, scale)
    tol = cs.tol
    what = '%r x Arc3D(o=%s, n=%s, r=%.9g, a1=%.9g, a2=%.9g)' % (
        pl, pstr(arc.plane.o), pstr(arc.plane.n), arc.radius, arc.a1, arc.a2)
    o, x, y, na = arc3_local(arc)
    n, k, nn = plane_nk(pl)
    sin_pp = fsq(hx.n2(hx.cross(n, na))) / (nn * fsq(hx.n2(na)))
    if 0 < sin_pp < 1e-3:
        return 0, 2
    r1, r2 = hx.guarded(pl.intersect_arc, arc), hx.guarded(arc.intersect_plane, pl)
    for r in (r1, r2):
        if r[0] == 'raise':
            cs.fail('raises ' + hx.exc_name(r[1]), '%s: %s' % (what, str(r[1])[:200]))
            cs_list.extend(cs.out)
            return 0, 0
    A, B = as_list(r1[1]), as_list(r2[1])
    # exact line of the cutting plane in arc-plane coordinates: a X + b Y = c
    a_, b_, c_ = hx.dot(n, x), hx.dot(n, y), k - hx.dot(n, o)
    ab = a_ * a_ + b_ * b_
    sinp = fsq(ab) / nn
    ptol = tol * max(1.0, 1e-6 / (sinp * sinp)) if sinp > 0 else tol
    if len(A) != len(B) or any(hx.fdist(tuple(p), tuple(q)) > 10 * ptol for p, q in zip(A, B)):
        cs.fail('swapped-differs', '%s: Plane.intersect_arc = %r, Arc3D.intersect_plane = %r' % (
            what, A, B))
    a2 = arc.arc2d
    for g in A:
        ge = hx.fx(g)
        off = abs(float(hx.dot(n, ge) - k)) / nn
        if off > ptol:
            cs.fail('not-on-plane', '%s: returned %s is %.3g off the plane' % (what, pstr(ge),
                                                                              off))
            break
        d = hx.sub(ge, o)
        lx, ly, lz = float(hx.dot(d, x)), float(hx.dot(d, y)), float(hx.dot(d, na))
        if abs(lz) > tol or abs(math.hypot(lx, ly) - arc.radius) > ptol:
            cs.fail('not-on-object', '%s: returned %s is not on the arc circle (off plane %.3g, '
                    'radius %.12g)' % (what, pstr(ge), lz, math.hypot(lx, ly)))
            break
        if span_status(a2, lx, ly, -(ptol / arc.radius + 1e-12)) != 'in':
            cs.fail('out-of-range', '%s: returned %s is outside the angular span' % (what,
                                                                                   pstr(ge)))
            break
    expected, amb = [], 0
    r = F(arc.radius)
    if ab == 0:
        amb = 0 if c_ != 0 else 2       # parallel planes: separated unless coplanar
    elif sinp < 1e-2:
        amb = 2
    else:
        rel = 1 - (c_ * c_ / ab) / (r * r)
        mt = max(1e-12, 1e-13 * scale * scale / float(r * r))
        if rel < -mt:
            pass
        elif rel <= mt:
            amb = 2
        else:
            foot = (a_ * c_ / ab, b_ * c_ / ab)
            h = hx.fsqrt(r * r - c_ * c_ / ab, 40)
            sq = hx.fsqrt(ab, 40)
            dr = (-b_ / sq, a_ / sq)
            ma = max(TOL, TOL * scale / (arc.radius * math.sqrt(float(rel))))
            for sg in (1, -1):
                X, Y = foot[0] + sg * h * dr[0], foot[1] + sg * h * dr[1]
                st = span_status(a2, float(X), float(Y), ma)
                if st == 'in':
                    p3 = hx.add(o, hx.add(hx.mul(x, X), hx.mul(y, Y)))
                    expected.append(tuple(float(t) for t in p3))
                elif st == 'edge':
                    amb += 1
    if not cs.out:
        ok = match_points(cs, expected, [tuple(g) for g in A], 1000 * ptol, what, amb == 0)
        if ok and amb and len(A) > len(expected) + amb:
            cs.fail('spurious', '%s: %d results, %d exact crossings' % (what, len(A),
                                                                       len(expected)))
    cs_list.extend(cs.out)
    return len(expected), amb


# ------------------------------------------------------------------ 3D: sphere
def check_sphere_line(sp, lr, cs_list):
    kind = kind_of(lr)
    name = type(lr).__name__
    scale = hx.mag_of(sp.center, sp.radius, lr.p, lr.v)
    cs = Case('Sphere.intersect_line_ray', name, scale)
    tol = cs.tol
    what = 'Sphere(c=%s, r=%.9g) x %r' % (pstr(sp.center), sp.radius, lr)
    g = hx.guarded(sp.intersect_line_ray, lr)
    if g[0] == 'raise':
        cs.fail('raises ' + hx.exc_name(g[1]), '%s: %s' % (what, str(g[1])[:200]))
        cs_list.extend(cs.out)
        return 'raise'
    res = g[1]
    pts = [] if res is None else [res] if isinstance(res, Point3D) else [res.p1, res.p2]
    c, r = hx.fx(sp.center), F(sp.radius)
    p, v = hx.fx(lr.p), hx.fx(lr.v)
    ends = [p] + ([hx.add(p, v)] if kind == 'seg' else [])
    for q in pts:
        qe = hx.fx(q)
        dl = lr_d2(qe, p, v, kind)
        if dl > F(tol) ** 2:
            cs.fail('not-on-line', '%s: returned %s is %.3g off the line operand' % (
                what, pstr(qe), fsq(dl)))
            break
        rad = fsq(hx.n2(hx.sub(qe, c)))
        on_surface = abs(rad - sp.radius) <= tol
        clamped = any(hx.n2(hx.sub(qe, e)) <= F(tol) ** 2 for e in ends) and \
            rad <= sp.radius + tol
        if not (on_surface or clamped):
            cs.fail('not-on-object', '%s: returned %s is at distance %.12g from the centre and '
                    'is not an end point inside the ball' % (what, pstr(qe), rad))
            break
    rel, u1, u2 = circle_line_roots(c, r, p, v)
    mt = max(1e-12, 1e-13 * scale * scale / (sp.radius ** 2))
    status = 'amb'
    if rel < -mt:
        status = 'separated'
        if pts:
            cs.fail('spurious', '%s: the line misses the sphere but %s returned' % (
                what, ', '.join(pstr(q) for q in pts)))
    elif rel > mt:
        sin = math.sqrt(float(rel))
        mu = max(TOL, TOL * scale / (fsq(hx.n2(v)) * sin))
        s1, s2 = u_status(u1, kind, F(mu)), u_status(u2, kind, F(mu))
        if s1 == 'in' and s2 == 'in':
            status = 'through'
            exp = [tuple(float(t) for t in hx.add(p, hx.mul(v, u))) for u in (u1, u2)]
            if not cs.out:
                match_points(cs, exp, [tuple(q) for q in pts], 1000 * tol, what, True)
        elif s1 == 'out' and s2 == 'out' and (u1 < 0) == (u2 < 0):
            status = 'outside'
            if pts and not cs.out:
                cs.fail('spurious', '%s: the %s stops short of / starts after the sphere but '
                        '%s returned' % (what, name, ', '.join(pstr(q) for q in pts)))
        elif s1 != 'edge' and s2 != 'edge':
            status = 'partial'      # one end inside the ball: chord piece, clamped end point
            if not pts and not cs.out:
                cs.fail('missed', '%s: the %s has an end inside the ball but nothing is '
                        'returned' % (what, name))
            exp = [tuple(float(t) for t in hx.add(p, hx.mul(v, u)))
                   for u, s in ((u1, s1), (u2, s2)) if s == 'in']
            if not cs.out:
                match_points(cs, exp, [tuple(q) for q in pts], 1000 * tol, what, False)
    cs_list.extend(cs.out)
    return status


def check_sphere_plane(sp, pl, cs_list):
    scale = hx.mag_of(sp.center, sp.radius, pl.o)
    cs = Case('Sphere.intersect_plane', '', scale)
    tol = cs.tol
    what = 'Sphere(c=%s, r=%.9g) x %r' % (pstr(sp.center), sp.radius, pl)
    g = hx.guarded(sp.intersect_plane, pl)
    if g[0] == 'raise':
        cs.fail('raises ' + hx.exc_name(g[1]), '%s: %s' % (what, str(g[1])[:200]))
        cs_list.extend(cs.out)
        return 'raise'
    res = g[1]
    n, k, nn = plane_nk(pl)
    c = hx.fx(sp.center)
    d = float(hx.dot(n, c) - k) / nn
    status = 'amb'
    if res is not None:
        try:
            for t in (0.0, 0.21, 0.5, 0.83):
                q = hx.fx(res.point_at(t))
                off = abs(float(hx.dot(n, q) - k)) / nn
                rad = fsq(hx.n2(hx.sub(q, c)))
                if off > tol:
                    cs.fail('not-on-plane', '%s: circle sample %s is %.3g off the plane' % (
                        what, pstr(q), off))
                    break
                if abs(rad - sp.radius) > tol * max(1.0, sp.radius / max(res.radius, 1e-300)):
                    cs.fail('not-on-object', '%s: circle sample %s is at %.12g from the centre'
                            % (what, pstr(q), rad))
                    break
            if not res.is_circle:
                cs.fail('not-on-object', '%s: result is not a full circle' % what)
        except Exception as e:
            cs.fail('raises ' + hx.exc_name(e), '%s: reading the result: %s' % (what, e))
    if abs(d) < sp.radius * (1 - 1e-9) - tol:
        status = 'cut'
        if res is None:
            cs.fail('missed', '%s: plane at distance %.9g < r but nothing returned' % (what, d))
        elif not cs.out:
            rexp = math.sqrt(sp.radius ** 2 - d * d)
            if abs(res.radius - rexp) > tol * max(1.0, sp.radius / rexp):
                cs.fail('missed', '%s: circle radius %.12g, exact %.12g' % (what, res.radius,
                                                                           rexp))
    elif abs(d) > sp.radius * (1 + 1e-9) + tol:
        status = 'separated'
        if res is not None:
            cs.fail('spurious', '%s: plane at distance %.9g > r but a circle is returned' % (
                what, d))
    cs_list.extend(cs.out)
    return status


# ------------------------------------------------------------------ 3D: faces
class FaceX(object):
    """Exact view of a library face: plane frame and loops in exact plane coordinates."""

    def __init__(self, f):
        self.f = f
        self.fr = hx.frame_of(f.plane)
        self.n, self.k, self.nn = plane_nk(f.plane)
        self.b2 = [hx.to2d_exact(self.fr, hx.fx(p)) for p in f.boundary]
        self.h2 = [[hx.to2d_exact(self.fr, hx.fx(p)) for p in h] for h in f.holes] \
            if f.has_holes else []
        self.m2 = [hx.to2d_exact(self.fr, hx.fx(p)) for p in f.vertices]
        self.scale = hx.mag_of(f.boundary, f.plane.o)

    def to2(self, p3):
        return hx.to2d_exact(self.fr, p3)

    def status(self, p3, margin):
        return hx.region_status(self.to2(p3), self.b2, self.h2, margin)

    def text(self):
        return 'Face3D(%s%s)' % (', '.join(pstr(p) for p in self.f.boundary),
                                 '; %d holes' % len(self.h2) if self.h2 else '')


def grazes(q2, loop, margin):
    d = (F(1), F(0.00001))
    dd = hx.n2(d)
    m2 = F(margin) ** 2
    for v in loop:
        w = hx.sub(v, q2)
        if hx.n2(w) <= m2:
            return True
        if hx.dot(w, d) < -F(margin):
            continue
        cr = hx.det2(d, w)
        if cr * cr <= m2 * dd:
            return True
    return False


def face_line_truth(fx_, p, v, kind, scale):
    """-> (status, exact point): 'hit' / 'miss' / 'amb'"""
    st, pt = cross_plane_line(fx_.n, fx_.k, fx_.nn, p, v, kind, scale)
    if st == 'miss':
        return 'miss', None
    if st == 'amb':
        return 'amb', None
    dv = abs(float(hx.dot(fx_.n, v))) / (fx_.nn * fsq(hx.n2(v)))
    margin = max(TOL * scale, TOL * scale / dv) * 10
    rs = fx_.status(pt, margin)
    if rs == 'out':
        return 'miss', None
    if rs == 'edge' or grazes(fx_.to2(pt), fx_.m2, margin):
        return 'amb', None
    return 'hit', pt


def check_face_line(f, lr, cs_list, fx_=None):
    fx_ = fx_ or FaceX(f)
    kind = kind_of(lr)
    scale = max(fx_.scale, hx.mag_of(lr.p, lr.v))
    cs = Case('Face3D.intersect_line_ray', type(lr).__name__, scale)
    tol = cs.tol
    what = '%s x %r' % (fx_.text(), lr)
    g = hx.guarded(f.intersect_line_ray, lr)
    if g[0] == 'raise':
        cs.fail('raises ' + hx.exc_name(g[1]), '%s: %s' % (what, str(g[1])[:200]))
        cs_list.extend(cs.out)
        return 'raise'
    res = g[1]
    p, v = hx.fx(lr.p), hx.fx(lr.v)
    if res is not None:
        if sound_plane_line(cs, res, fx_.n, fx_.k, fx_.nn, p, v, kind, what):
            if fx_.status(hx.fx(res), tol) == 'out':
                cs.fail('not-on-object', '%s: returned %s is outside the face region' % (
                    what, pstr(res)))
    st, pt = face_line_truth(fx_, p, v, kind, scale)
    if not cs.out:
        if st == 'hit':
            if res is None or hx.fdist(tuple(res), tuple(float(c) for c in pt)) > 1000 * tol:
                cs.fail('missed', '%s: exact crossing %s inside the face, returned %r' % (
                    what, pstr(pt), res))
        elif st == 'miss' and res is not None:
            cs.fail('spurious', '%s: no crossing inside the face, but %s returned' % (
                what, pstr(res)))
    cs_list.extend(cs.out)
    return st


def face_plane_truth(fx_, pl, scale):
    """Exact cut of the face region by the plane: (status, line, intervals) where line =
    (P0, dir) exact 3D and intervals = sorted [(t0, t1), ...] in parameters along dir."""
    n, k, nn = plane_nk(pl)
    o, x, y, nf = fx_.fr
    a_, b_, c_ = hx.dot(n, x), hx.dot(n, y), k - hx.dot(n, o)
    ab = a_ * a_ + b_ * b_
    if ab == 0:
        return ('miss' if c_ != 0 else 'amb'), None, []
    sinp = fsq(ab) / nn
    if sinp < 1e-2:
        return 'amb', None, []
    foot = (a_ * c_ / ab, b_ * c_ / ab)
    dr = (-b_, a_)
    drn = fsq(hx.n2(dr))
    # (three times the length below which intervals_of discards a returned piece: a cut piece
    # or a gap shorter than that is neither demanded nor forbidden)
    margin = F(TOL * scale * 3000)
    ts = []
    for loop in [fx_.b2] + fx_.h2:
        m = len(loop)
        for i in range(m):
            pa, pb = loop[i - 1], loop[i]
            sa = a_ * pa[0] + b_ * pa[1] - c_
            sb = a_ * pb[0] + b_ * pb[1] - c_
            # distances of the end points to the cut line
            da, db = abs(float(sa)) / fsq(ab), abs(float(sb)) / fsq(ab)
            if da <= float(margin) or db <= float(margin):
                return 'amb', None, []
            if (sa > 0) == (sb > 0):
                continue
            e = hx.sub(pb, pa)
            se = abs(float(sa - sb)) / (fsq(ab) * fsq(hx.n2(e)))   # sin(edge, line)
            if se < 1e-6:
                return 'amb', None, []
            u = sa / (sa - sb)
            pt = hx.add(pa, hx.mul(e, u))
            ts.append(hx.dot(hx.sub(pt, foot), dr) / hx.n2(dr))
    ts.sort()
    if len(ts) % 2:
        return 'amb', None, []
    for t0, t1 in zip(ts[:-1], ts[1:]):
        if float(t1 - t0) * drn <= float(margin):
            return 'amb', None, []
    P0 = hx.add(o, hx.add(hx.mul(x, foot[0]), hx.mul(y, foot[1])))
    D3 = hx.add(hx.mul(x, dr[0]), hx.mul(y, dr[1]))
    iv = [(ts[i], ts[i + 1]) for i in range(0, len(ts), 2)]
    return ('cut' if iv else 'miss'), (P0, D3), iv


def sound_face_segments(cs, fx_, pl, segs, what):
    n, k, nn = plane_nk(pl)
    sinp = fsq(hx.n2(hx.cross(n, fx_.n))) / (nn * fx_.nn)
    ptol = cs.tol * max(1.0, 1e-6 / (sinp * sinp)) if sinp > 0 else cs.tol
    for s in segs:
        a, b = hx.fx(s.p1), hx.fx(s.p2)
        for q in (a, b):
            off = abs(float(hx.dot(n, q) - k)) / nn
            if off > ptol:
                cs.fail('not-on-plane', '%s: end point %s is %.3g off the cutting plane' % (
                    what, pstr(q), off))
                return False
            off = abs(float(hx.dot(fx_.n, q) - fx_.k)) / fx_.nn
            if off > ptol:
                cs.fail('not-on-object', '%s: end point %s is %.3g off the face plane' % (
                    what, pstr(q), off))
                return False
        for t in (F(0), F(1, 4), F(1, 2), F(3, 4), F(1)):
            q = hx.lerp(a, b, t)
            if fx_.status(q, ptol * 10) == 'out':
                cs.fail('not-on-object', '%s: returned segment %s - %s leaves the face region '
                        'at %s' % (what, pstr(a), pstr(b), pstr(q)))
                return False
    return True


def intervals_of(segs, line, tol_len):
    """merged parameter intervals of returned segments along the exact line"""
    P0, D3 = line
    dn = hx.n2(D3)
    L = fsq(dn)
    iv = []
    for s in segs:
        t0 = float(hx.dot(hx.sub(hx.fx(s.p1), P0), D3) / dn)
        t1 = float(hx.dot(hx.sub(hx.fx(s.p2), P0), D3) / dn)
        if t0 > t1:
            t0, t1 = t1, t0
        iv.append([t0, t1])
    iv.sort()
    out = []
    for a, b in iv:
        if out and a <= out[-1][1] + tol_len / L:
            out[-1][1] = max(out[-1][1], b)
        else:
            out.append([a, b])
    return [(a, b) for a, b in out if (b - a) * L > tol_len], L


def check_face_plane(f, pl, cs_list, fx_=None):
    fx_ = fx_ or FaceX(f)
    scale = max(fx_.scale, hx.mag_of(pl.o))
    cs = Case('Face3D.intersect_plane', 'holes' if fx_.h2 else '', scale)
    what = '%s x %r' % (fx_.text(), pl)
    n_, k_, nn_ = plane_nk(pl)
    if 0 < fsq(hx.n2(hx.cross(n_, fx_.n))) / (nn_ * fx_.nn) < 1e-3:
        return 'ill-conditioned', 0
    g = hx.guarded(f.intersect_plane, pl)
    if g[0] == 'raise':
        cs.fail('raises ' + hx.exc_name(g[1]), '%s: %s' % (what, str(g[1])[:200]))
        cs_list.extend(cs.out)
        return 'raise', 0
    segs = as_list(g[1])
    sound_face_segments(cs, fx_, pl, segs, what)
    st, line, iv = face_plane_truth(fx_, pl, scale)
    if not cs.out and st in ('cut', 'miss'):
        if st == 'miss':
            if any(s.length > 1000 * cs.tol for s in segs):
                cs.fail('spurious', '%s: the plane misses the face but %r returned' % (what,
                                                                                     segs))
        else:
            got, L = intervals_of(segs, line, 1000 * cs.tol)
            exp = [(float(a), float(b)) for a, b in iv]
            bad = len(got) != len(exp) or any(
                abs(g0 - e0) * L > 1000 * cs.tol or abs(g1 - e1) * L > 1000 * cs.tol
                for (g0, g1), (e0, e1) in zip(got, exp))
            if bad:
                P0, D3 = line

                def at(t):
                    return pstr(hx.add(P0, hx.mul(D3, F(t))))
                cs.fail('missed' if len(got) <= len(exp) else 'spurious',
                        '%s: exact cut pieces %s, returned pieces %s' % (
                            what, '; '.join('%s-%s' % (at(a), at(b)) for a, b in exp),
                            '; '.join('%s-%s' % (at(a), at(b)) for a, b in got) or 'none'))
    cs_list.extend(cs.out)
    return st, len(iv)


# ------------------------------------------------------------------ 3D: polyfaces
def check_polyface_line(pf, lr, variant, cs_list):
    faces = [FaceX(f) for f in pf.faces]
    kind = kind_of(lr)
    scale = max(max(fx_.scale for fx_ in faces), hx.mag_of(lr.p, lr.v))
    cs = Case('Polyface3D.intersect_line_ray', variant, scale)
    tol = cs.tol
    what = 'Polyface3D(%d faces, %s) x %r' % (len(faces), variant, lr)
    g = hx.guarded(pf.intersect_line_ray, lr)
    if g[0] == 'raise':
        cs.fail('raises ' + hx.exc_name(g[1]), '%s: %s' % (what, str(g[1])[:200]))
        cs_list.extend(cs.out)
        return 0, 0
    res = as_list(g[1])
    p, v = hx.fx(lr.p), hx.fx(lr.v)
    for q in res:
        qe = hx.fx(q)
        dl = lr_d2(qe, p, v, kind)
        if dl > F(tol) ** 2:
            cs.fail('not-on-line', '%s: returned %s is %.3g off the line operand' % (
                what, pstr(qe), fsq(dl)))
            break
        ok = False
        for fx_ in faces:
            if abs(float(hx.dot(fx_.n, qe) - fx_.k)) / fx_.nn <= tol and \
                    fx_.status(qe, tol) != 'out':
                ok = True
                break
        if not ok:
            cs.fail('not-on-object', '%s: returned %s is on no face of the polyface' % (
                what, pstr(qe)))
            break
    expected, amb = [], 0
    for fx_ in faces:
        st, pt = face_line_truth(fx_, p, v, kind, scale)
        if st == 'hit':
            expected.append(tuple(float(c) for c in pt))
        elif st == 'amb':
            amb += 1
    if not cs.out:
        ok = match_points(cs, expected, [tuple(q) for q in res], 1000 * tol, what, amb == 0)
        if ok and amb and len(res) > len(expected) + amb:
            cs.fail('spurious', '%s: %d results, %d exact crossings' % (what, len(res),
                                                                       len(expected)))
    cs_list.extend(cs.out)
    return len(expected), amb


def check_polyface_plane(pf, pl, variant, cs_list):
    faces = [FaceX(f) for f in pf.faces]
    scale = max(max(fx_.scale for fx_ in faces), hx.mag_of(pl.o))
    cs = Case('Polyface3D.intersect_plane', variant, scale)
    what = 'Polyface3D(%d faces, %s) x %r' % (len(faces), variant, pl)
    n_, k_, nn_ = plane_nk(pl)
    if any(0 < fsq(hx.n2(hx.cross(n_, fx_.n))) / (nn_ * fx_.nn) < 1e-3 for fx_ in faces):
        return 0, 1
    g = hx.guarded(pf.intersect_plane, pl)
    if g[0] == 'raise':
        cs.fail('raises ' + hx.exc_name(g[1]), '%s: %s' % (what, str(g[1])[:200]))
        cs_list.extend(cs.out)
        return 0, 0
    segs = [s for s in as_list(g[1])]
    n, k, nn = plane_nk(pl)
    # soundness: every segment lies in the cutting plane and inside one face
    homes = {}
    for s in segs:
        home = None
        for i, fx_ in enumerate(faces):
            tmp = Case('x', '', scale)
            if sound_face_segments(tmp, fx_, pl, [s], what):
                home = i
                break
        if home is None:
            cs.fail('not-on-object', '%s: returned segment %s - %s lies in no face / not in the '
                    'plane' % (what, pstr(s.p1), pstr(s.p2)))
            break
        homes.setdefault(home, []).append(s)
    total, amb = 0, 0
    truths = []
    for fx_ in faces:
        st, line, iv = face_plane_truth(fx_, pl, scale)
        truths.append((st, line, iv))
        if st == 'amb':
            amb += 1
        total += len(iv)
    if not cs.out and amb == 0:
        for i, (st, line, iv) in enumerate(truths):
            mine = homes.get(i, [])
            if st == 'miss':
                got = [s for s in mine if s.length > 1000 * cs.tol]
                if got:
                    cs.fail('spurious', '%s: face %d is not cut but %r returned' % (what, i, got))
                    break
                continue
            got, L = intervals_of(mine, line, 1000 * cs.tol)
            exp = [(float(a), float(b)) for a, b in iv]
            if len(got) != len(exp) or any(
                    abs(g0 - e0) * L > 1000 * cs.tol or abs(g1 - e1) * L > 1000 * cs.tol
                    for (g0, g1), (e0, e1) in zip(got, exp)):
                cs.fail('missed' if len(got) <= len(exp) else 'spurious',
                        '%s: face %d is cut in %d pieces, %d returned' % (what, i, len(exp),
                                                                          len(got)))
                break
    cs_list.extend(cs.out)
    return total, amb


# ------------------------------------------------------------------ generators
def _mag(rng, level):
    return 1.0 if level else rng.choice([1.0, 10.0, 100.0, 1e3])


def _pt(rng, dim, m):
    c = [rng.uniform(-m, m) for _ in range(dim)]
    return Point2D(*c) if dim == 2 else Point3D(*c)


def _dir(rng, dim):
    if rng.random() < 0.12:
        ax = [0.0] * dim
        ax[rng.randrange(dim)] = rng.choice([1.0, -1.0])
        return (Vector2D if dim == 2 else Vector3D)(*ax)
    return hx.rand_unit2(rng) if dim == 2 else hx.rand_unit3(rng)


def line_through(rng, target, dim, length=None):
    """A segment or ray aimed at the target point; the target falls inside, before or
    beyond its range.  -> (line_ray, config)"""
    d = _dir(rng, dim)
    L = length if length is not None else math.exp(rng.uniform(math.log(0.05), math.log(50)))
    v = d * L
    cfg = rng.choice(['through', 'through', 'through', 'short', 'beyond', 'ends-at'])
    if cfg == 'through':
        s = rng.uniform(0.05, 0.95)
    elif cfg == 'short':
        s = rng.uniform(1.05, 4)
    elif cfg == 'beyond':
        s = -rng.uniform(0.05, 3)
    else:
        s = rng.choice([0.0, 1.0])
    p = target - v * s
    if rng.random() < 0.5:
        return (Ray2D if dim == 2 else Ray3D)(p, v), cfg + '/ray'
    return (LineSegment2D if dim == 2 else LineSegment3D)(p, v), cfg + '/seg'


def rplane(rng, level, mag=None):
    if level:
        return hx.rand_plane(rng, 1.0, rng.choice(['axis', 'generic']))[0]
    return hx.rand_plane(rng, mag if mag is not None else _mag(rng, 0))[0]


def plane_through(rng, target, level):
    """A cutting plane through the 3D target point with a random normal."""
    n = hx.rand_unit3(rng)
    if rng.random() < 0.2:
        n = rng.choice([Vector3D(1, 0, 0), Vector3D(0, 1, 0), Vector3D(0, 0, 1),
                        Vector3D(0, -1, 0)])
    return Plane(n, target)


def gen_face(rng, level):
    pl = Plane(Vector3D(0, 0, 1), Point3D(0, 0, 0)) if level and rng.random() < 0.5 else \
        rplane(rng, level)
    if rng.random() < 0.3:
        b, hs = hx.gen_holed(rng, rng.randint(1, 2), 8)
        hs = [h if rng.random() < 0.5 else list(reversed(h)) for h in hs]
        return Face3D(hx.to3d(pl, b), None, [hx.to3d(pl, h) for h in hs]), pl, b, 'holes'
    pts, kind = hx.gen_loop(rng, 10)
    if rng.random() < 0.5:
        return Face3D(hx.to3d(pl, list(reversed(pts)))), pl, pts, kind
    return Face3D(hx.to3d(pl, pts)), pl, pts, kind


def gen_arc2(rng, level):
    m = _mag(rng, level)
    c = _pt(rng, 2, m) if not level else Point2D(0, 0)
    r = math.exp(rng.uniform(math.log(0.05), math.log(30.0))) if not level else 1.0
    if rng.random() < 0.25:
        return Arc2D(c, r), 'circle'
    span = rng.uniform(0.2, TWO_PI - 0.2)
    a1 = rng.uniform(0, TWO_PI)
    if rng.random() < 0.2:
        a1 = rng.choice([0.0, math.pi / 2, math.pi, 1.5 * math.pi])
    a2 = a1 + span
    if a2 > TWO_PI:
        a2 -= TWO_PI
    return Arc2D(c, r, a1, a2), 'inverted' if a2 < a1 else 'arc'


# ------------------------------------------------------------------ streams
def check_pair2d(a, b, cfg, cs_list):
    ka, kb = kind_of(a), kind_of(b)
    scale = hx.mag_of(a.p, a.v, b.p, b.v)
    cs = Case('%s.intersect_line_ray' % type(a).__name__, type(b).__name__, scale)
    what = '%r x %r (%s)' % (a, b, cfg)
    r1, r2 = hx.guarded(a.intersect_line_ray, b), hx.guarded(b.intersect_line_ray, a)
    for r in (r1, r2):
        if r[0] == 'raise':
            cs.fail('raises ' + hx.exc_name(r[1]), '%s: %s' % (what, str(r[1])[:200]))
            cs_list.extend(cs.out)
            return 'raise'
    x, y = r1[1], r2[1]
    pa, va, pb, vb = hx.fx(a.p), hx.fx(a.v), hx.fx(b.p), hx.fx(b.v)
    st, pt = cross2(pa, va, ka, pb, vb, kb, scale)
    if st != 'amb' and ((x is None) != (y is None) or
                        (x is not None and hx.fdist(tuple(x), tuple(y)) > 100 * cs.tol)):
        cs.fail('swapped-differs', '%s: %r one way, %r the other' % (what, x, y))
    for r in (x, y):
        if r is None:
            continue
        re_ = hx.fx(r)
        for nm, (p, v, k) in (('first', (pa, va, ka)), ('second', (pb, vb, kb))):
            d = lr_d2(re_, p, v, k)
            if d > F(cs.tol) ** 2:
                cs.fail('not-on-object', '%s: returned %s is %.3g off the %s operand' % (
                    what, pstr(re_), fsq(d), nm))
    if not cs.out:
        if st == 'cross' and (x is None or
                              hx.fdist(tuple(x), tuple(float(c) for c in pt)) > 1000 * cs.tol):
            cs.fail('missed', '%s: exact crossing %s, returned %r' % (what, pstr(pt), x))
        elif st == 'miss' and x is not None:
            cs.fail('spurious', '%s: exactly separated but %s returned' % (what, pstr(x)))
    cs_list.extend(cs.out)
    return st


def s_lines2d(rng, level, hist, out):
    m = _mag(rng, level)
    a = (Ray2D if rng.random() < 0.4 else LineSegment2D)(
        _pt(rng, 2, m), _dir(rng, 2) * math.exp(rng.uniform(math.log(0.05), math.log(50))))
    cfg = rng.choice(['aimed', 'aimed', 'aimed', 'random', 'parallel', 'collinear',
                      'near-parallel'])
    if rng.random() < 0.12:
        # a segment lying on a coordinate axis, crossed well inside both ranges: one coordinate of
        # the crossing is exactly zero on one side and rounding noise on the other
        L = math.exp(rng.uniform(math.log(0.5), math.log(50)))
        x0 = rng.uniform(-m, m)
        if rng.random() < 0.5:
            a = LineSegment2D(Point2D(x0, 0.0), Vector2D(L, 0.0))
        else:
            a = LineSegment2D(Point2D(0.0, x0), Vector2D(0.0, L))
        cfg = 'aimed'
    if cfg == 'aimed':
        t = rng.choice([rng.uniform(0.05, 0.95), rng.uniform(1.05, 3), -rng.uniform(0.05, 2),
                        0.0, 1.0])
        b, c2 = line_through(rng, a.p + a.v * t, 2)
        cfg = 'aimed(%.0f)/%s' % (math.floor(t), c2) if t not in (0.0, 1.0) else 'end/' + c2
    elif cfg == 'random':
        b = LineSegment2D(_pt(rng, 2, m), _dir(rng, 2) * rng.uniform(0.05, 2 * m))
    elif cfg == 'parallel':
        off = Vector2D(-a.v.y, a.v.x) * rng.uniform(-1, 1)
        b = (Ray2D if rng.random() < 0.5 else LineSegment2D)(
            a.p + off + a.v * rng.uniform(-1, 1), a.v * rng.choice([1.0, -1.0, 0.5, 2.0]))
    elif cfg == 'collinear':
        b = LineSegment2D(a.p + a.v * rng.choice([0.5, 1.5, -1.0, 1.0]), a.v * rng.choice(
            [1.0, -0.25, 0.5]))
    else:
        e = 10.0 ** rng.uniform(-8, -3)
        w = Vector2D(a.v.x - e * a.v.y, a.v.y + e * a.v.x)
        b = LineSegment2D(a.p + a.v * rng.uniform(0.2, 0.8) - w * rng.uniform(0.2, 0.8), w)
    st = check_pair2d(a, b, cfg, out)
    hx.hist_add(hist['lines2d'], '%s x %s: %s' % (type(a).__name__, type(b).__name__, st))
    return 1, '%r x %r' % (a, b)


def _chain_case(rng, level, hist, out, closed):
    m = 0.0 if level else rng.choice([0.0, 10.0, 1e3])
    ox, oy = rng.uniform(-m, m), rng.uniform(-m, m)
    variant = ''
    if closed and rng.random() < 0.2:
        b, hs = hx.gen_holed(rng, 1, 8)
        poly = Polygon2D.from_shape_with_hole(
            [Point2D(x + ox, y + oy) for x, y in b], [Point2D(x + ox, y + oy) for x, y in hs[0]])
        variant = 'hole'
    else:
        pts, kind = hx.gen_loop(rng, 12)
        pts = [(x + ox, y + oy) for x, y in pts]
        if rng.random() < 0.5:
            pts = list(reversed(pts))
        if closed:
            poly = Polygon2D([Point2D(*p) for p in pts])
        else:
            k = rng.randint(3, len(pts))
            poly = Polyline2D([Point2D(*p) for p in pts[:k]])
    vs = [hx.fx(p) for p in poly.vertices]
    if closed:
        edges = [(vs[i - 1], vs[i]) for i in range(len(vs))]
    else:
        edges = list(zip(vs[:-1], vs[1:]))
    name = 'Polygon2D' if closed else 'Polyline2D'
    n = 0
    for _ in range(3):
        # aim at a point of an edge, at a vertex, or at a random point of the bounding box
        how = rng.choice(['edge', 'edge', 'bbox', 'vertex', 'outside'])
        i = rng.randrange(len(poly.vertices) - (0 if closed else 1))
        pa, pb = poly.vertices[i - 1] if closed else poly.vertices[i], \
            poly.vertices[i] if closed else poly.vertices[i + 1]
        if how == 'edge':
            t = rng.uniform(0.05, 0.95)
            target = Point2D(pa.x + (pb.x - pa.x) * t, pa.y + (pb.y - pa.y) * t)
        elif how == 'vertex':
            target = pb
        elif how == 'bbox':
            target = Point2D(rng.uniform(poly.min.x, poly.max.x),
                             rng.uniform(poly.min.y, poly.max.y))
        else:
            target = Point2D(poly.max.x + rng.uniform(0.5, 5), poly.max.y + rng.uniform(0.5, 5))
        lr, cfg = line_through(rng, target, 2)
        what = '%s(%s) x %r' % (name, ', '.join(pstr(p) for p in poly.vertices), lr)
        for method, lk in (('intersect_line_ray', kind_of(lr)),
                           ('intersect_line_infinite', 'line')):
            site = '%s.%s' % (name, method)
            g = hx.guarded(getattr(poly, method), lr)
            if g[0] == 'raise':
                out.append(('%s|raises %s' % (site, hx.exc_name(g[1])),
                            '%s: %s' % (what, str(g[1])[:200])))
                continue
            ne, na = check_chain_line(site, variant, edges, lr, lk, as_list(g[1]), out, what)
            hx.hist_add(hist['chains'], '%s: %d crossings%s' % (
                site, min(ne, 4), ' +borderline' if na else ''))
            n += 1
    return n, '%s %d vertices' % (name, len(poly.vertices))


def s_polygon2d(rng, level, hist, out):
    return _chain_case(rng, level, hist, out, True)


def s_polyline2d(rng, level, hist, out):
    return _chain_case(rng, level, hist, out, False)


def s_arc2d(rng, level, hist, out):
    a, variant = gen_arc2(rng, level)
    a1, span = arc_span(a)
    n = 0
    for _ in range(3):
        how = rng.choice(['on-arc', 'on-arc', 'on-circle', 'inside', 'tangent', 'outside'])
        if how == 'on-arc':
            ang, rad = a1 + span * rng.uniform(0.03, 0.97), a.r
        elif how == 'on-circle':
            ang, rad = rng.uniform(0, TWO_PI), a.r
        elif how == 'inside':
            ang, rad = rng.uniform(0, TWO_PI), a.r * rng.uniform(0, 0.95)
        elif how == 'outside':
            ang, rad = rng.uniform(0, TWO_PI), a.r * rng.uniform(1.5, 4)
        else:
            ang, rad = rng.uniform(0, TWO_PI), a.r
        target = Point2D(a.c.x + rad * math.cos(ang), a.c.y + rad * math.sin(ang))
        if how == 'tangent':
            d = Vector2D(-math.sin(ang), math.cos(ang)) * rng.uniform(0.5, 3) * a.r
            lr = LineSegment2D(target - d * rng.uniform(0.2, 0.8), d)
            cfg = 'tangent'
        elif how == 'outside':
            lr = LineSegment2D(target, Vector2D(-math.sin(ang), math.cos(ang)) * a.r)
            cfg = 'outside'
        else:
            lr, cfg = line_through(rng, target, 2, a.r * math.exp(rng.uniform(-2.5, 2.0)))
        for method, lk in (('intersect_line_ray', kind_of(lr)),
                           ('intersect_line_infinite', 'line')):
            g = hx.guarded(getattr(a, method), lr)
            if g[0] == 'raise':
                out.append(('Arc2D.%s|%s|raises %s' % (method, variant, hx.exc_name(g[1])),
                            'Arc2D(c=%s, r=%.9g, a1=%.9g, a2=%.9g) x %r: %s' % (
                                pstr(a.c), a.r, a.a1, a.a2, lr, str(g[1])[:200])))
                continue
            ne, na = check_arc_line(a, variant, lr, lk, as_list(g[1]), method, out)
            hx.hist_add(hist['arc2d'], '%s/%s: %d crossings%s' % (
                variant, method, ne, ' +borderline' if na else ''))
            n += 1
    return n, 'Arc2D %s' % variant


def s_plane_line(rng, level, hist, out):
    pl = rplane(rng, level)
    n = 0
    for _ in range(3):
        cfg = rng.choice(['aimed', 'aimed', 'parallel', 'in-plane', 'random'])
        target = pl.xy_to_xyz(Point2D(rng.uniform(-20, 20), rng.uniform(-20, 20)))
        if cfg == 'aimed':
            lr, c2 = line_through(rng, target, 3)
            cfg = 'aimed/' + c2
        elif cfg == 'parallel':
            v = pl.x * rng.uniform(-3, 3) + pl.y * rng.uniform(0.1, 3)
            lr = (Ray3D if rng.random() < 0.5 else LineSegment3D)(
                target + pl.n * rng.uniform(0.01, 5), v)
        elif cfg == 'in-plane':
            lr = LineSegment3D(target, pl.x * rng.uniform(-3, 3) + pl.y * rng.uniform(0.1, 3))
        else:
            lr = LineSegment3D(_pt(rng, 3, 30) + (target - Point3D(0, 0, 0)),
                               _dir(rng, 3) * rng.uniform(0.1, 60))
        st = check_plane_line(pl, lr, out)
        hx.hist_add(hist['plane_line'], '%s %s: %s' % (type(lr).__name__, cfg.split('/')[0], st))
        n += 1
    # a polyline crossing the plane several times
    pts = []
    base = pl.xy_to_xyz(Point2D(rng.uniform(-5, 5), rng.uniform(-5, 5)))
    for i in range(rng.randint(3, 8)):
        h = rng.choice([1, -1]) * rng.uniform(0.05, 4) if rng.random() < 0.85 else 0.0
        pts.append(base + pl.x * (i * rng.uniform(0.5, 2)) + pl.y * rng.uniform(-2, 2) + pl.n * h)
    pln = Polyline3D(pts)
    ne, na = check_polyline_plane(pln, pl, out)
    hx.hist_add(hist['polyline3d'], '%d crossings%s' % (min(ne, 5), ' +borderline' if na else ''))
    return n + 1, repr(pl)


def s_plane_plane(rng, level, hist, out):
    cfg = rng.choice(['random', 'random', 'parallel', 'antiparallel', 'coplanar', 'shallow'])
    m = _mag(rng, level)
    reps = 40 if cfg in ('parallel', 'antiparallel') else 1
    n_done = 0
    txt = ''
    for _ in range(reps):
        a = rplane(rng, level)
        n0 = Vector3D(*tuple(a.n))
        if reps > 1 and rng.random() < 0.5:
            # short decimal normals: both planes normalise the same vector
            n0 = Vector3D(round(rng.uniform(-3, 3), 1), round(rng.uniform(-3, 3), 1),
                          round(rng.uniform(0.1, 3), 1))
        a = Plane(n0, a.o)              # b below is built from the same n0: exactly parallel
        if cfg == 'random':
            b = rplane(rng, level)
            n1, n2 = hx.fx(a.n), hx.fx(b.n)
            if fsq(hx.n2(hx.cross(n1, n2))) < 1e-3:
                continue
        elif cfg == 'parallel':
            b = Plane(n0, _pt(rng, 3, m))
        elif cfg == 'antiparallel':
            b = Plane(n0.reverse(), _pt(rng, 3, m))
        elif cfg == 'coplanar':
            b = Plane(n0, a.o)
        else:
            e = 10.0 ** rng.uniform(-2.7, -1)
            b = Plane(a.n + a.x * e, _pt(rng, 3, m))
        st = check_plane_plane(a, b, out)
        hx.hist_add(hist['plane_plane'], '%s: %s' % (cfg, st))
        n_done += 1
        txt = '%r x %r' % (a, b)
    return n_done, txt


def s_plane_arc(rng, level, hist, out):
    a2, variant = gen_arc2(rng, level)
    apl = rplane(rng, level)
    n0 = Vector3D(*tuple(apl.n))
    apl = Plane(n0, apl.o, apl.x)    # 'parallel' cuts reuse n0: exactly parallel planes
    arc = Arc3D(apl, a2.r, a2.a1, a2.a2)
    a1, span = arc_span(a2)
    n = 0
    for _ in range(2):
        how = rng.choice(['on-arc', 'on-arc', 'inside', 'outside', 'parallel'])
        if how == 'on-arc':
            ang, rad = a1 + span * rng.uniform(0.03, 0.97), a2.r
        elif how == 'inside':
            ang, rad = rng.uniform(0, TWO_PI), a2.r * rng.uniform(0, 0.95)
        else:
            ang, rad = rng.uniform(0, TWO_PI), a2.r * rng.uniform(1.2, 4)
        target = apl.xy_to_xyz(Point2D(rad * math.cos(ang), rad * math.sin(ang)))
        if how == 'parallel':
            pl = Plane(n0, target + apl.n * rng.uniform(0.1, 3))
        elif how == 'outside':
            # a plane whose trace passes outside the circle: normal along the radius
            pl = Plane(apl.x * math.cos(ang) + apl.y * math.sin(ang) + apl.n * rng.uniform(-1, 1),
                       target)
        else:
            pl = plane_through(rng, target, level)
        ne, na = check_plane_arc(pl, arc, variant, out)
        hx.hist_add(hist['plane_arc'], '%s/%s: %d crossings%s' % (
            variant, how, ne, ' +borderline' if na else ''))
        n += 1
    return n, 'Arc3D %s' % variant


def s_sphere(rng, level, hist, out):
    m = _mag(rng, level)
    sp = Sphere(_pt(rng, 3, m) if not level else Point3D(0, 0, 0),
                math.exp(rng.uniform(math.log(0.05), math.log(30.0))) if not level else 1.0)
    n = 0
    for _ in range(3):
        how = rng.choice(['inside', 'inside', 'surface', 'outside', 'far'])
        d = hx.rand_unit3(rng)
        if how == 'inside':
            target = sp.center + d * (sp.radius * rng.uniform(0, 0.95))
        elif how == 'surface':
            target = sp.center + d * sp.radius
        elif how == 'outside':
            target = sp.center + d * (sp.radius * rng.uniform(1.05, 3))
        else:
            target = sp.center + d * (sp.radius * 20)
        lr, cfg = line_through(rng, target, 3, sp.radius * math.exp(rng.uniform(-2.5, 2.5)))
        st = check_sphere_line(sp, lr, out)
        hx.hist_add(hist['sphere_line'], '%s: %s' % (type(lr).__name__, st))
        pl = Plane(hx.rand_unit3(rng), target)
        st = check_sphere_plane(sp, pl, out)
        hx.hist_add(hist['sphere_plane'], st)
        n += 2
    return n, 'Sphere r=%.4g' % sp.radius


def _face_target(rng, f, pl2d_pts, plane):
    """A point of the face plane: inside the bounding box of the loop, or well outside."""
    xs, ys = [p[0] for p in pl2d_pts], [p[1] for p in pl2d_pts]
    if rng.random() < 0.8:
        q = Point2D(rng.uniform(min(xs), max(xs)), rng.uniform(min(ys), max(ys)))
    else:
        q = Point2D(max(xs) + rng.uniform(0.5, 5), rng.uniform(min(ys), max(ys)))
    return plane.xy_to_xyz(q)


def s_face(rng, level, hist, out):
    f, pl, pts, kind = gen_face(rng, level)
    fx_ = FaceX(f)
    n = 0
    for _ in range(3):
        target = _face_target(rng, f, pts, pl)
        if rng.random() < 0.15:
            v = pl.x * rng.uniform(-3, 3) + pl.y * rng.uniform(0.1, 3)
            lr = LineSegment3D(target + pl.n * rng.choice([0.0, 0.5]), v)
        else:
            lr, cfg = line_through(rng, target, 3)
        st = check_face_line(f, lr, out, fx_)
        hx.hist_add(hist['face_line'], '%s/%s: %s' % ('holes' if fx_.h2 else 'plain',
                                                      type(lr).__name__, st))
        n += 1
    for _ in range(3):
        target = _face_target(rng, f, pts, pl)
        how = rng.choice(['random', 'random', 'along-x', 'along-y', 'parallel'])
        if how == 'random':
            cut = plane_through(rng, target, level)
        elif how == 'along-x':
            cut = Plane(f.plane.y * rng.choice([1.0, -1.0]) + f.plane.n * rng.uniform(-1, 1),
                        target)
        elif how == 'along-y':
            cut = Plane(f.plane.x * rng.choice([1.0, -1.0]) + f.plane.n * rng.uniform(-1, 1),
                        target)
        else:
            cut = Plane(f.plane.n, target + f.plane.n * rng.uniform(0.1, 2))
        st, k = check_face_plane(f, cut, out, fx_)
        hx.hist_add(hist['face_plane'], '%s/%s: %s %d pieces' % (
            'holes' if fx_.h2 else 'plain', how, st, min(k, 4)))
        n += 1
    return n, 'Face3D %s %d vertices' % (kind, len(f.vertices))


def s_polyface(rng, level, hist, out):
    pl = rplane(rng, level)
    ch = rng.random()
    if ch < 0.35:
        pf = Polyface3D.from_box(rng.uniform(0.3, 6), rng.uniform(0.3, 6), rng.uniform(0.3, 6), pl)
        variant = 'box'
    elif ch < 0.7:
        pts, kind = hx.gen_loop(rng, 8)
        pf = Polyface3D.from_offset_face(Face3D(hx.to3d(pl, pts)), rng.uniform(0.3, 4))
        variant = 'extrusion'
    elif ch < 0.85:
        b, hs = hx.gen_holed(rng, 1, 6)
        pf = Polyface3D.from_offset_face(
            Face3D(hx.to3d(pl, b), None, [hx.to3d(pl, hs[0])]), rng.uniform(0.3, 4))
        variant = 'holed-extrusion'
    else:
        box = Polyface3D.from_box(rng.uniform(0.3, 6), rng.uniform(0.3, 6), rng.uniform(0.3, 6),
                                  pl)
        pf = Polyface3D.from_faces(list(box.faces)[:5], 1e-6)
        variant = 'open-box'
    c = pf.center
    size = pf.max.distance_to_point(pf.min)
    n = 0
    for _ in range(2):
        target = c + hx.rand_unit3(rng) * (size * rng.uniform(0, 0.4))
        lr, cfg = line_through(rng, target, 3, size * math.exp(rng.uniform(-1.5, 1.5)))
        ne, na = check_polyface_line(pf, lr, variant, out)
        hx.hist_add(hist['polyface_line'], '%s: %d hits%s' % (variant, min(ne, 4),
                                                              ' +borderline' if na else ''))
        cut = plane_through(rng, target, level)
        ne, na = check_polyface_plane(pf, cut, variant, out)
        hx.hist_add(hist['polyface_plane'], '%s: %d pieces%s' % (variant, min(ne, 8),
                                                                 ' +borderline' if na else ''))
        n += 2
    return n, 'Polyface3D %s' % variant


STREAMS = [('lines2d', s_lines2d, 6), ('polygon2d', s_polygon2d, 2), ('polyline2d', s_polyline2d, 1),
           ('arc2d', s_arc2d, 3), ('plane_line', s_plane_line, 2), ('plane_plane', s_plane_plane, 3),
           ('plane_arc', s_plane_arc, 2), ('sphere', s_sphere, 2), ('face', s_face, 2),
           ('polyface', s_polyface, 1)]
HISTS = ('lines2d', 'chains', 'arc2d', 'plane_line', 'polyline3d', 'plane_plane', 'plane_arc',
         'sphere_line', 'sphere_plane', 'face_line', 'face_plane', 'polyface_line',
         'polyface_plane')


def run_stream(name, key, level):
    fn = dict((n, f) for n, f, w in STREAMS)[name]
    hist = dict((h, {}) for h in HISTS)
    out = []
    g = hx.guarded(fn, random.Random(key), level, hist, out)
    if g[0] == 'raise':
        out.append(('c11.%s|harness raises %s' % (name, hx.exc_name(g[1])), str(g[1])[:300]))
        return 0, '', out, hist
    return g[1][0], g[1][1], out, hist


def run(ctx):
    seed = ctx.seed
    thorough = ctx.tier == 'thorough' or bool(ctx.broken)
    budget = 420.0 if thorough else 28.0
    hard = min(ctx.deadline, time.time() + (700.0 if thorough else 42.0))
    t_end = min(ctx.deadline - 8.0, time.time() + budget)
    max_rounds = 100000 if thorough else 400
    hist = dict((h, {}) for h in HISTS)
    hist['stream_evaluations'] = {}
    raw = {}
    evaluations = 0
    nontrivial = set()
    samples = []
    rnd = 0
    while time.time() < t_end and rnd < max_rounds:
        for name, fn, weight in STREAMS:
            for wi in range(weight):
                key = '%s/c11/%s/%d/%d' % (seed, name, rnd, wi)
                n, txt, out, h = run_stream(name, key, 0)
                for hk, hv in h.items():
                    for a, b in hv.items():
                        hx.hist_add(hist[hk], a, b)
                evaluations += n
                hx.hist_add(hist['stream_evaluations'], name, n)
                if n:
                    nontrivial.add(key)
                if len(samples) < 8 and txt and (rnd * 5 + wi) % 37 == 0:
                    samples.append({'stream': name, 'case': txt[:200]})
                for sig, what in out:
                    if sig not in raw:
                        raw[sig] = (what, {'stream': name, 'rng': key, 'level': 0})
        rnd += 1
    fails = hx.Failures()
    for sig, (what, rec) in sorted(raw.items()):
        size = 5
        # look for a small witness: the same stream restricted to unit-size, axis-aligned inputs
        t_stop = min(hard - 1, time.time() + (20 if thorough else 3))
        i = 0
        while time.time() < t_stop and i < 400:
            key = 'shrink/%s/%d' % (rec['stream'], i)
            n, txt, out, h = run_stream(rec['stream'], key, 1)
            hit = [w for s, w in out if s == sig]
            if hit:
                what, rec, size = hit[0], {'stream': rec['stream'], 'rng': key, 'level': 1}, 1
                break
            i += 1
        fails.add(sig, what, size, replay=rec, module='c11')
    return {
        'evaluations': evaluations,
        'distinct_nontrivial': len(nontrivial),
        'rule': 'operand pairs built around a target point of the first operand (aimed lines '
                'whose range contains / stops short of / starts beyond / ends at the target, '
                'cutting planes through it) plus random, exactly parallel, collinear, coplanar, '
                'tangent, near-parallel and fully separated pairs; the true configuration is '
                'classified exactly (crossing / separated / borderline); an evaluation is one '
                'routine call checked in both halves; non-trivial = distinct generated operand '
                'set with at least one evaluated call',
        'samples': samples,
        'failures': fails.list(),
        'extra': {'histograms': hist},
    }


def replay(ctx, failure):
    rec = failure.get('replay')
    if not rec:
        return None
    n, txt, out, h = run_stream(rec['stream'], rec['rng'], rec.get('level', 0))
    for sig, what in out:
        if sig == failure['signature']:
            f = dict(failure)
            f['what'] = what
            return f
    if out:
        f = dict(failure)
        f['signature'], f['what'] = out[0]
        return f
    return None
