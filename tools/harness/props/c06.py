"""C06 - Face3D plane, normal and right-hand-rule contract (whole-object level).

Every Face3D built by any public constructor from a *valid* planar loop is checked on the
real code with an exact oracle (Python Fractions; every float is a rational):

  unit      |normal| = 1 (1e-9)
  rhr       normal = normalised Newell vector of the STORED boundary (exact Newell sum,
            direction compared on exact squares) and, with holes, of the merged vertex loop
  expected  normal = right-hand-rule normal of the INPUT order (no user plane) or the
            user plane's normal (user plane); stored boundary = input loop, reversed iff the
            input order opposes the normal; hole count kept
  ccw       shoelace of the exact plane-2D coordinates of boundary / vertices > 0;
            is_clockwise, boundary_polygon2d.is_clockwise, polygon2d.is_clockwise False
  frame     |x| = |y| = |n| = 1, x.n = x.y = y.n = 0, x cross y = n (1e-9)
  roundtrip xy_to_xyz(xyz_to_xy(v)) = v for every vertex (1e-9 relative)
  flip      flip(): normal negated, boundary reversed, area and hole count preserved, and
            the flipped face satisfies all of the above again
"""
import math
import random
import time
from fractions import Fraction as F

from ladybug_geometry.geometry2d.pointvector import Point2D
from ladybug_geometry.geometry3d.pointvector import Point3D, Vector3D
from ladybug_geometry.geometry3d.plane import Plane
from ladybug_geometry.geometry3d.line import LineSegment3D
from ladybug_geometry.geometry3d.face import Face3D

from . import hxlib as hx

TOL = 1e-9
ASSUMPTIONS = [
    'valid inputs only, decided exactly: simple loops of 3..60 vertices, smallest edge >= 1e-3, '
    'non-sliver area, holes strictly inside the boundary and pairwise disjoint (gap >= 1e-2), '
    'coordinates up to 1e3 in quick runs (1e4 in thorough)',
    'loops are planar up to the rounding of plane.xy_to_xyz (the inputs are produced by placing '
    'exact 2D loops in a random plane); a user plane always contains the loop',
    'numeric agreement 1e-9 relative to the coordinate magnitude; directions 1e-9 * '
    'max(1, magnitude / loop size)',
]
TRUSTED = [
    'C06 oracle is a Python Fraction implementation (Newell vector, shoelace, frame algebra); '
    'no Lean executable specification is used at the whole-object level',
]

CTORS = ['vertices', 'vertices_plane', 'holes', 'holes_plane', 'from_rectangle',
         'from_extrusion', 'from_regular_polygon', 'from_punched_geometry', 'from_dict',
         'from_dict_noplane', 'from_array']
SIMPLE_PLANE = {'plane_kind': 'axis0', 'mag': 1.0}


# ------------------------------------------------------------------ case construction
def _rng(desc, part):
    return random.Random('%s/%s' % (desc['sub'], part))


def _plane(desc):
    if desc['plane_kind'] == 'axis0':
        return Plane(Vector3D(0, 0, 1), Point3D(0, 0, 0)), 'axis0'
    return hx.rand_plane(_rng(desc, 'plane'), desc['mag'], desc['plane_kind'])


def _loop(desc):
    """The 2D loop (ccw) of the case after the start-vertex variant."""
    rng = _rng(desc, 'loop')
    kind, n = desc['loop'], desc['n']
    for _ in range(60):
        cx, cy = rng.uniform(-5, 5), rng.uniform(-5, 5)
        if desc.get('centered'):
            cx = cy = 0.0
        if kind == 'star':
            pts = hx.gen_star(rng, max(4, n), cx, cy)
        elif kind == 'bigstar':
            pts = hx.gen_star(rng, max(4, n), cx, cy, 2.0, 6.0, 0.6)
        elif kind == 'convex':
            pts = hx.gen_convex(rng, max(3, n), cx, cy)
        elif kind == 'rectilinear':
            pts = hx.gen_rectilinear(rng, round(cx), round(cy))
        elif kind == 'L':
            pts = [(0.0, 0.0), (4.0, 0.0), (4.0, 1.0), (1.0, 1.0), (1.0, 3.0), (0.0, 3.0)]
        elif kind == 'tri':
            pts = [(0.0, 0.0), (2.0, 0.0), (0.0, 1.0)]
        else:
            pts = hx.rot_loop(hx.gen_rectilinear(rng, cx, cy, rng.uniform(0.5, 2.0)),
                              rng.uniform(0, 2 * math.pi), cx, cy)
        if not hx.valid_loop(pts):
            continue
        v = desc['variant']
        if v == 'concave_first':
            q = hx.concave_first_corner(pts)
            if q is None:
                continue
            pts = q
        elif v == 'collinear_first':
            pts = hx.collinear_first_three(pts, rng)
            if hx.min_edge(pts) < 1e-3:
                continue
        else:
            pts = hx.start_at(pts, desc['shift'] % len(pts))
        return pts
    return None


def _user_plane(desc, pl, pts3):
    up = desc.get('user_plane')
    rng = _rng(desc, 'uplane')
    if up is None:
        return None
    n = pl.n if 'opposed' not in up else pl.n.reverse()
    if 'otherx' in up:
        ang = rng.uniform(0, 2 * math.pi)
        x = pl.x * math.cos(ang) + pl.y * math.sin(ang)
        o = pts3[rng.randrange(len(pts3))]
        return Plane(n, o, x)
    if 'defaultx' in up:
        return Plane(n, pl.o)
    return Plane(n, pl.o, pl.x)


def build(desc):
    """descriptor -> (face, info) or None when the descriptor does not yield a valid input.
    info: expected normal (exact 3-tuple direction), expected boundary (list of Point3D in
    stored order up to a cyclic shift), expected number of holes, 'scale', 'size'."""
    ctor = desc['ctor']
    pl, pk = _plane(desc)
    rng = _rng(desc, 'ctor')
    info = {'plane_kind': pk}
    if ctor in ('vertices', 'vertices_plane', 'from_dict', 'from_dict_noplane', 'from_array',
                'holes', 'holes_plane', 'from_punched_geometry'):
        holes2 = []
        if ctor in ('holes', 'holes_plane', 'from_punched_geometry') or desc.get('nholes'):
            nh = desc.get('nholes', 1)
            try:
                b2, holes2 = hx.gen_holed(_rng(desc, 'loop'), nh, max(6, desc['n']))
            except RuntimeError:
                return None
            b2 = hx.start_at(b2, desc['shift'] % len(b2))
        else:
            b2 = _loop(desc)
            if b2 is None:
                return None
        ccw = desc['order'] == 'ccw'
        b2o = list(b2) if ccw else list(reversed(b2))
        b3 = hx.to3d(pl, b2o)
        holes3 = []
        for k, h in enumerate(holes2):
            ho = desc.get('hole_orient', 'ccw' * 1)
            o = ho[k % len(ho)] if isinstance(ho, (list, tuple)) else ho
            h2 = list(h) if o == 'ccw' else list(reversed(h))
            holes3.append(hx.to3d(pl, h2))
        info['nholes'] = len(holes3)
        up = _user_plane(desc, pl, b3) if ctor in ('vertices_plane', 'holes_plane') or \
            (ctor in ('from_dict', 'from_punched_geometry') and desc.get('user_plane')) else None
        # expected normal and stored order
        if up is None:
            nexp = hx.fx(pl.n) if ccw else hx.fx(pl.n.reverse())
            info['boundary'] = b3
        else:
            nexp = hx.fx(up.n)
            same = (hx.dot(hx.fx(up.n), hx.fx(pl.n)) > 0) == ccw
            info['boundary'] = b3 if same else list(reversed(b3))
        info['nexp'] = nexp
        if ctor == 'vertices':
            f = Face3D(b3)
        elif ctor == 'vertices_plane':
            f = Face3D(b3, up)
        elif ctor == 'holes':
            f = Face3D(b3, None, holes3)
        elif ctor == 'holes_plane':
            f = Face3D(b3, up, holes3)
        elif ctor == 'from_array':
            arr = [[tuple(p) for p in b3]] + [[tuple(p) for p in h] for h in holes3]
            f = Face3D.from_array(arr)
        elif ctor in ('from_dict', 'from_dict_noplane'):
            f0 = Face3D(b3, up, holes3 if holes3 else None)
            d = f0.to_dict(include_plane=(ctor == 'from_dict'))
            f = Face3D.from_dict(d)
            # from_dict starts from f0's stored boundary
            info['boundary'] = list(f0.boundary)
            info['nexp'] = nexp
        else:   # from_punched_geometry
            base = Face3D(b3, up)
            subs = []
            for h in holes3:
                sf = Face3D(h)
                if rng.random() < 0.5:
                    sf = sf.flip()
                subs.append(sf)
            if desc.get('base_holes') and len(subs) > 1:
                base = Face3D(b3, up, [list(subs[0].boundary)])
                subs = subs[1:]
            f = Face3D.from_punched_geometry(base, subs)
            info['boundary'] = list(base.boundary)
    elif ctor == 'from_rectangle':
        b, h = rng.uniform(0.05, 20), rng.uniform(0.05, 20)
        if desc.get('simple'):
            b, h = 2.0, 1.0
        f = Face3D.from_rectangle(b, h, pl)
        o = pl.o
        info['boundary'] = [o, o + pl.x * b, o + pl.x * b + pl.y * h, o + pl.y * h]
        info['nexp'] = hx.fx(pl.n)
        info['nholes'] = 0
    elif ctor == 'from_regular_polygon':
        n = max(3, desc['n'])
        r = rng.uniform(0.1, 20)
        f = Face3D.from_regular_polygon(n, r, pl)
        info['boundary'] = None
        info['count'] = n
        info['nexp'] = hx.fx(pl.n)
        info['nholes'] = 0
    elif ctor == 'from_extrusion':
        # a segment in the plane and an extrusion vector in the plane, not parallel
        a = rng.uniform(0, 2 * math.pi)
        da = rng.choice([1, -1]) * rng.uniform(0.15, math.pi - 0.15)
        l1, l2 = rng.uniform(0.1, 20), rng.uniform(0.1, 20)
        if desc.get('simple'):
            a, da, l1, l2 = 0.0, math.pi / 2, 2.0, 1.0
        sv = pl.x * (l1 * math.cos(a)) + pl.y * (l1 * math.sin(a))
        ev = pl.x * (l2 * math.cos(a + da)) + pl.y * (l2 * math.sin(a + da))
        p1 = pl.xy_to_xyz(Point2D(rng.uniform(-3, 3), rng.uniform(-3, 3)))
        seg = LineSegment3D(p1, sv)
        f = Face3D.from_extrusion(seg, ev)
        info['boundary'] = [seg.p1, seg.p2, seg.p2 + ev, seg.p1 + ev]
        nexp = hx.cross(hx.fx(sv), hx.fx(ev))
        info['nexp'] = nexp
        info['nholes'] = 0
    else:
        raise ValueError(ctor)
    return f, info


# ------------------------------------------------------------------ the oracle
def _cyclic_equal(a, b, tol):
    """a, b lists of exact tuples; equal up to a cyclic shift within tol."""
    n = len(a)
    if n != len(b):
        return False
    t2 = F(tol) ** 2
    for s in range(n):
        if hx.n2(hx.sub(a[0], b[s])) <= t2:
            if all(hx.n2(hx.sub(a[i], b[(s + i) % n])) <= t2 for i in range(n)):
                return True
    return False


def check_contract(f, tag=''):
    """The construction-independent clauses on one face.  Returns [(clause, detail)]."""
    out = []
    b = [hx.fx(p) for p in f.boundary]
    allv = [hx.fx(p) for p in f.vertices]
    scale = hx.mag_of(f.boundary, f.plane.o)
    tol = TOL * scale
    pl = f.plane
    o, x, y, n = hx.frame_of(pl)
    nn = hx.fx(f.normal)
    if nn != n:
        out.append((tag + 'normal-is-plane-n', 'face.normal %r != plane.n %r' % (f.normal, pl.n)))
    # unit
    for nm, v in (('n', n), ('x', x), ('y', y)):
        if abs(math.sqrt(float(hx.n2(v))) - 1.0) > TOL:
            out.append((tag + 'frame-unit', '|%s| = %.15g' % (nm, math.sqrt(float(hx.n2(v))))))
    for nm, v, w in (('x.n', x, n), ('x.y', x, y), ('y.n', y, n)):
        if abs(float(hx.dot(v, w))) > TOL:
            out.append((tag + 'frame-orthogonal', '%s = %.3g' % (nm, float(hx.dot(v, w)))))
    c = hx.cross(x, y)
    if math.sqrt(float(hx.n2(hx.sub(c, n)))) > TOL:
        out.append((tag + 'frame-right-handed', 'x cross y - n = %s' % (
            [float(t) for t in hx.sub(c, n)],)))
    # right-hand-rule normal of the stored boundary
    N = hx.newell(b)
    NN = hx.n2(N)
    if NN == 0:
        out.append((tag + 'rhr-normal', 'stored boundary has zero area vector'))
        return out
    size = math.sqrt(math.sqrt(float(NN)) / 2.0)
    dirtol = TOL * max(1.0, scale / size)
    cr = hx.cross(n, N)
    if hx.dot(n, N) <= 0 or hx.n2(cr) > F(dirtol) ** 2 * NN * hx.n2(n):
        nf = math.sqrt(float(NN))
        out.append((tag + 'rhr-normal', 'normal %s vs Newell normal of the stored boundary %s'
                    % ([float(t) for t in n], [float(t) / nf for t in N])))
    if f.has_holes:
        NV = hx.newell(allv)
        if hx.dot(n, NV) <= 0:
            out.append((tag + 'rhr-normal-merged', 'merged vertex loop winds against the normal'))
    # counter-clockwise in the exact plane coordinates
    fr = (o, x, y, n)
    b2 = [hx.to2d_exact(fr, p) for p in b]
    if hx.shoelace2(b2) <= 0:
        out.append((tag + 'ccw-boundary', 'shoelace of the boundary in plane coordinates = %.6g'
                    % float(hx.shoelace2(b2) / 2)))
    v2 = [hx.to2d_exact(fr, p) for p in allv]
    if hx.shoelace2(v2) <= 0:
        out.append((tag + 'ccw-vertices', 'shoelace of vertices in plane coordinates = %.6g'
                    % float(hx.shoelace2(v2) / 2)))
    for nm, get in (('is_clockwise', lambda: f.is_clockwise),
                    ('boundary_polygon2d.is_clockwise',
                     lambda: f.boundary_polygon2d.is_clockwise),
                    ('polygon2d.is_clockwise', lambda: f.polygon2d.is_clockwise)):
        r = hx.guarded(get)
        if r[0] == 'raise':
            out.append((tag + nm + '|raises ' + hx.exc_name(r[1]), str(r[1])[:200]))
        elif r[1] is not False:
            out.append((tag + 'ccw-flag', '%s is %r' % (nm, r[1])))
    # round trip of every vertex
    worst = 0.0
    loops = [f.boundary] + (list(f.holes) if f.has_holes else []) + [f.vertices]
    for lp in loops:
        for p in lp:
            r = hx.guarded(lambda: pl.xy_to_xyz(pl.xyz_to_xy(p)))
            if r[0] == 'raise':
                out.append((tag + 'roundtrip|raises ' + hx.exc_name(r[1]), str(r[1])[:200]))
                break
            d = hx.fdist(p, r[1])
            worst = max(worst, d)
    if worst > tol:
        out.append((tag + 'roundtrip', 'vertex moves by %.3g (tolerance %.3g) through '
                    'xyz_to_xy / xy_to_xyz' % (worst, tol)))
    return out


def check_face(f, info):
    out = _check_face(f, info)
    return out[:1]          # the first violated clause identifies the case


def _check_face(f, info):
    out = check_contract(f)
    if out:
        return out
    scale = hx.mag_of(f.boundary, f.plane.o)
    tol = TOL * scale
    n = hx.fx(f.normal)
    # expected normal
    ne = info['nexp']
    NE = hx.n2(ne)
    b = [hx.fx(p) for p in f.boundary]
    N = hx.newell(b)
    size = math.sqrt(math.sqrt(float(hx.n2(N))) / 2.0) if hx.n2(N) > 0 else 1.0
    dirtol = TOL * max(1.0, scale / size)
    if hx.dot(n, ne) <= 0 or hx.n2(hx.cross(n, ne)) > F(dirtol) ** 2 * NE * hx.n2(n):
        ef = math.sqrt(float(NE))
        out.append(('expected-normal', 'normal %s, expected %s' % (
            [float(t) for t in n], [float(t) / ef for t in ne])))
    # stored boundary = expected loop (cyclic)
    if info.get('boundary') is not None:
        eb = [hx.fx(p) for p in info['boundary']]
        if not _cyclic_equal(eb, b, tol):
            rev = _cyclic_equal(list(reversed(eb)), b, tol)
            out.append(('stored-boundary', 'stored boundary is %s' % (
                'the expected loop reversed' if rev else 'not the input loop')))
    elif len(b) != info.get('count', len(b)):
        out.append(('stored-boundary', 'vertex count %d, expected %d' % (len(b), info['count'])))
    nh = len(f.holes) if f.has_holes else 0
    if nh != info.get('nholes', 0):
        out.append(('hole-count', '%d holes, expected %d' % (nh, info.get('nholes', 0))))
    if out:
        return out
    # flip
    r = hx.guarded(f.flip)
    if r[0] == 'raise':
        out.append(('flip|raises ' + hx.exc_name(r[1]), str(r[1])[:200]))
        return out
    g = r[1]
    gn = hx.fx(g.normal)
    if math.sqrt(float(hx.n2(hx.add(gn, n)))) > TOL:
        out.append(('flip-normal', 'flip().normal + normal = %s' % (
            [float(t) for t in hx.add(gn, n)],)))
    gb = [hx.fx(p) for p in g.boundary]
    if not _cyclic_equal(list(reversed(b)), gb, tol):
        out.append(('flip-boundary', 'flip().boundary is not the reversed boundary'))
    gh = len(g.holes) if g.has_holes else 0
    if gh != nh:
        out.append(('flip-hole-count', '%d holes after flip, %d before' % (gh, nh)))
    ra, rb = hx.guarded(lambda: f.area), hx.guarded(lambda: g.area)
    if ra[0] == 'raise' or rb[0] == 'raise':
        e = ra[1] if ra[0] == 'raise' else rb[1]
        out.append(('area|raises ' + hx.exc_name(e), str(e)[:200]))
    else:
        # exact area of the region: boundary minus holes (shoelace in exact plane coordinates)
        if abs(ra[1] - rb[1]) > TOL * max(1.0, abs(ra[1])) * max(1.0, scale / size):
            out.append(('flip-area', 'area %.12g, after flip %.12g' % (ra[1], rb[1])))
    out.extend(check_contract(g, 'flip:'))
    return out


# ------------------------------------------------------------------ driver
def run_desc(desc):
    """-> (status, [(signature, what)]) ; status 'skip' when no valid input."""
    r = hx.guarded(build, desc)
    if r[0] == 'raise':
        return 'ok', [('Face3D|%s|raises %s' % (desc['ctor'], hx.exc_name(r[1])),
                       'constructor raised %s: %s' % (hx.exc_name(r[1]), str(r[1])[:200]))]
    if r[1] is None:
        return 'skip', []
    f, info = r[1]
    c = hx.guarded(check_face, f, info)
    if c[0] == 'raise':
        return 'ok', [('Face3D|%s|raises %s' % (desc['ctor'], hx.exc_name(c[1])),
                       'reading the face raised %s: %s' % (hx.exc_name(c[1]), str(c[1])[:200]))]
    return 'ok', [('Face3D|%s|%s' % (desc['ctor'], cl), '%s [%s]: %s' % (
        desc['ctor'], _short(desc), det)) for (cl, det) in c[1]]


def _short(desc):
    keys = ('loop', 'n', 'variant', 'shift', 'order', 'plane_kind', 'mag', 'nholes',
            'hole_orient', 'user_plane')
    return ' '.join('%s=%s' % (k, desc[k]) for k in keys if desc.get(k) is not None)


def _size(desc):
    s = desc.get('n', 3) + 10 * desc.get('nholes', 0)
    s += 0 if desc.get('plane_kind') == 'axis0' else 5
    s += 0 if desc.get('loop') in ('tri', 'L') else 3
    s += desc.get('shift', 0)
    return s


def shrink(desc, sig):
    """Greedy simplification of the descriptor keeping the signature."""
    cur = dict(desc)
    tries = [
        {'plane_kind': 'axis0', 'mag': 1.0},
        {'plane_kind': 'axis'},
        {'mag': 1.0},
        {'nholes': 1}, {'hole_orient': 'ccw'},
        {'loop': 'tri', 'n': 3, 'variant': 'plain'},
        {'loop': 'L', 'n': 6},
        {'loop': 'L', 'n': 6, 'variant': 'plain'},
        {'n': 4}, {'n': 5}, {'n': 6},
        {'shift': 0}, {'order': 'ccw'}, {'user_plane': 'same'}, {'simple': True},
        {'centered': True},
    ]
    changed = True
    rounds = 0
    while changed and rounds < 4:
        changed = False
        rounds += 1
        for t in tries:
            if all(cur.get(k) == v for k, v in t.items()):
                continue
            if 'nholes' in t and not cur.get('nholes'):
                continue
            cand = dict(cur)
            cand.update(t)
            if _size(cand) > _size(cur):
                continue
            st, fl = run_desc(cand)
            if st == 'ok' and any(s == sig for s, _ in fl):
                cur = cand
                changed = True
    return cur


def descriptors(seed, thorough):
    """The stream of case descriptors."""
    rng = random.Random('%s/c06/stream' % seed)
    i = 0
    mags = [1.0, 10.0, 100.0, 1e3] + ([1e4] if thorough else [])
    while True:
        i += 1
        ctor = CTORS[i % len(CTORS)]
        d = {'ctor': ctor, 'sub': '%s/c06/%d' % (seed, i)}
        d['plane_kind'] = rng.choice(hx.PLANE_KINDS)
        d['mag'] = rng.choice(mags)
        d['loop'] = rng.choice(['star', 'star', 'bigstar', 'convex', 'rectilinear', 'rot'])
        nmax = 60 if (thorough and rng.random() < 0.1) else (24 if rng.random() < 0.15 else 10)
        d['n'] = rng.randint(3, nmax)
        d['variant'] = rng.choice(['plain', 'plain', 'concave_first', 'collinear_first'])
        d['shift'] = rng.randint(0, 11)
        d['order'] = rng.choice(['ccw', 'cw'])
        if ctor in ('holes', 'holes_plane', 'from_punched_geometry'):
            d['nholes'] = rng.randint(1, 3)
        elif ctor in ('from_dict', 'from_dict_noplane', 'from_array'):
            d['nholes'] = rng.choice([0, 0, 1, 2, 3])
        if d.get('nholes'):
            d['hole_orient'] = [rng.choice(['ccw', 'cw']) for _ in range(3)]
            d['base_holes'] = rng.random() < 0.3
        if ctor in ('vertices_plane', 'holes_plane'):
            d['user_plane'] = rng.choice(['same', 'opposed', 'otherx', 'opposed_otherx',
                                          'defaultx', 'opposed_defaultx'])
        elif ctor in ('from_dict', 'from_punched_geometry'):
            d['user_plane'] = rng.choice([None, 'same', 'opposed', 'opposed_otherx'])
        yield d
        # every cyclic start of small plain loops for the vertex-list constructors
        if ctor in ('vertices', 'vertices_plane') and d['variant'] == 'plain' and d['n'] <= 12 \
                and (thorough or i % 3 == 0):
            for s in range(12):
                if s == d['shift']:
                    continue
                e = dict(d)
                e['shift'] = s
                e['all_starts'] = True
                yield e


def run(ctx):
    seed = ctx.seed
    thorough = ctx.tier == 'thorough' or bool(ctx.broken)
    budget = 420.0 if thorough else 28.0
    hard = min(ctx.deadline, time.time() + (700.0 if thorough else 42.0))
    t_end = min(ctx.deadline - 5.0, time.time() + budget)
    fails = hx.Failures()
    raw = {}
    hist = {'ctor': {}, 'plane_kind': {}, 'variant': {}, 'vertices': {}, 'holes': {},
            'user_plane': {}, 'order': {}, 'mag': {}, 'skipped_invalid': 0}
    evaluations = 0
    nontrivial = set()
    samples = []
    max_cases = 200000 if thorough else 4000
    for d in descriptors(seed, thorough):
        if time.time() > t_end or evaluations >= max_cases:
            break
        st, fl = run_desc(d)
        if st == 'skip':
            hist['skipped_invalid'] += 1
            continue
        evaluations += 1
        hx.hist_add(hist['ctor'], d['ctor'])
        hx.hist_add(hist['plane_kind'], d['plane_kind'])
        hx.hist_add(hist['order'], d['order'])
        hx.hist_add(hist['mag'], str(d['mag']))
        if d['ctor'] in ('vertices', 'vertices_plane', 'from_dict', 'from_dict_noplane',
                         'from_array') and not d.get('nholes'):
            hx.hist_add(hist['variant'], d['variant'])
        hx.hist_add(hist['holes'], str(d.get('nholes', 0)))
        hx.hist_add(hist['user_plane'], str(d.get('user_plane')))
        nb = (d['n'] // 10) * 10
        hx.hist_add(hist['vertices'], '%d-%d' % (nb, nb + 9))
        # non-trivial: not (axis-aligned horizontal plane & ccw & start 0 & no holes & plain)
        trivial = d['plane_kind'] == 'axis' and d['order'] == 'ccw' and not d.get('nholes') \
            and d['variant'] == 'plain' and d.get('user_plane') in (None, 'same')
        if not trivial:
            nontrivial.add((d['ctor'], d['sub'], d['shift']))
        if len(samples) < 6 and evaluations % 7 == 1:
            samples.append({k: v for k, v in d.items()})
        for sig, what in fl:
            if sig not in raw:
                raw[sig] = (d, what)
    for sig, (d, what) in sorted(raw.items()):
        small = d
        if time.time() < hard - 1:
            small = shrink(d, sig)
        st, fl = run_desc(small)
        w = [x for s, x in fl if s == sig]
        fails.add(sig, w[0] if w else what, _size(small), desc=small, module='c06')
    return {
        'evaluations': evaluations,
        'distinct_nontrivial': len(nontrivial),
        'rule': 'Face3D built by each of %d constructors from exactly validated simple loops '
                '(star / convex / rectilinear / rotated rectilinear, 3..60 vertices) placed in '
                'random planes (generic, within 1e-9..1e-3 of +-Z, axis aligned, user x axis), '
                'both vertex orders, cyclic starts (all 12 for small loops), concave / collinear '
                'first corner, 0..3 holes of either winding, user planes along / against the '
                'vertex order; non-trivial = anything but a counter-clockwise hole-free loop '
                'from its first vertex in an axis-aligned plane' % len(CTORS),
        'samples': samples,
        'failures': fails.list(),
        'extra': {'histograms': hist},
    }


def replay(ctx, failure):
    d = failure.get('desc')
    if not d:
        return None
    st, fl = run_desc(d)
    for sig, what in fl:
        if sig == failure['signature']:
            out = dict(failure)
            out['what'] = what
            return out
    if fl and st == 'ok':
        sig, what = fl[0]
        out = dict(failure)
        out['signature'] = sig
        out['what'] = what
        return out
    return None
