"""C05 — triangulation exactly tiles a polygon with holes.

Property oracle on the REAL code: generated shapes (boundary + holes), certified valid with
exact integer predicates BEFORE use, are triangulated through
  * ladybug_geometry.triangulation.earcut(flat, hole_indices)
  * Mesh2D.from_polygon_triangulated(boundary_polygon, hole_polygons)
  * Face3D.triangulated_mesh2d / triangulated_mesh3d   (random planes)
and every returned triangle list is certified *exactly*:
  (1) vertex provenance, (2) non-zero area with uniform orientation, (3) edge incidence
  (interior edge twice in opposite directions, input edge once), (4) sum of triangle areas
  = area(boundary) - sum area(holes) by rational shoelace, (5) every triangle centroid
  strictly inside the boundary and strictly outside every hole (crossing number).
The deciding oracle is the executable Lean specification LbgVerif/Spec/TriCert.lean run at Q by
the driver (one batch per run).  The same clauses are also evaluated in-process with exact
integer arithmetic (needed for the failing-input search, shrinking and the "cases until the
first failure" statistics); any disagreement between the two oracles is itself reported.
"""
import math
import random
import signal
import threading
import time

from ladybug_geometry.geometry2d.pointvector import Point2D
from ladybug_geometry.geometry3d.pointvector import Point3D, Vector3D
from ladybug_geometry.geometry2d.polygon import Polygon2D
from ladybug_geometry.geometry2d.mesh import Mesh2D
from ladybug_geometry.geometry3d.face import Face3D
from ladybug_geometry.geometry3d.plane import Plane
import ladybug_geometry.triangulation as TRI

import lbg

GAP_NUM, GAP_DEN = 1, 1000            # smallest edge / gap of a valid input: 1e-3
SIN2_NUM, SIN2_DEN = 3046, 10 ** 7    # sin^2(1 degree) = 3.0459e-4 (rounded up)
CMAX = 10 ** 4                        # |coordinate| <= 1e4
CALL_LIMIT = 20.0                     # seconds allowed for one call of the real code

ASSUMPTIONS = [
    'valid inputs only, certified with exact integer arithmetic before use: every loop is '
    'simple, 3..120 boundary vertices, 0..6 holes strictly inside the boundary and pairwise '
    'disjoint, |c| <= 1e4, every edge >= 1e-3 long, every two non-adjacent edges (of any '
    'loops) >= 1e-3 apart, every corner at least 1 degree away from 0 and 180 degrees; '
    'exactly straight (180 degree) corners are admitted only in the "lattice-collinear" '
    'stream where all coordinates are dyadic so that float and exact collinearity coincide',
    'a triangulation is not unique: nothing about which diagonals are chosen is compared',
    'two narrow kinds of failure get their own signatures (open known findings on the current '
    'tree): "earcut|edges(T-junction at collinear vertex)" = ONLY the strict edge count fails and '
    'it passes once triangle edges are cut at input vertices lying strictly inside them (exact '
    'tiling with a T-junction); "Mesh2D.from_polygon_triangulated[fan]|orientation" = fan '
    'shortcut whose ONLY defect is zero-area triangles (0,i,i+1) at an exactly straight corner',
    'Face3D: the loops certified are face.boundary_polygon2d / hole_polygon2d (what the '
    'triangulator receives); the 3D mesh must lift the 2D mesh (same faces, vertices = '
    'plane.xy_to_xyz within 1e-9 relative) and use the 3D input vertices within 1e-9 relative',
]
TRUSTED = [
    'C05: Spec/TriCert.lean (executable certificate, run at Q by the driver) is the deciding '
    'oracle; the in-process integer twin of it is used for search/shrinking and cross-checked '
    'against the Lean answer on every certified case',
    'C05: the input-validity predicates (simple loop, strict containment, gaps, corner '
    'angles) are exact integer arithmetic in Python (props/c05.py), not Lean',
    'C05: fallback counters are obtained by wrapping triangulation._earcut_linked / '
    '_cure_local_intersections / _split_earcut / _is_ear_hashed at run time (no edit of /repo)',
]

CLAUSES = ('provenance', 'orientation', 'edges', 'area', 'centroids')

# Policy switches (see the report): with ACCEPT_T_JUNCTIONS the edge clause is read
# geometrically (triangle edges are cut at input vertices lying strictly inside them before
# counting), so a T-junction at an exactly collinear vertex is not reported.
ACCEPT_T_JUNCTIONS = False
# With STRAIGHT_CORNERS False the 'lattice-collinear' stream (loops with exactly straight
# 180-degree corners) is not generated.
STRAIGHT_CORNERS = True


class CallTimeout(Exception):
    """The real code did not return within the per-call limit (a bad change may loop)."""


class time_limit(object):
    """SIGALRM-based limit for one call of the real code (main thread, POSIX only;
    elsewhere it is a no-op)."""

    def __init__(self, seconds):
        self.seconds = seconds
        self.armed = False

    def _fire(self, signum, frame):
        raise CallTimeout('no result after %s s' % self.seconds)

    def __enter__(self):
        try:
            if threading.current_thread() is threading.main_thread() and hasattr(signal, 'setitimer'):
                self.old = signal.signal(signal.SIGALRM, self._fire)
                signal.setitimer(signal.ITIMER_REAL, self.seconds)
                self.armed = True
        except Exception:
            self.armed = False
        return self

    def __exit__(self, *a):
        if self.armed:
            signal.setitimer(signal.ITIMER_REAL, 0)
            signal.signal(signal.SIGALRM, self.old)
        return False


# =============================================================== exact integer geometry
def _den(c):
    return c.as_integer_ratio()[1]


def to_ints(loops, extra=()):
    """Float loops (+ extra point lists) -> integer loops on a common power-of-two grid."""
    k = 1
    for lp in list(loops) + list(extra):
        for (x, y) in lp:
            d = _den(x)
            if d > k:
                k = d
            d = _den(y)
            if d > k:
                k = d

    def cv(c):
        n, d = c.as_integer_ratio()
        return n * (k // d)
    return k, [[(cv(x), cv(y)) for (x, y) in lp] for lp in loops], \
        [[(cv(x), cv(y)) for (x, y) in lp] for lp in extra]


def orient(a, b, c):
    return (b[0] - a[0]) * (c[1] - a[1]) - (b[1] - a[1]) * (c[0] - a[0])


def sgn(x):
    return (x > 0) - (x < 0)


def on_seg(p, a, b):
    return orient(a, b, p) == 0 and min(a[0], b[0]) <= p[0] <= max(a[0], b[0]) and \
        min(a[1], b[1]) <= p[1] <= max(a[1], b[1])


def seg_intersect(a, b, c, d):
    o1, o2 = sgn(orient(a, b, c)), sgn(orient(a, b, d))
    o3, o4 = sgn(orient(c, d, a)), sgn(orient(c, d, b))
    if o1 * o2 < 0 and o3 * o4 < 0:
        return True
    return (o1 == 0 and on_seg(c, a, b)) or (o2 == 0 and on_seg(d, a, b)) or \
        (o3 == 0 and on_seg(a, c, d)) or (o4 == 0 and on_seg(b, c, d))


def pip(poly, p):
    """+1 strictly inside, 0 on the loop, -1 strictly outside (crossing number)."""
    inside = False
    n = len(poly)
    for i in range(n):
        a, b = poly[i], poly[(i + 1) % n]
        if on_seg(p, a, b):
            return 0
        if (a[1] > p[1]) != (b[1] > p[1]):
            o = orient(a, b, p)
            if (b[1] > a[1]) == (o > 0):
                inside = not inside
    return 1 if inside else -1


def shoelace2(poly):
    s = 0
    n = len(poly)
    for i in range(n):
        a, b = poly[i], poly[(i + 1) % n]
        s += a[0] * b[1] - b[0] * a[1]
    return s


def _pt_seg_far(p, a, b, k2g):
    """dist(p, segment ab)^2 >= gap^2 (k2g = (K^2*GAP_NUM^2, GAP_DEN^2))."""
    num, den = k2g
    dx, dy = b[0] - a[0], b[1] - a[1]
    px, py = p[0] - a[0], p[1] - a[1]
    t = px * dx + py * dy
    l2 = dx * dx + dy * dy
    if t <= 0:
        return (px * px + py * py) * den >= num
    if t >= l2:
        qx, qy = p[0] - b[0], p[1] - b[1]
        return (qx * qx + qy * qy) * den >= num
    cr = px * dy - py * dx
    return cr * cr * den >= num * l2


def validate(loops, allow_straight=False):
    """None if the shape is a valid input, else a short reason."""
    if not loops or len(loops[0]) < 3:
        return 'too-few-vertices'
    for lp in loops:
        if len(lp) < 3:
            return 'too-few-vertices'
        for (x, y) in lp:
            if not (abs(x) <= CMAX and abs(y) <= CMAX):
                return 'coordinate-range'
    k, il, _ = to_ints(loops)
    k2g = (k * k * GAP_NUM * GAP_NUM, GAP_DEN * GAP_DEN)
    g_int = -((-k * GAP_NUM) // GAP_DEN)          # ceil(K * gap)
    edges = []                                    # (a, b, loop, index, bbox)
    for li, lp in enumerate(il):
        n = len(lp)
        if shoelace2(lp) == 0:
            return 'zero-area'
        for i in range(n):
            a, b, c = lp[i], lp[(i + 1) % n], lp[(i + 2) % n]
            ux, uy = b[0] - a[0], b[1] - a[1]
            vx, vy = c[0] - b[0], c[1] - b[1]
            l2 = ux * ux + uy * uy
            if l2 * k2g[1] < k2g[0]:
                return 'short-edge'
            cr = ux * vy - uy * vx
            m2 = vx * vx + vy * vy
            if cr * cr * SIN2_DEN < SIN2_NUM * l2 * m2:
                if not (allow_straight and cr == 0 and ux * vx + uy * vy > 0):
                    return 'flat-or-spike-corner'
            edges.append((a, b, li, i, n,
                          min(a[0], b[0]), max(a[0], b[0]), min(a[1], b[1]), max(a[1], b[1])))
    ne = len(edges)
    order = sorted(range(ne), key=lambda e: edges[e][5])
    for ii in range(ne):
        e1 = edges[order[ii]]
        a, b, l1, i1, n1, x0, x1, y0, y1 = e1
        lim = x1 + g_int
        for jj in range(ii + 1, ne):
            e2 = edges[order[jj]]
            if e2[5] > lim:
                break
            if e2[7] - y1 > g_int or y0 - e2[8] > g_int:
                continue
            c, d, l2_, i2, n2 = e2[0], e2[1], e2[2], e2[3], e2[4]
            if l1 == l2_:
                dd = (i1 - i2) % n1
                if dd == 1 or dd == n1 - 1:
                    continue                       # adjacent edges: corner rule above
            if seg_intersect(a, b, c, d):
                return 'self-intersection' if l1 == l2_ else 'loops-intersect'
            if not (_pt_seg_far(a, c, d, k2g) and _pt_seg_far(b, c, d, k2g) and
                    _pt_seg_far(c, a, b, k2g) and _pt_seg_far(d, a, b, k2g)):
                return 'gap<1e-3'
    bnd = il[0]
    holes = il[1:]
    for h in holes:
        for p in h:
            if pip(bnd, p) != 1:
                return 'hole-not-inside'
    for i in range(len(holes)):
        for j in range(len(holes)):
            if i != j and pip(holes[j], holes[i][0]) != -1:
                return 'holes-nested'
    return None


# =============================================================== in-process certificate
def py_certify(loops, verts, faces):
    """Integer twin of Spec/TriCert.certify.  loops/verts are lists of (x, y) floats."""
    k, il, ex = to_ints(loops, [verts])
    iv = ex[0]
    pts = [p for lp in il for p in lp]
    idmap = {}
    for i, p in enumerate(pts):
        idmap.setdefault(p, i)
    rep = {'input_distinct': len(idmap) == len(pts)}
    tris = []
    prov = len(faces) > 0
    for f in faces:
        ok = len(f) == 3 and all(isinstance(i, int) and 0 <= i < len(iv) for i in f)
        ids = [idmap.get(iv[i]) for i in f] if ok else [None]
        if not ok or any(i is None for i in ids):
            prov = False
            continue
        tris.append(tuple(ids))
    rep['provenance'] = prov
    a2 = [orient(pts[a], pts[b], pts[c]) for (a, b, c) in tris]
    s = sgn(a2[0]) if a2 else 0
    rep['orientation'] = s != 0 and all(sgn(x) == s for x in a2)
    rep['sign'] = s
    rep['zero_area_tris'] = [i for i, x in enumerate(a2) if x == 0]
    rep['nonzero_uniform'] = len(set(sgn(x) for x in a2 if x != 0)) <= 1
    rep['tris'] = tris
    # edges
    ie = set()
    ie_list = []
    off = 0
    for lp in il:
        n = len(lp)
        for i in range(n):
            e = (off + i, off + (i + 1) % n)
            ie_list.append(e)
            ie.add(e)
        off += n
    es = [e for (a, b, c) in tris for e in ((a, b), (b, c), (c, a))]
    rep['edges'], wit = _edge_clause(ie, ie_list, es)
    rep['edge_witness'] = wit
    if rep['edges']:
        rep['edges_refined'] = True
    else:
        res = []
        for (a, b) in es:
            pa, pb = pts[a], pts[b]
            inner = [i for i, p in enumerate(pts) if p != pa and p != pb and on_seg(p, pa, pb)]
            inner.sort(key=lambda i: (pts[i][0] - pa[0]) * (pb[0] - pa[0]) +
                       (pts[i][1] - pa[1]) * (pb[1] - pa[1]))
            chain = [a] + inner + [b]
            res.extend(zip(chain, chain[1:]))
        rep['edges_refined'] = _edge_clause(ie, ie_list, res)[0]
    # area
    at = abs(sum(a2))
    ash = abs(shoelace2(il[0])) - sum(abs(shoelace2(h)) for h in il[1:])
    rep['area'] = at == ash
    rep['area2_tris'], rep['area2_shape'], rep['k'] = at, ash, k
    # centroids (coordinates x3)
    l3 = [[(3 * x, 3 * y) for (x, y) in lp] for lp in il]
    bads = []
    for ti, (a, b, c) in enumerate(tris):
        p = (pts[a][0] + pts[b][0] + pts[c][0], pts[a][1] + pts[b][1] + pts[c][1])
        if pip(l3[0], p) != 1 or any(pip(h, p) != -1 for h in l3[1:]):
            bads.append(ti)
    rep['centroids'] = not bads
    rep['bad_centroid'] = bads[0] if bads else None
    rep['bad_centroids'] = bads
    rep['n_tris'] = len(tris)
    rep['ok'] = first_bad(rep) is None
    return rep


def _edge_clause(ie, ie_list, es):
    cnt = {}
    for e in es:
        cnt[e] = cnt.get(e, 0) + 1
    for e in es:
        r = (e[1], e[0])
        if e in ie or r in ie:
            if cnt.get(e, 0) + cnt.get(r, 0) != 1:
                return False, (e, cnt.get(e, 0), cnt.get(r, 0))
        elif cnt.get(e, 0) != 1 or cnt.get(r, 0) != 1:
            return False, (e, cnt.get(e, 0), cnt.get(r, 0))
    for e in ie_list:
        r = (e[1], e[0])
        if cnt.get(e, 0) + cnt.get(r, 0) != 1:
            return False, (e, cnt.get(e, 0), cnt.get(r, 0))
    return True, None


def overlapping_pair(loops, verts, faces):
    """Indices of two returned triangles with overlapping interiors (diagnosis only)."""
    k, il, ex = to_ints(loops, [verts])
    iv = ex[0]
    tr = [tuple(iv[i] for i in f) for f in faces if len(f) == 3]
    tr = [t if orient(*t) > 0 else (t[0], t[2], t[1]) for t in tr if orient(*t) != 0]

    def strictly_in(p3, t):          # p3 = 3*p, t scaled by 3
        return all(orient(t[i], t[(i + 1) % 3], p3) > 0 for i in range(3))
    t3 = [tuple((3 * x, 3 * y) for (x, y) in t) for t in tr]
    for i in range(len(tr)):
        for j in range(i + 1, len(tr)):
            a, b = tr[i], tr[j]
            # proper crossing of edges, or a centroid of one strictly inside the other
            cross = False
            for u in range(3):
                for v in range(3):
                    p, q, r, s = a[u], a[(u + 1) % 3], b[v], b[(v + 1) % 3]
                    if sgn(orient(p, q, r)) * sgn(orient(p, q, s)) < 0 and \
                            sgn(orient(r, s, p)) * sgn(orient(r, s, q)) < 0:
                        cross = True
            ca = (a[0][0] + a[1][0] + a[2][0], a[0][1] + a[1][1] + a[2][1])
            cb = (b[0][0] + b[1][0] + b[2][0], b[0][1] + b[1][1] + b[2][1])
            if cross or strictly_in(ca, t3[j]) or strictly_in(cb, t3[i]):
                return (i, j)
    return None


# =============================================================== instrumentation
class Probe(object):
    """Counts which parts of the ear clipper a call reached (wrappers, no edit of /repo)."""
    NAMES = ('_earcut_linked', '_cure_local_intersections', '_split_earcut',
             '_is_ear_hashed', '_eliminate_holes')

    def __init__(self):
        self.flags = set()
        self.orig = {}

    def install(self):
        probe = self
        for nm in self.NAMES:
            f = getattr(TRI, nm)
            f = getattr(f, '_c05_orig', f)
            self.orig[nm] = f
        o = self.orig

        def earcut_linked(ear, triangles, dim, minX, minY, size, _pass=None):
            if ear and _pass == 1:
                probe.flags.add('filter')
            return o['_earcut_linked'](ear, triangles, dim, minX, minY, size, _pass)

        def cure(start, triangles, dim):
            probe.flags.add('cure')
            n0 = len(triangles)
            r = o['_cure_local_intersections'](start, triangles, dim)
            if len(triangles) != n0:
                probe.flags.add('cure-cut')
            return r

        def split(start, triangles, dim, minX, minY, size):
            probe.flags.add('split')
            n0 = len(triangles)
            r = o['_split_earcut'](start, triangles, dim, minX, minY, size)
            if len(triangles) != n0:
                probe.flags.add('split-cut')
            return r

        def hashed(ear, minX, minY, size):
            probe.flags.add('hashed')
            return o['_is_ear_hashed'](ear, minX, minY, size)

        def holes(data, hole_indices, outerNode, dim):
            probe.flags.add('holes')
            return o['_eliminate_holes'](data, hole_indices, outerNode, dim)
        for nm, w in (('_earcut_linked', earcut_linked), ('_cure_local_intersections', cure),
                      ('_split_earcut', split), ('_is_ear_hashed', hashed),
                      ('_eliminate_holes', holes)):
            w._c05_orig = o[nm]
            setattr(TRI, nm, w)

    def remove(self):
        for nm, f in self.orig.items():
            setattr(TRI, nm, f)

    def take(self):
        f = self.flags
        self.flags = set()
        return f


# =============================================================== generators
def _jitter_angles(rng, n, jit=0.3):
    st = 2 * math.pi / n
    a0 = rng.uniform(0, 2 * math.pi)
    return [a0 + st * (i + rng.uniform(-jit, jit)) for i in range(n)]


def gen_convex(rng, n):
    rx, ry = rng.uniform(3, 10), rng.uniform(3, 10)
    return [(rx * math.cos(a), ry * math.sin(a)) for a in _jitter_angles(rng, n, 0.25)]


def gen_star(rng, n):
    lo = rng.choice([0.3, 0.5, 0.7])
    return [(10 * rng.uniform(lo, 1.0) * math.cos(a), 10 * rng.uniform(lo, 1.0) * math.sin(a))
            for a in _jitter_angles(rng, n, 0.3)]


def gen_comb(rng, n):
    """Comb: a spine with teeth; slanted or straight teeth, random heights."""
    teeth = max(1, (n - 4) // 4)
    w = 20.0 / (2 * teeth + 1)
    slant = rng.choice([0.0, 0.0, rng.uniform(-0.4, 0.4) * w])
    spine = rng.uniform(0.5, 2.0)
    pts = [(0.0, 0.0), (20.0, 0.0)]
    x = 20.0
    pts.append((x, spine))
    for t in range(teeth):
        h = spine + rng.uniform(1.0, 8.0)
        x0 = x - w * (1 + rng.uniform(-0.15, 0.15)) if t else x
        x1 = x0 - w * rng.uniform(0.5, 1.0)
        if t:
            pts.append((x0, spine + rng.uniform(0, 0.2)))
        pts.append((x0 + slant, h))
        pts.append((x1 + slant, h + rng.uniform(-0.3, 0.3)))
        pts.append((x1, spine + rng.uniform(0, 0.2)))
        x = x1
    if pts[-1][0] > 0.5:
        pts.append((0.0, spine))
    else:
        pts[-1] = (0.0, pts[-1][1])
    return [(px - 10, py - 4) for (px, py) in pts]


def gen_spiral(rng, n):
    """Polar spiral corridor."""
    m = max(3, n // 2)
    turns = rng.uniform(1.2, 3.0)
    b = rng.uniform(0.8, 1.6)
    w = b * 2 * math.pi * rng.uniform(0.25, 0.7)
    a0 = w + rng.uniform(0.5, 2.0)
    outer, inner = [], []
    for i in range(m):
        th = turns * 2 * math.pi * i / (m - 1)
        r = a0 + b * th
        outer.append((r * math.cos(th), r * math.sin(th)))
        inner.append(((r - w) * math.cos(th), (r - w) * math.sin(th)))
    pts = outer + inner[::-1]
    sc = 10.0 / (a0 + b * turns * 2 * math.pi)
    return [(x * sc, y * sc) for (x, y) in pts]


def gen_rectilinear(rng, n, q=0.25, collinear=False):
    """x-monotone orthogonal polygon on a lattice of pitch q (histogram with two sides)."""
    cols = max(1, (n - 2) // 4 + 1)
    xs = [0]
    for _ in range(cols):
        xs.append(xs[-1] + rng.randint(1, 4))
    tops, bots = [], []
    t, b = rng.randint(4, 12), rng.randint(-12, -4)
    for _ in range(cols):
        tops.append(t)
        bots.append(b)
        nt = t + rng.choice([-3, -2, -1, 0, 1, 2, 3]) if rng.random() < 0.8 else t
        nb = b + rng.choice([-3, -2, -1, 0, 1, 2, 3]) if rng.random() < 0.8 else b
        # adjacent columns must overlap in y by at least 1
        lo_t = max(b, nb) + 1
        nt = max(nt, lo_t)
        nb = min(nb, min(t, nt) - 1)
        t, b = nt, nb
    top = []
    for i in range(cols):
        top.append((xs[i], tops[i]))
        top.append((xs[i + 1], tops[i]))
    bot = []
    for i in range(cols):
        bot.append((xs[i], bots[i]))
        bot.append((xs[i + 1], bots[i]))
    pts = bot + top[::-1]          # counter-clockwise
    pts = _dedupe_straight(pts)
    if collinear:
        pts = _subdivide(rng, pts)
    return [(x * q, y * q) for (x, y) in pts]


def _dedupe_straight(pts):
    out = []
    n = len(pts)
    for i in range(n):
        a, b, c = pts[i - 1], pts[i], pts[(i + 1) % n]
        if b == a:
            continue
        out.append(b)
    pts = out
    changed = True
    while changed:
        changed = False
        n = len(pts)
        for i in range(n):
            a, b, c = pts[i - 1], pts[i], pts[(i + 1) % n]
            if orient(a, b, c) == 0:
                pts = pts[:i] + pts[i + 1:]
                changed = True
                break
    return pts


def _subdivide(rng, pts):
    """Insert lattice points on the edges (exactly collinear vertices)."""
    out = []
    n = len(pts)
    for i in range(n):
        a, b = pts[i], pts[(i + 1) % n]
        out.append(a)
        dx, dy = b[0] - a[0], b[1] - a[1]
        g = math.gcd(abs(dx), abs(dy))
        if g > 1 and rng.random() < 0.6:
            ks = sorted(rng.sample(range(1, g), min(g - 1, rng.randint(1, 3))))
            for kk in ks:
                out.append((a[0] + dx // g * kk, a[1] + dy // g * kk))
    return out


def gen_lattice_blob(rng, n, collinear=False):
    """Star-like polygon with vertices on an integer lattice (many coincidences)."""
    m = max(3, n)
    pts = []
    for a in _jitter_angles(rng, m, 0.2):
        r = rng.uniform(4, 12)
        p = (int(round(r * math.cos(a))), int(round(r * math.sin(a))))
        if not pts or pts[-1] != p:
            pts.append(p)
    if len(pts) > 1 and pts[0] == pts[-1]:
        pts.pop()
    if len(pts) >= 3:
        pts = _dedupe_straight(pts)
    if collinear and len(pts) >= 3:
        pts = _subdivide(rng, pts)
    return [(float(x), float(y)) for (x, y) in pts]


BOUNDARY_KINDS = ('convex', 'star', 'comb', 'spiral', 'rectilinear', 'lattice')


def gen_boundary(rng, kind, n, collinear=False):
    if kind == 'convex':
        return gen_convex(rng, n)
    if kind == 'star':
        return gen_star(rng, n)
    if kind == 'comb':
        return gen_comb(rng, n)
    if kind == 'spiral':
        return gen_spiral(rng, n)
    if kind == 'rectilinear':
        return gen_rectilinear(rng, n, 0.25, collinear)
    return gen_lattice_blob(rng, n, collinear)


def _fdist_pt_seg(p, a, b):
    dx, dy = b[0] - a[0], b[1] - a[1]
    l2 = dx * dx + dy * dy
    t = 0.0 if l2 == 0 else max(0.0, min(1.0, ((p[0] - a[0]) * dx + (p[1] - a[1]) * dy) / l2))
    return math.hypot(p[0] - a[0] - t * dx, p[1] - a[1] - t * dy)


def _finside(poly, p):
    ins = False
    n = len(poly)
    for i in range(n):
        a, b = poly[i], poly[(i + 1) % n]
        if (a[1] > p[1]) != (b[1] > p[1]):
            if p[0] < a[0] + (p[1] - a[1]) * (b[0] - a[0]) / (b[1] - a[1]):
                ins = not ins
    return ins


def add_holes(rng, loops, want, near, lattice):
    """Rejection-sample `want` holes into loops (float pre-checks; exact validation later).
    near: 0 = roomy, 1 = holes close to boundary / each other (but above the gap)."""
    bnd = loops[0]
    xs = [p[0] for p in bnd]
    ys = [p[1] for p in bnd]
    x0, x1, y0, y1 = min(xs), max(xs), min(ys), max(ys)
    tries = 0
    while len(loops) - 1 < want and tries < 60 * want:
        tries += 1
        if lattice:
            c = (rng.randint(int(x0 * 4), int(x1 * 4)) / 4.0, rng.randint(int(y0 * 4), int(y1 * 4)) / 4.0)
            if rng.random() < 0.5:       # align with an existing vertex coordinate
                v = rng.choice([p for lp in loops for p in lp])
                c = (c[0], v[1]) if rng.random() < 0.7 else (v[0], c[1])
        else:
            c = (rng.uniform(x0, x1), rng.uniform(y0, y1))
        if not _finside(bnd, c) or any(_finside(h, c) for h in loops[1:]):
            continue
        d = min(_fdist_pt_seg(c, lp[i], lp[(i + 1) % len(lp)])
                for lp in loops for i in range(len(lp)))
        if d < 0.05:
            continue
        if near:
            r = d - rng.choice([0.002, 0.004, 0.01, 0.03, 0.1]) * rng.uniform(1, 2)
            if r < 0.02:
                r = d * 0.8
        else:
            r = d * rng.uniform(0.25, 0.85)
        kind = rng.choice(['tri', 'rect', 'ngon', 'star', 'rect'])
        if lattice:
            hw = max(0.25, math.floor(r * rng.uniform(0.3, 0.7) * 4) / 4.0)
            hh = max(0.25, math.floor(r * rng.uniform(0.3, 0.7) * 4) / 4.0)
            if math.hypot(hw, hh) >= d:
                hw = hh = 0.25
                if math.hypot(hw, hh) >= d:
                    continue
            h = [(c[0] - hw, c[1] - hh), (c[0] + hw, c[1] - hh), (c[0] + hw, c[1] + hh),
                 (c[0] - hw, c[1] + hh)]
            if rng.random() < 0.3:     # L-shaped lattice hole
                h = [(c[0] - hw, c[1] - hh), (c[0] + hw, c[1] - hh), (c[0] + hw, c[1]),
                     (c[0], c[1]), (c[0], c[1] + hh), (c[0] - hw, c[1] + hh)]
        elif kind == 'tri':
            a0 = rng.uniform(0, 2 * math.pi)
            h = [(c[0] + r * math.cos(a0 + t), c[1] + r * math.sin(a0 + t))
                 for t in (0, 2.1 + rng.uniform(-0.4, 0.4), 4.2 + rng.uniform(-0.4, 0.4))]
        elif kind == 'rect':
            a0 = rng.choice([0.0, rng.uniform(0, math.pi)])
            al = rng.uniform(0.3, 1.2)
            h = [(c[0] + r * math.cos(a0 + t), c[1] + r * math.sin(a0 + t))
                 for t in (al, math.pi - al, math.pi + al, 2 * math.pi - al)]
        elif kind == 'ngon':
            m = rng.randint(5, 9)
            h = [(c[0] + r * math.cos(a), c[1] + r * math.sin(a))
                 for a in _jitter_angles(rng, m, 0.2)]
        else:
            m = rng.randint(5, 10)
            h = [(c[0] + r * rng.uniform(0.45, 1.0) * math.cos(a),
                  c[1] + r * rng.uniform(0.45, 1.0) * math.sin(a))
                 for a in _jitter_angles(rng, m, 0.2)]
        loops.append(h)
    return loops


def place(rng, loops, lattice):
    """Random rigid placement + scale; lattice shapes only get exact maps."""
    if lattice:
        rot = rng.randint(0, 3)
        mir = rng.random() < 0.5
        sc = rng.choice([0.125, 0.5, 1.0, 1.0, 2.0, 16.0])
        tx, ty = rng.randint(-64, 64) / 4.0, rng.randint(-64, 64) / 4.0

        def f(p):
            x, y = p
            if mir:
                x = -x
            for _ in range(rot):
                x, y = -y, x
            return (x * sc + tx, y * sc + ty)
    else:
        ang = rng.uniform(0, 2 * math.pi) if rng.random() < 0.8 else 0.0
        cs, sn = math.cos(ang), math.sin(ang)
        sc = rng.choice([0.05, 0.3, 1.0, 1.0, 7.0, 60.0, 400.0])
        span = sc * 15
        tx = rng.uniform(-1, 1) * max(0.0, min(CMAX - span - 1, rng.choice([0, 10, 1000, 9000])))
        ty = rng.uniform(-1, 1) * max(0.0, min(CMAX - span - 1, rng.choice([0, 10, 1000, 9000])))

        def f(p):
            x, y = p
            return ((x * cs - y * sn) * sc + tx, (x * sn + y * cs) * sc + ty)
    return [[f(p) for p in lp] for lp in loops]


def reorder(rng, loops):
    out = []
    for lp in loops:
        lp = list(lp)
        if rng.random() < 0.5:
            lp.reverse()
        s = rng.randrange(len(lp))
        out.append(lp[s:] + lp[:s])
    return out


STREAMS = ('general', 'near', 'lattice', 'lattice-collinear', 'big')


def gen_shape(rng, stream):
    """Returns (loops, meta) — not yet validated."""
    lattice = stream.startswith('lattice')
    collinear = stream == 'lattice-collinear'
    if lattice:
        kind = rng.choice(['rectilinear', 'rectilinear', 'lattice'])
    elif stream == 'near':
        kind = rng.choice(['star', 'comb', 'spiral', 'convex', 'star'])
    else:
        kind = rng.choice(['convex', 'star', 'comb', 'spiral'])
    if stream == 'big':
        n = rng.randint(81, 120)
    else:
        n = rng.choice([3, 4, 5, 6, 7, 8, rng.randint(9, 20), rng.randint(9, 20),
                        rng.randint(21, 60), rng.randint(61, 120)])
    bnd = gen_boundary(rng, kind, n, collinear)
    if len(bnd) > 120:
        bnd = None
    if bnd is None or len(bnd) < 3:
        return None, None
    if stream == 'near':
        want = rng.choice([1, 2, 2, 2, 3, 4, 6])
    elif stream == 'big':
        want = rng.choice([0, 0, 1, 2, 3, 6])
    else:
        want = rng.choice([0, 0, 1, 1, 2, 2, 3, 4, 5, 6])
    loops = [bnd]
    if want:
        loops = add_holes(rng, loops, want, near=(stream == 'near' or (lattice and rng.random() < 0.5)),
                          lattice=lattice)
    loops = place(rng, loops, lattice)
    loops = reorder(rng, loops)
    meta = {'stream': stream, 'kind': kind, 'n': len(loops[0]), 'holes': len(loops) - 1,
            'collinear': collinear}
    return loops, meta


# =============================================================== calls on the real code
def call_from_polygon_triangulated(loops):
    b = Polygon2D(tuple(Point2D(x, y) for (x, y) in loops[0]))
    hs = [Polygon2D(tuple(Point2D(x, y) for (x, y) in h)) for h in loops[1:]] or None
    m = Mesh2D.from_polygon_triangulated(b, hs)
    return [(v.x, v.y) for v in m.vertices], [tuple(f) for f in m.faces]


def call_earcut(loops):
    flat = []
    hi = []
    for li, lp in enumerate(loops):
        if li:
            hi.append(len(flat) // 2)
        for (x, y) in lp:
            flat.extend((x, y))
    res = TRI.earcut(flat, hi or None)
    verts = [p for lp in loops for p in lp]
    faces = [tuple(res[i:i + 3]) for i in range(0, len(res) - len(res) % 3, 3)]
    if len(res) % 3:
        faces.append(tuple(res[len(res) - len(res) % 3:]))
    return verts, faces


def rand_plane(rng):
    while True:
        n = Vector3D(rng.gauss(0, 1), rng.gauss(0, 1), rng.gauss(0, 1))
        if n.magnitude > 0.2:
            break
    if rng.random() < 0.25:
        n = rng.choice([Vector3D(0, 0, 1), Vector3D(0, 0, -1), Vector3D(1, 0, 0),
                        Vector3D(0, 1, 0)])
    return Plane(n, Point3D(rng.uniform(-20, 20), rng.uniform(-20, 20), rng.uniform(-20, 20)))


def call_face3d(loops, plane_seed):
    """Returns (loops2d actually triangulated, verts2d, faces, lift_problem or None)."""
    rng = random.Random(plane_seed)
    pl = rand_plane(rng)
    b3 = [pl.xy_to_xyz(Point2D(x, y)) for (x, y) in loops[0]]
    h3 = [[pl.xy_to_xyz(Point2D(x, y)) for (x, y) in h] for h in loops[1:]] or None
    give_plane = rng.random() < 0.5
    face = Face3D(b3, pl if give_plane else None, h3)
    l2 = [[(p.x, p.y) for p in face.boundary_polygon2d.vertices]]
    if face.has_holes:
        l2 += [[(p.x, p.y) for p in hp.vertices] for hp in face.hole_polygon2d]
    m2 = face.triangulated_mesh2d
    m3 = face.triangulated_mesh3d
    v2 = [(v.x, v.y) for v in m2.vertices]
    faces = [tuple(f) for f in m2.faces]
    problem = None
    if tuple(tuple(f) for f in m3.faces) != tuple(faces):
        problem = 'mesh3d faces differ from mesh2d faces'
    elif len(m3.vertices) != len(m2.vertices):
        problem = 'mesh3d has %d vertices, mesh2d %d' % (len(m3.vertices), len(m2.vertices))
    else:
        in3 = [p for p in face.boundary] + ([p for h in face.holes for p in h]
                                            if face.has_holes else [])
        sc = max([1.0] + [abs(c) for p in in3 for c in (p.x, p.y, p.z)])
        used = set(i for f in faces for i in f)
        for i, (a, b) in enumerate(zip(m2.vertices, m3.vertices)):
            w = face.plane.xy_to_xyz(a)
            if max(abs(w.x - b.x), abs(w.y - b.y), abs(w.z - b.z)) > 1e-9 * sc:
                problem = 'mesh3d vertex %d is not the lift of the mesh2d vertex' % i
                break
            if i in used and min(max(abs(q.x - b.x), abs(q.y - b.y), abs(q.z - b.z))
                                 for q in in3) > 1e-9 * sc:
                problem = 'mesh3d vertex %d is not an input vertex of the face' % i
                break
    return l2, v2, faces, problem


# =============================================================== evaluation of one case
def first_bad(rep):
    for c in CLAUSES:
        if not rep[c]:
            if c == 'edges' and ACCEPT_T_JUNCTIONS and rep.get('edges_refined'):
                continue
            return c
    if not rep['input_distinct']:
        return 'input_distinct'
    return None


T_JUNCTION = 'edges(T-junction at collinear vertex)'


def clause_label(rep, path='earcut'):
    """Kind of failure.  Two narrow kinds are recognised by what they are, everything else is
    named by the first failing clause:
      * T-junction: the ONLY failing clause is the strict edge count, and it passes once
        triangle edges are cut at the input vertices lying strictly inside them (so the
        tiling is geometrically exact);
      * fan 'orientation': fan shortcut, the ONLY defect is zero-area fan triangles (0,i,i+1)
        whose three vertices are exactly collinear (a straight corner on a line through
        vertex 0); every other triangle is fine."""
    bad = first_bad(rep)
    if bad == 'edges' and rep['provenance'] and rep['orientation'] and rep['area'] and \
            rep['centroids'] and rep['input_distinct'] and rep.get('edges_refined'):
        return T_JUNCTION
    if bad == 'orientation' and path == 'fan':
        z = rep['zero_area_tris']
        if z and rep['provenance'] and rep['nonzero_uniform'] and rep['edges'] and rep['area'] \
                and rep['input_distinct'] and set(rep['bad_centroids']) <= set(z) and \
                all(rep['tris'][i][0] == 0 for i in z):
            return 'orientation'
        return 'orientation(not only zero-area fan triangles at a straight corner)'
    return bad


def hexloops(loops):
    return [[(float(x).hex(), float(y).hex()) for (x, y) in lp] for lp in loops]


def unhex(loops):
    return [[(float.fromhex(x), float.fromhex(y)) for (x, y) in lp] for lp in loops]


def run_api(api, loops, plane_seed=None):
    """-> dict(loops, verts, faces, path, error, lift) ; never raises."""
    out = {'api': api, 'loops': loops, 'verts': None, 'faces': None, 'error': None,
           'lift': None}
    try:
        with time_limit(CALL_LIMIT):
            if api == 'earcut':
                out['verts'], out['faces'] = call_earcut(loops)
            elif api == 'from_polygon_triangulated':
                out['verts'], out['faces'] = call_from_polygon_triangulated(loops)
            else:
                l2, v2, faces, problem = call_face3d(loops, plane_seed)
                out['loops'], out['verts'], out['faces'], out['lift'] = l2, v2, faces, problem
    except Exception as e:          # noqa: E722  (anything may be raised after a bad change)
        out['error'] = '%s: %s' % (type(e).__name__, str(e)[:160])
        out['exc'] = type(e).__name__
    return out


def judge(res, allow_straight, path='earcut'):
    """In-process verdict for one API result: None or (label, what, rep)."""
    if res['error']:
        return ('raises ' + res['exc'], res['error'], None)
    if res['api'] == 'face3d':
        why = validate(res['loops'], allow_straight)
        if why is not None:
            return None                 # the plane round trip moved it out of the valid set
        if res['lift']:
            return ('lift', res['lift'], None)
    rep = py_certify(res['loops'], res['verts'], res['faces'])
    if rep['ok']:
        return None
    lab = clause_label(rep, path)
    return (lab, describe(rep), rep)


def describe(rep):
    k2 = rep['k'] * rep['k'] * 2
    s = 'clauses ' + ','.join('%s=%s' % (c, 'ok' if rep[c] else 'FAIL') for c in CLAUSES)
    s += '; %d triangles; sum of triangle areas %.12g vs shape area %.12g' % (
        rep['n_tris'], rep['area2_tris'] / k2, rep['area2_shape'] / k2)
    if rep.get('edge_witness'):
        e, c1, c2 = rep['edge_witness']
        s += '; edge %s occurs %dx, reversed %dx' % (e, c1, c2)
    if rep.get('bad_centroid') is not None:
        s += '; centroid of triangle #%d not inside the shape' % rep['bad_centroid']
    return s


def path_of(api, loops, flags):
    if api != 'earcut' and len(loops) == 1 and 'filter' not in flags and \
            not flags & {'cure', 'split', 'hashed', 'holes'} and _is_convex_float(loops[0]):
        return 'fan'
    return 'earcut'


def _is_convex_float(lp):
    try:
        return Polygon2D(tuple(Point2D(x, y) for (x, y) in lp)).is_convex
    except Exception:
        return False


# =============================================================== one evaluation
def evaluate(probe, api, loops, plane_seed, allow_straight):
    """Run one API on one (already validated) shape and classify the outcome.
    -> dict(res, flags, path, verdict=None|(label, what, rep), sig=None|str)"""
    probe.take()
    res = run_api(api, loops, plane_seed)
    flags = probe.take()
    path = path_of(api, loops, flags)
    verdict = judge(res, allow_straight, path)
    sig = None
    if verdict is not None:
        label = verdict[0]
        site = api if label == 'lift' or label.startswith('raises') else \
            ('Mesh2D.from_polygon_triangulated[fan]' if path == 'fan' else 'earcut')
        sig = '%s|%s' % (site, label)
    return {'res': res, 'flags': flags, 'path': path, 'verdict': verdict, 'sig': sig}


# =============================================================== shrinking
def shrink(probe, api, loops, sig, allow_straight, plane_seed, deadline):
    """Greedy: drop holes, then boundary/hole vertices, keeping validity and the signature."""
    def still(ls):
        if validate(ls, allow_straight) is not None:
            return False
        return evaluate(probe, api, ls, plane_seed, allow_straight)['sig'] == sig
    cur = [list(lp) for lp in loops]
    changed = True
    while changed and time.time() < deadline:
        changed = False
        for hi in range(len(cur) - 1, 0, -1):
            cand = cur[:hi] + cur[hi + 1:]
            if still(cand):
                cur = cand
                changed = True
                break
        if changed:
            continue
        for li in range(len(cur)):
            if len(cur[li]) <= 3:
                continue
            for vi in range(len(cur[li])):
                if time.time() > deadline:
                    break
                cand = [list(lp) for lp in cur]
                del cand[li][vi]
                if still(cand):
                    cur = cand
                    changed = True
                    break
            if changed:
                break
    # try to round the coordinates to few decimals
    for nd in (0, 1, 2, 3, 4, 6):
        cand = [[(float(round(x, nd)), float(round(y, nd))) for (x, y) in lp] for lp in cur]
        if time.time() < deadline and still(cand):
            cur = cand
            break
    return cur


# =============================================================== fixed regression corpus
# Literal shapes evaluated first on every run: the minimal reproductions of the two open
# findings, and shapes on which the repaired `_intersects` chained comparison (010b0c3)
# produced overlapping triangles (found by this module's biased stream on the reverted tree).
CORPUS = [
    {'name': 'T-junction: hole edge collinear with the hole bridge', 'api': 'from_polygon_triangulated',
     'allow_straight': False,
     'loops': [[(0.0, 0.0), (10.0, -4.0), (10.0, 6.0)], [(4.0, 1.0), (3.0, 0.0), (4.0, 0.0)]],
     'repro': 'from ladybug_geometry.geometry2d.pointvector import Point2D\n'
              'from ladybug_geometry.geometry2d.polygon import Polygon2D\n'
              'from ladybug_geometry.geometry2d.mesh import Mesh2D\n'
              'b = Polygon2D([Point2D(0, 0), Point2D(10, -4), Point2D(10, 6)])\n'
              'h = Polygon2D([Point2D(4, 1), Point2D(3, 0), Point2D(4, 0)])\n'
              'm = Mesh2D.from_polygon_triangulated(b, [h])\n'
              'print(m.faces, len(m.naked_edges))   # ((0,4,3),(5,0,1),...): edge (4,0)-(0,0) of '
              'face (5,0,1) runs through vertex 4=(3,0); 7 naked edges instead of 6'},
    {'name': 'fan shortcut with a straight corner next to vertex 0', 'api': 'from_polygon_triangulated',
     'allow_straight': True,
     'loops': [[(0.0, 0.0), (1.0, 0.0), (2.0, 0.0), (2.0, 2.0), (0.0, 2.0)]],
     'repro': 'from ladybug_geometry.geometry2d.pointvector import Point2D\n'
              'from ladybug_geometry.geometry2d.polygon import Polygon2D\n'
              'from ladybug_geometry.geometry2d.mesh import Mesh2D\n'
              'p = Polygon2D([Point2D(0, 0), Point2D(1, 0), Point2D(2, 0), Point2D(2, 2), Point2D(0, 2)])\n'
              'm = Mesh2D.from_polygon_triangulated(p)\n'
              'print(p.is_convex, m.faces, m.face_areas)   # True ((0,1,2),(0,2,3),(0,3,4)) (0.0, 2.0, 2.0)'},
    {'name': '010b0c3 regression: two holes, split diagonal crossing a hole', 'api': 'earcut',
     'allow_straight': False,
     'loops': [[(-165.3, 47.0), (-239.2, 22.1), (-210.9, -46.6)],
               [(-211.2, 18.3), (-206.1, 7.0), (-212.1, -3.1)],
               [(-207.9, 12.9), (-195.0, 25.9), (-206.1, 27.3)]]},
    {'name': '010b0c3 regression: half-integer lattice, two holes', 'api': 'earcut',
     'allow_straight': False,
     'loops': [[(-48.5, -8.5), (27.5, -20.5), (23.5, 7.5)],
               [(15.5, -4.5), (7.5, -12.5), (7.5, -4.5)],
               [(-0.5, -0.5), (-0.5, -8.5), (-4.5, -4.5), (-8.5, -4.5)]]},
    {'name': '010b0c3 regression: triangle with three small triangular holes', 'api': 'earcut',
     'allow_straight': False,
     'loops': [[(356.15, 7928.88), (357.79, 7930.11), (355.09, 7931.31)],
               [(356.35, 7930.64), (356.49, 7929.34), (355.84, 7930.3)],
               [(356.63, 7930.27), (356.65, 7930.3), (356.7, 7930.29)],
               [(357.41, 7929.87), (357.54, 7930.22), (357.29, 7930.03)]]},
]


# =============================================================== run
def wire_case(loops, verts, faces):
    return [[[[lbg.wnum(x), lbg.wnum(y)] for (x, y) in lp] for lp in loops],
            [[lbg.wnum(x), lbg.wnum(y)] for (x, y) in verts],
            [[int(i) for i in f] for f in faces]]


def lean_verdicts(ctx, cases, hist):
    """cases: list of (loops, verts, faces).  -> list of report dicts or None."""
    if not cases:
        return []
    try:
        t0 = time.time()
        out = []
        chunk = 1500
        for s in range(0, len(cases), chunk):
            ans = ctx.driver.run([('tricert', wire_case(*c)) for c in cases[s:s + chunk]])
            out.extend(a[1] if a[0] else {'driver_error': a[1]} for a in ans)
        hist['lean_seconds'] = round(time.time() - t0, 1)
        return out
    except Exception as e:      # driver not available: the integer twin decides alone
        hist['lean_unavailable'] = '%s: %s' % (type(e).__name__, str(e)[:200])
        return [None] * len(cases)


def failure_record(ev, api, loops, allow_straight, plane_seed, case_seed, extra=None):
    res, verdict = ev['res'], ev['verdict']
    ov = None
    rep = verdict[2]
    if res['faces'] and res['verts'] and rep is not None and rep['provenance']:
        ov = overlapping_pair(res['loops'], res['verts'], res['faces'])
    rec = {
        'signature': ev['sig'], 'api': api, 'label': verdict[0], 'count': 1,
        'loops_hex': hexloops(loops), 'loops': [[(x, y) for (x, y) in lp] for lp in loops],
        'faces': res['faces'], 'plane_seed': plane_seed, 'allow_straight': allow_straight,
        'case_seed': case_seed, 'reached': sorted(ev['flags']), 'path': ev['path'],
        'overlapping_triangles': ov,
        'geometric_tiling_holds': bool(rep is not None and rep.get('edges_refined') and rep['area']
                                       and rep['nonzero_uniform'] and rep['provenance']),
        'what': '%s on boundary %d vertices + %d holes %s -> %s%s' % (
            api, len(loops[0]), len(loops) - 1,
            [[(round(x, 6), round(y, 6)) for (x, y) in lp] for lp in loops],
            verdict[1], ('; triangles #%d and #%d overlap' % ov) if ov else '')}
    if extra:
        rec.update(extra)
    return rec


def run(ctx):
    seed = ctx.seed
    thorough = ctx.tier == 'thorough' or bool(ctx.broken)
    t_start = time.time()
    budget = 450.0 if thorough else 20.0          # generation + in-process certification
    lean_budget = 180.0 if thorough else 11.0     # estimated seconds of Lean certification
    stop_at = min(ctx.deadline - lean_budget, t_start + budget)
    lean_cap = 20000 if thorough else 3000
    probe = Probe()
    probe.install()
    hist = {'stream': {}, 'kind': {}, 'boundary_vertices': {}, 'holes': {}, 'api': {},
            'path': {}, 'reached': {}, 'rejected': {}, 'order': {}, 'triangles': {},
            'reached_by_stream': {}, 'corpus': {}}
    evaluations = 0
    nontrivial = set()
    failures = {}
    fail_order = []
    first_fail_at = {}
    first_gen_at = {}
    n_corpus = [0]
    samples = []
    lean_cases = []
    lean_meta = []
    lean_cand = []
    seen_lean = set()

    def bump(h, k):
        hist[h][k] = hist[h].get(k, 0) + 1

    def offer_lean(prio, ev, api, case_seed, allow_straight):
        res = ev['res']
        key = (tuple(tuple(lp) for lp in res['loops']), tuple(res['faces']))
        if key not in seen_lean and (prio <= 1 or len(lean_cand) < lean_cap):
            seen_lean.add(key)
            lean_cand.append((prio, len(lean_cand), (res['loops'], res['verts'], res['faces']),
                              {'api': api, 'case_seed': case_seed, 'expect_ok': True,
                               'allow_straight': allow_straight}))

    def record(ev, api, loops, allow_straight, plane_seed, case_seed, stream, do_shrink, extra=None):
        sig = ev['sig']
        if sig not in first_fail_at:
            first_fail_at[sig] = {'evaluations': evaluations, 'shapes': sum(hist['stream'].values()),
                                  'seconds': round(time.time() - t_start, 1), 'stream': stream}
        if stream != 'corpus' and sig not in first_gen_at:
            first_gen_at[sig] = {'evaluations': evaluations - n_corpus[0],
                                 'shapes': sum(hist['stream'].values()),
                                 'seconds': round(time.time() - t_start, 1), 'stream': stream,
                                 'case_seed': case_seed}
        if sig in failures:
            failures[sig]['count'] += 1
            return
        small, ev2 = loops, ev
        if do_shrink:
            small = shrink(probe, api, loops, sig, allow_straight, plane_seed,
                           min(stop_at, time.time() + (60 if thorough else 6)))
            ev2 = evaluate(probe, api, small, plane_seed, allow_straight)
            if ev2['sig'] != sig:
                small, ev2 = loops, ev
        rec = failure_record(ev2, api, small, allow_straight, plane_seed, case_seed, extra)
        rec['first_seen_after'] = dict(first_fail_at[sig])
        failures[sig] = rec
        fail_order.append(sig)
        r2 = ev2['res']
        if r2['faces'] is not None and r2['verts'] is not None and r2['error'] is None and \
                ev2['verdict'][2] is not None:
            lean_cand.append((0, len(lean_cand), (r2['loops'], r2['verts'], r2['faces']),
                              {'api': api, 'sig': sig, 'expect_ok': False}))

    sched = ['general', 'near', 'lattice', 'near', 'lattice-collinear', 'near', 'lattice',
             'big', 'general', 'near']
    if thorough:
        sched = ['general', 'near', 'lattice', 'near', 'lattice-collinear', 'near', 'lattice',
                 'big', 'near', 'lattice', 'near', 'near']
    idx = 0
    try:
        # ---- fixed corpus first
        for ci, c in enumerate(CORPUS):
            loops = [list(lp) for lp in c['loops']]
            if validate(loops, c['allow_straight']) is not None:
                bump('corpus', 'invalid')
                continue
            ev = evaluate(probe, c['api'], loops, None, c['allow_straight'])
            evaluations += 1
            n_corpus[0] += 1
            bump('corpus', ev['sig'] or 'ok')
            if ev['verdict'] is None:
                if ev['res']['faces'] is not None:
                    offer_lean(1, ev, c['api'], 'corpus/%d' % ci, c['allow_straight'])
                continue
            record(ev, c['api'], loops, c['allow_straight'], None, 'corpus/%d' % ci, 'corpus',
                   False, {'corpus_case': c['name'], 'repro': c.get('repro')})
        # ---- generated streams
        while time.time() < stop_at:
            stream = sched[idx % len(sched)]
            if stream == 'lattice-collinear' and not STRAIGHT_CORNERS:
                stream = 'lattice'
            case_seed = '%s/c05/%s/%d' % (seed, stream, idx)
            idx += 1
            rng = random.Random(case_seed)
            try:
                loops, meta = gen_shape(rng, stream)
            except Exception:
                loops = None
            if loops is None:
                bump('rejected', 'generator')
                continue
            allow_straight = meta['collinear']
            why = validate(loops, allow_straight)
            if why is not None:
                bump('rejected', why)
                continue
            bump('stream', stream)
            bump('kind', meta['kind'])
            nb = meta['n']
            bump('boundary_vertices', '3-4' if nb <= 4 else '5-8' if nb <= 8 else '9-20' if nb <= 20
                 else '21-60' if nb <= 60 else '61-80' if nb <= 80 else '81-120')
            bump('holes', str(meta['holes']))
            k_, il_, _ = to_ints(loops)
            bump('order', 'boundary ' + ('ccw' if shoelace2(il_[0]) > 0 else 'cw'))
            for h_ in il_[1:]:
                bump('order', 'hole ' + ('ccw' if shoelace2(h_) > 0 else 'cw'))
            apis = ['from_polygon_triangulated', 'earcut']
            if idx % 4 == 0:
                apis.append('face3d')
            plane_seed = case_seed + '/plane'
            for api in apis:
                ev = evaluate(probe, api, loops, plane_seed, allow_straight)
                res, flags, path = ev['res'], ev['flags'], ev['path']
                evaluations += 1
                bump('api', api)
                bump('path', path)
                for fl in flags:
                    bump('reached', fl)
                    if fl in ('cure', 'split', 'cure-cut', 'split-cut', 'filter'):
                        key = stream + ':' + fl
                        hist['reached_by_stream'][key] = hist['reached_by_stream'].get(key, 0) + 1
                if not flags:
                    bump('reached', 'pass0-only' if path == 'earcut' else 'fan')
                if res['faces'] is not None:
                    nt = len(res['faces'])
                    bump('triangles', '1-2' if nt <= 2 else '3-10' if nt <= 10 else '11-50'
                         if nt <= 50 else '51-100' if nt <= 100 else '>100')
                if meta['n'] + meta['holes'] > 3:
                    nontrivial.add((api, tuple(tuple(lp) for lp in res['loops'])))
                if ev['verdict'] is None:
                    if res['error'] is None and res['faces'] is not None and \
                            not (api == 'face3d' and validate(res['loops'], allow_straight)):
                        offer_lean(1 if flags & {'filter', 'cure', 'split'} else 2, ev, api,
                                   case_seed, allow_straight)
                    if len(samples) < 4 and meta['holes'] >= 1 and nb <= 8 and api == 'earcut':
                        samples.append({'api': api, 'loops': [[(round(x, 4), round(y, 4))
                                                               for (x, y) in lp] for lp in loops],
                                        'faces': res['faces'], 'reached': sorted(flags)})
                    continue
                record(ev, api, loops, allow_straight, plane_seed, case_seed, stream, True)
    finally:
        probe.remove()

    # ---- the Lean certificate decides (one batch): failures first, then the cases that went
    # through a fallback pass, then the rest in generation order until the time estimate
    # (0.012 s + 1.6e-5 s * triangles^2 per case, measured) reaches the budget
    lean_cand.sort(key=lambda c: (c[0], c[1]))
    est = 2.5
    for prio, _n, case, meta_c in lean_cand:
        cost = 0.012 + 1.6e-5 * len(case[2]) ** 2
        if prio > 0 and est + cost > lean_budget:
            continue
        est += cost
        lean_cases.append(case)
        lean_meta.append(meta_c)
    hist['lean_candidates'] = len(lean_cand)
    hist['lean_fallback_candidates'] = sum(1 for c in lean_cand if c[0] == 1)
    reports = lean_verdicts(ctx, lean_cases, hist)
    n_lean_ok = 0
    for rep, meta_c, case in zip(reports, lean_meta, lean_cases):
        if rep is None:
            continue
        if 'driver_error' in rep:
            sig = 'lean-driver|error'
            failures.setdefault(sig, {'signature': sig, 'what': 'driver error: %s' % rep['driver_error'],
                                      'count': 0, 'loops_hex': hexloops(case[0]), 'faces': case[2],
                                      'api': meta_c['api']})['count'] += 1
            continue
        rep['ok'] = first_bad(rep) is None      # same policy switch as the integer twin
        if meta_c['expect_ok']:
            if rep['ok']:
                n_lean_ok += 1
                continue
            sig = 'oracle-disagreement|lean rejects, integer twin accepts'
            if sig not in failures:
                failures[sig] = {'signature': sig, 'api': meta_c['api'], 'count': 1,
                                 'loops_hex': hexloops(case[0]), 'faces': case[2],
                                 'allow_straight': meta_c.get('allow_straight', False),
                                 'lean_report': rep,
                                 'what': 'Lean certificate rejects (%s) what the integer twin accepts: %s'
                                 % (','.join(c for c in CLAUSES if not rep.get(c)), rep.get('witness'))}
        else:
            f = failures[meta_c['sig']]
            f['lean_report'] = dict((c, rep.get(c)) for c in CLAUSES + ('edges_refined', 'witness'))
            f['lean_confirms'] = not rep['ok']
            if rep['ok']:
                sig = 'oracle-disagreement|lean accepts, integer twin rejects'
                failures.setdefault(sig, {'signature': sig, 'api': f['api'], 'count': 1,
                                          'loops_hex': f['loops_hex'], 'faces': f['faces'],
                                          'allow_straight': f.get('allow_straight', False),
                                          'what': 'Lean certificate accepts what the integer twin '
                                                  'rejects as %s' % f['signature']})
    hist['lean_certified_ok'] = n_lean_ok
    hist['lean_cases'] = len(lean_cases)
    hist['first_failure_after'] = first_fail_at
    hist['first_failure_in_generated_streams_after'] = first_gen_at
    hist['seconds'] = round(time.time() - t_start, 1)
    fl = [failures[s] for s in fail_order] + [f for s, f in failures.items() if s not in fail_order]
    return {
        'evaluations': evaluations,
        'distinct_nontrivial': len(nontrivial),
        'rule': 'shapes = boundary (convex / star / comb / spiral / rectilinear / lattice blob, 3..120 '
                'vertices) + 0..6 holes (triangle, rectangle, n-gon, star, lattice rectangle/L), random '
                'rigid placement and scale, both vertex orders and random start for every loop; streams '
                'general / near (holes close to boundary and to each other) / lattice / '
                'lattice-collinear (exactly collinear vertices) / big (81..120 vertices, z-order path); '
                'each valid shape is sent through from_polygon_triangulated and earcut, every 4th also '
                'through Face3D on a random plane; a fixed corpus of %d literal shapes comes first; '
                'non-trivial = more than one triangle possible (boundary vertices + holes > 3), '
                'distinct by (api, exact loops)' % len(CORPUS),
        'samples': samples,
        'failures': fl,
        'extra': {'histograms': hist},
    }


def replay(ctx, failure):
    """Re-execute a recorded failure on the current tree; the signature is recomputed."""
    loops = unhex(failure['loops_hex'])
    allow = failure.get('allow_straight', False)
    api = failure.get('api', 'earcut')
    if validate(loops, allow) is not None:
        return None
    probe = Probe()
    probe.install()
    try:
        ev = evaluate(probe, api, loops, failure.get('plane_seed'), allow)
    finally:
        probe.remove()
    res = ev['res']
    lean_rep = None
    if res['faces'] is not None and res['error'] is None:
        try:
            a = ctx.driver.run([('tricert', wire_case(res['loops'], res['verts'], res['faces']))])[0]
            if a[0]:
                lean_rep = a[1]
        except Exception:
            lean_rep = None
    if ev['verdict'] is None:
        if lean_rep is not None and first_bad(lean_rep) is not None:
            out = dict(failure)
            out['signature'] = 'oracle-disagreement|lean rejects, integer twin accepts'
            out['what'] = 'Lean certificate rejects (%s) what the integer twin accepts' % \
                ','.join(c for c in CLAUSES if not lean_rep.get(c))
            return out
        return None
    out = failure_record(ev, api, loops, allow, failure.get('plane_seed'), failure.get('case_seed'))
    for k in ('repro', 'corpus_case'):
        if failure.get(k):
            out[k] = failure[k]
    if lean_rep is not None:
        out['lean_report'] = dict((c, lean_rep.get(c)) for c in CLAUSES + ('edges_refined', 'witness'))
        out['lean_confirms'] = first_bad(lean_rep) is not None
    return out
