"""C02 - move / rotate / rotate_xy / reflect / scale act as the stated map on every
geometry type (whole-object level, real code).

For each of the 21 public classes of dictutil x each transform the class offers x random
parameters x random valid instances the result is compared with an INDEPENDENT reference
map applied to raw coordinates (double precision matrix form of Rodrigues / Householder /
homothety fed the same angle; tolerance 1e-9 relative to the coordinate magnitude):

  points    defining points and sampled points (vertices, p1/p2/midpoint/point_at, arc
            samples, mesh vertices and face centroids, face boundary / holes / vertices,
            plane origin and plane samples, sphere / cone / cylinder defining points and
            base-circle samples) are the mapped originals
  measures  lengths x|k|, areas x k^2, volumes x|k|^3 (k = 1 for rigid maps)
  normals   unit; plane frames orthonormal and right-handed; normal = L(normal) for
            orientation-preserving maps, parallel to L(normal) for reflections
  ccw       Face3D: Newell normal of the result boundary = result normal, exact shoelace in
            the result plane > 0, is_clockwise False; Arc3D runs counter-clockwise about its
            plane normal; Mesh3D face normals follow the right-hand rule of the result
            faces; Polygon2D.is_clockwise agrees with the exact shoelace sign
  outward   Polyface3D: solids stay solid with exact signed volume > 0; the faces rebuilt
            from (vertices, face_indices) and from to_dict/from_dict have the same normals
            as .faces (open and closed polyfaces)
  inverse   applying the inverse map with the library returns the original within rounding
"""
import math
import random
import time
from fractions import Fraction as F

from ladybug_geometry.geometry2d.pointvector import Point2D, Vector2D
from ladybug_geometry.geometry2d.ray import Ray2D
from ladybug_geometry.geometry2d.line import LineSegment2D
from ladybug_geometry.geometry2d.arc import Arc2D
from ladybug_geometry.geometry2d.polyline import Polyline2D
from ladybug_geometry.geometry2d.polygon import Polygon2D
from ladybug_geometry.geometry2d.mesh import Mesh2D
from ladybug_geometry.geometry3d.pointvector import Point3D, Vector3D
from ladybug_geometry.geometry3d.ray import Ray3D
from ladybug_geometry.geometry3d.line import LineSegment3D
from ladybug_geometry.geometry3d.arc import Arc3D
from ladybug_geometry.geometry3d.polyline import Polyline3D
from ladybug_geometry.geometry3d.mesh import Mesh3D
from ladybug_geometry.geometry3d.plane import Plane
from ladybug_geometry.geometry3d.face import Face3D
from ladybug_geometry.geometry3d.polyface import Polyface3D
from ladybug_geometry.geometry3d.sphere import Sphere
from ladybug_geometry.geometry3d.cone import Cone
from ladybug_geometry.geometry3d.cylinder import Cylinder

from . import hxlib as hx

TOL = 1e-9
TWO_PI = 2 * math.pi
ASSUMPTIONS = [
    'valid instances only (simple loops, holes strictly inside, arcs spanning 0.3 .. 2pi-0.3 '
    'rad or full circles, radii >= 0.05); scale factors in [0.05, 20] (positive); mirror '
    'normals are unit vectors (Vector.normalize()); rotation axes are non-zero',
    'agreement 1e-9 relative to the coordinate magnitude of the case (object, parameters, '
    'result); the reference map is evaluated in double precision in matrix form',
    'a reflected Face3D / Plane / Polyface3D face may carry either L(n) or -L(n) as normal as '
    'long as the vertex order is consistent with it (right-hand rule); Mesh2D / Mesh3D keep '
    'their face index order under reflection, so mesh normals follow the mirrored winding',
    'vectors (Vector2D / Vector3D) only have rotate / rotate_xy / reflect',
]
TRUSTED = [
    'C02 whole-object oracle: independent double-precision reference map + exact (Fraction) '
    'orientation tests; libm cos/sin/atan2; no Lean executable specification at this level',
]


# ------------------------------------------------------------------ reference maps
class Xf(object):
    """A transform: how to call the library and the independent reference map."""

    def __init__(self, dim, kind, **p):
        self.dim, self.kind, self.p = dim, kind, p
        self.k = p['factor'] if kind == 'scale' else 1.0
        self.det = -1 if kind == 'reflect' else 1
        o = p.get('origin')
        self.o = tuple(float(c) for c in o) if o is not None else (0.0,) * dim
        if kind in ('rotate', 'rotate_xy'):
            c, s = math.cos(p['angle']), math.sin(p['angle'])
            if dim == 2:
                self.m = ((c, -s), (s, c))
            elif kind == 'rotate_xy':
                self.m = ((c, -s, 0.0), (s, c, 0.0), (0.0, 0.0, 1.0))
            else:
                a = p['axis']
                r = math.sqrt(a.x * a.x + a.y * a.y + a.z * a.z)
                u = (a.x / r, a.y / r, a.z / r)
                t = 1.0 - c
                self.m = (
                    (c + t * u[0] * u[0], t * u[0] * u[1] - s * u[2], t * u[0] * u[2] + s * u[1]),
                    (t * u[1] * u[0] + s * u[2], c + t * u[1] * u[1], t * u[1] * u[2] - s * u[0]),
                    (t * u[2] * u[0] - s * u[1], t * u[2] * u[1] + s * u[0], c + t * u[2] * u[2]))
        elif kind == 'reflect':
            n = tuple(float(c) for c in p['normal'])
            self.m = tuple(tuple((1.0 if i == j else 0.0) - 2.0 * n[i] * n[j]
                                 for j in range(dim)) for i in range(dim))
        elif kind == 'scale':
            self.m = tuple(tuple(self.k if i == j else 0.0 for j in range(dim))
                           for i in range(dim))
        else:
            self.m = tuple(tuple(1.0 if i == j else 0.0 for j in range(dim))
                           for i in range(dim))
        self.t = tuple(float(c) for c in p['vec']) if kind == 'move' else (0.0,) * dim

    def lin(self, v):
        """Linear part (including the scale factor)."""
        v = tuple(float(c) for c in v)
        return tuple(sum(self.m[i][j] * v[j] for j in range(self.dim)) for i in range(self.dim))

    def unit(self, v):
        """Image of a direction (unit vectors stay unit)."""
        w = self.lin(v)
        return tuple(c / self.k for c in w)

    def pt(self, q):
        q = tuple(float(c) for c in q)
        d = tuple(q[i] - self.o[i] for i in range(self.dim))
        w = self.lin(d)
        return tuple(w[i] + self.o[i] + self.t[i] for i in range(self.dim))

    def apply(self, obj, vector=False):
        p, k = self.p, self.kind
        if k == 'move':
            return obj.move(p['vec'])
        if k == 'rotate':
            if self.dim == 2:
                return obj.rotate(p['angle']) if vector else obj.rotate(p['angle'], p['origin'])
            return obj.rotate(p['axis'], p['angle']) if vector else \
                obj.rotate(p['axis'], p['angle'], p['origin'])
        if k == 'rotate_xy':
            return obj.rotate_xy(p['angle']) if vector else \
                obj.rotate_xy(p['angle'], p['origin'])
        if k == 'reflect':
            return obj.reflect(p['normal']) if vector else \
                obj.reflect(p['normal'], p['origin'])
        if p.get('origin') is None:
            return obj.scale(p['factor'])
        return obj.scale(p['factor'], p['origin'])

    def inverse(self):
        p, k = dict(self.p), self.kind
        if k == 'move':
            p['vec'] = p['vec'] * -1
        elif k in ('rotate', 'rotate_xy'):
            p['angle'] = -p['angle']
        elif k == 'scale':
            p['factor'] = 1.0 / p['factor']
        return Xf(self.dim, k, **p)

    def describe(self):
        out = {}
        for a, b in self.p.items():
            out[a] = None if b is None else (float(b).hex() if isinstance(b, (int, float))
                                             else [float(c).hex() for c in b])
        return out

    def text(self):
        out = []
        for a, b in sorted(self.p.items()):
            out.append('%s=%s' % (a, ('%r' % b) if isinstance(b, (int, float)) or b is None
                                  else '(%s)' % ', '.join('%.6g' % c for c in b)))
        return '%s(%s)' % (self.kind, ', '.join(out))

    def mag(self):
        return hx.mag_of([0 if b is None or isinstance(b, (int, float)) else list(b)
                          for a, b in self.p.items() if a in ('origin', 'vec')])


def gen_params(rng, dim, kind, level='rand'):
    """Random parameters of a transform (level 'simple*' gives canonical small ones)."""
    P = Point2D if dim == 2 else Point3D
    V = Vector2D if dim == 2 else Vector3D
    simple = level.startswith('simple')

    def origin():
        if simple:
            return P(*([0.0] * dim))
        m = rng.choice([0.0, 1.0, 10.0, 100.0, 1e3])
        return P(*[rng.uniform(-m, m) for _ in range(dim)])

    if kind == 'move':
        if simple:
            return {'vec': V(*[1.0, 2.0, 3.0][:dim])}
        m = rng.choice([1.0, 10.0, 1e3])
        return {'vec': V(*[rng.uniform(-m, m) for _ in range(dim)])}
    if kind in ('rotate', 'rotate_xy'):
        if simple:
            ang = {'simple': 1.0, 'simple_neg': -1.0, 'simple_wrap': 7.0}[level]
        else:
            ang = rng.uniform(-4 * math.pi, 4 * math.pi)
            if rng.random() < 0.12:
                ang = rng.choice([math.pi / 2, -math.pi / 2, math.pi, -math.pi, 2 * math.pi,
                                  -2 * math.pi, 4 * math.pi, -4 * math.pi, 3 * math.pi, 1e-9])
        d = {'angle': ang, 'origin': origin()}
        if kind == 'rotate' and dim == 3:
            if simple:
                d['axis'] = Vector3D(0, 0, 1)
            elif rng.random() < 0.15:
                d['axis'] = rng.choice([Vector3D(1, 0, 0), Vector3D(0, -1, 0),
                                        Vector3D(0, 0, 1), Vector3D(0, 0, -2.5)])
            else:
                u = hx.rand_unit3(rng)
                d['axis'] = u * (10.0 ** rng.uniform(-1, 1))
        return d
    if kind == 'reflect':
        if simple:
            n = V(*[1.0, 0.0, 0.0][:dim])
        elif rng.random() < 0.15:
            n = rng.choice([V(*[1.0, 0.0, 0.0][:dim]), V(*[0.0, -1.0, 0.0][:dim]),
                            V(*([0.0] * (dim - 1) + [1.0]))])
        else:
            n = hx.rand_unit2(rng) if dim == 2 else hx.rand_unit3(rng)
            n = n.normalize()
        return {'normal': n, 'origin': origin()}
    # scale
    if simple:
        return {'factor': 2.0, 'origin': None}
    f = math.exp(rng.uniform(math.log(0.05), math.log(20.0)))
    if rng.random() < 0.1:
        f = rng.choice([0.05, 0.5, 1.0, 2.0, 20.0])
    return {'factor': f, 'origin': None if rng.random() < 0.25 else origin()}


# ------------------------------------------------------------------ checker
class Chk(object):
    def __init__(self, T, scale):
        self.T, self.scale, self.tol = T, scale, TOL * scale
        self.fails = []

    def fail(self, clause, detail):
        self.fails.append((clause, detail))

    def same_pt(self, clause, label, got, want, tol=None):
        d = hx.fdist(got, want)
        if not d <= (tol or self.tol):
            self.fail(clause, '%s = (%s), reference (%s), off by %.3g (tolerance %.3g)' % (
                label, ', '.join('%.12g' % c for c in got),
                ', '.join('%.12g' % c for c in want), d, tol or self.tol))
            return False
        return True

    def pt(self, label, got, orig, clause='points'):
        return self.same_pt(clause, label, tuple(got), self.T.pt(orig))

    def vec(self, label, got, orig, clause='points'):
        """vector attached to the shape (scaled with it)"""
        return self.same_pt(clause, label, tuple(got), self.T.lin(orig))

    def direction(self, label, got, orig, clause='normals', either_sign=False):
        w = self.T.unit(orig)
        g = tuple(got)
        if abs(math.sqrt(sum(c * c for c in g)) - 1.0) > TOL:
            self.fail(clause, '%s is not a unit vector: |.| = %.15g' % (
                label, math.sqrt(sum(c * c for c in g))))
            return False
        if hx.fdist(g, w) <= TOL * 4:
            return True
        if either_sign and hx.fdist(g, tuple(-c for c in w)) <= TOL * 4:
            return True
        self.fail(clause, '%s = (%s), reference %s(%s)' % (
            label, ', '.join('%.12g' % c for c in g), '+-' if either_sign else '',
            ', '.join('%.12g' % c for c in w)))
        return False

    def num(self, label, got, want, clause='measures', atol=0.0):
        if not abs(got - want) <= TOL * 10 * max(abs(want), abs(got), 1e-300) + atol:
            self.fail(clause, '%s = %.15g, expected %.15g' % (label, got, want))
            return False
        return True

    def eq(self, label, got, want, clause='discrete'):
        if got != want:
            self.fail(clause, '%s = %r, expected %r' % (label, got, want))
            return False
        return True

    def loop(self, label, got, orig, clause='points', allow_reverse=False):
        """got: points of the result; orig: original points.  Equal as cyclic sequences to
        the mapped originals.  Returns +1 (same direction), -1 (reversed) or 0 (failed)."""
        want = [self.T.pt(p) for p in orig]
        g = [tuple(p) for p in got]
        if len(g) != len(want):
            self.fail(clause, '%s has %d points, expected %d' % (label, len(g), len(want)))
            return 0
        n = len(g)

        def match(w):
            for s in range(n):
                if hx.fdist(g[0], w[s]) <= self.tol and \
                        all(hx.fdist(g[i], w[(s + i) % n]) <= self.tol for i in range(n)):
                    return True
            return False
        if match(want):
            return 1
        if allow_reverse and match(list(reversed(want))):
            return -1
        self.fail(clause, '%s is not the mapped original loop%s; first point (%s), mapped '
                  'original first point (%s)' % (label, ' (either direction)' if allow_reverse
                                                 else '', ', '.join('%.9g' % c for c in g[0]),
                                                 ', '.join('%.9g' % c for c in want[0])))
        return 0

    def seq(self, label, got, orig, clause='points'):
        g = list(got)
        o = list(orig)
        if len(g) != len(o):
            self.fail(clause, '%s has %d points, expected %d' % (label, len(g), len(o)))
            return False
        for i, (a, b) in enumerate(zip(g, o)):
            if not self.pt('%s[%d]' % (label, i), a, b, clause):
                return False
        return True


def frame_ok(c, label, pl):
    n, x, y = tuple(pl.n), tuple(pl.x), tuple(pl.y)
    for nm, v in (('n', n), ('x', x), ('y', y)):
        if abs(math.sqrt(sum(t * t for t in v)) - 1.0) > TOL:
            c.fail('normals', '%s.%s is not unit: %.15g' % (label, nm,
                                                           math.sqrt(sum(t * t for t in v))))
            return False
    dots = (sum(a * b for a, b in zip(x, n)), sum(a * b for a, b in zip(x, y)),
            sum(a * b for a, b in zip(y, n)))
    if max(abs(d) for d in dots) > TOL:
        c.fail('normals', '%s axes are not orthogonal: x.n, x.y, y.n = %r' % (label, dots))
        return False
    cr = (x[1] * y[2] - x[2] * y[1], x[2] * y[0] - x[0] * y[2], x[0] * y[1] - x[1] * y[0])
    if hx.fdist(cr, n) > TOL:
        c.fail('normals', '%s is not right-handed: x cross y = %r, n = %r' % (label, cr, n))
        return False
    return True


# ------------------------------------------------------------------ per-class checks
def chk_vector(o, r, c):
    c.same_pt('points', 'vector', tuple(r), c.T.lin(o))


def chk_point(o, r, c):
    c.pt('point', r, o)


def _along(p, v, t):
    return tuple(a + b * t for a, b in zip(p, v))


def chk_ray(o, r, c):
    c.pt('p', r.p, o.p)
    c.vec('v', r.v, o.v)
    for t in (0.37, 2.5):
        c.pt('p + %g v' % t, _along(r.p, r.v, t), _along(o.p, o.v, t))


def chk_segment(o, r, c):
    c.pt('p1', r.p1, o.p1)
    c.pt('p2', r.p2, o.p2)
    c.vec('v', r.v, o.v)
    c.pt('midpoint', r.midpoint, o.midpoint)
    for t in (0.25, 0.8):
        c.pt('point_at(%g)' % t, r.point_at(t), o.point_at(t))
    c.num('length', r.length, o.length * abs(c.T.k))


ARC_TS = (0.0, 0.13, 0.5, 0.77, 1.0)


def chk_arc2d(o, r, c):
    k = abs(c.T.k)
    c.pt('c', r.c, o.c)
    c.num('r', r.r, o.r * k)
    c.eq('is_circle', r.is_circle, o.is_circle)
    c.num('length', r.length, o.length * k)
    if not (0 <= r.a1 <= TWO_PI and 0 <= r.a2 <= TWO_PI):
        c.fail('points', 'angles outside [0, 2pi]: a1 = %r, a2 = %r' % (r.a1, r.a2))
    mc = c.T.pt(o.c)
    if o.is_circle:
        c.num('area', r.area, o.area * k * k)
        for t in ARC_TS[:-1]:
            q = c.T.pt(o.point_at(t))
            if abs(hx.fdist(q, tuple(r.c)) - r.r) > c.tol:
                c.fail('points', 'image of the sample point_at(%g) is at distance %.12g from '
                       'the result centre, radius %.12g' % (t, hx.fdist(q, tuple(r.c)), r.r))
            if abs(hx.fdist(tuple(r.point_at(t)), mc) - o.r * k) > c.tol:
                c.fail('points', 'result sample point_at(%g) is not on the image circle' % t)
        return
    c.num('angle', r.angle, o.angle)
    rev = c.T.det < 0
    c.pt('p1', r.p1, o.p2 if rev else o.p1)
    c.pt('p2', r.p2, o.p1 if rev else o.p2)
    c.pt('midpoint', r.midpoint, o.midpoint)
    for t in ARC_TS:
        c.pt('point_at(%g)' % t, r.point_at(t), o.point_at(1 - t if rev else t))


def chk_arc3d(o, r, c):
    k = abs(c.T.k)
    c.pt('plane.o', r.plane.o, o.plane.o)
    c.pt('c', r.c, o.c)
    c.num('radius', r.radius, o.radius * k)
    c.eq('is_circle', r.is_circle, o.is_circle)
    c.num('length', r.length, o.length * k)
    frame_ok(c, 'plane', r.plane)
    c.direction('plane.n', r.plane.n, o.plane.n, either_sign=c.T.det < 0)
    mc = c.T.pt(o.c)
    rn = tuple(r.plane.n)
    if o.is_circle:
        for t in ARC_TS[:-1]:
            q = c.T.pt(o.point_at(t))
            d = tuple(a - b for a, b in zip(q, tuple(r.c)))
            if abs(hx.fdist(q, tuple(r.c)) - r.radius) > c.tol or \
                    abs(sum(a * b for a, b in zip(d, rn))) > c.tol:
                c.fail('points', 'image of the sample point_at(%g) is not on the result '
                       'circle' % t)
            if abs(hx.fdist(tuple(r.point_at(t)), mc) - o.radius * k) > c.tol:
                c.fail('points', 'result sample point_at(%g) is not on the image circle' % t)
    else:
        c.num('angle', r.angle, o.angle)
        # the arc runs counter-clockwise about its normal: direction decided by the normal
        same = sum(a * b for a, b in zip(rn, c.T.unit(o.plane.n))) > 0
        rev = (c.T.det < 0) == same
        c.pt('p1', r.p1, o.p2 if rev else o.p1)
        c.pt('p2', r.p2, o.p1 if rev else o.p2)
        c.pt('midpoint', r.midpoint, o.midpoint)
        for t in ARC_TS:
            c.pt('point_at(%g)' % t, r.point_at(t), o.point_at(1 - t if rev else t))
    # counter-clockwise about the normal (exact sign of a triple product)
    steps = 8
    ctr = hx.fx(r.c)
    n = hx.fx(r.plane.n)
    qs = [hx.fx(r.point_at(i / float(steps))) for i in range(steps + 1)]
    for a, b in zip(qs[:-1], qs[1:]):
        if hx.dot(hx.cross(hx.sub(a, ctr), hx.sub(b, ctr)), n) <= 0:
            c.fail('ccw', 'the result arc does not run counter-clockwise about its plane normal')
            break


def chk_polyline(o, r, c):
    c.seq('vertices', r.vertices, o.vertices)
    c.num('length', r.length, o.length * abs(c.T.k))
    c.eq('interpolated', r.interpolated, o.interpolated)
    c.pt('p1', r.p1, o.p1)
    c.pt('p2', r.p2, o.p2)


def chk_polygon(o, r, c):
    k = abs(c.T.k)
    c.seq('vertices', r.vertices, o.vertices)
    c.num('area', r.area, o.area * k * k)
    c.num('perimeter', r.perimeter, o.perimeter * k)
    s = hx.shoelace2([hx.fx(p) for p in r.vertices])
    c.eq('is_clockwise', r.is_clockwise, s < 0, 'ccw')
    c.eq('is_clockwise vs original', r.is_clockwise, o.is_clockwise != (c.T.det < 0), 'ccw')
    c.num('area vs exact shoelace', r.area, abs(float(s)) / 2)


def chk_mesh2d(o, r, c):
    k = abs(c.T.k)
    c.seq('vertices', r.vertices, o.vertices)
    c.eq('faces', tuple(r.faces), tuple(o.faces))
    c.num('area', r.area, o.area * k * k)
    for i, (a, b) in enumerate(zip(r.face_areas, o.face_areas)):
        if not c.num('face_areas[%d]' % i, a, b * k * k, atol=TOL * r.area):
            break
    c.seq('face_centroids', r.face_centroids, o.face_centroids)
    c.pt('centroid', r.centroid, o.centroid)


def chk_mesh3d(o, r, c):
    k = abs(c.T.k)
    c.seq('vertices', r.vertices, o.vertices)
    c.eq('faces', tuple(r.faces), tuple(o.faces))
    c.num('area', r.area, o.area * k * k)
    for i, (a, b) in enumerate(zip(r.face_areas, o.face_areas)):
        if not c.num('face_areas[%d]' % i, a, b * k * k, atol=TOL * r.area):
            break
    c.seq('face_centroids', r.face_centroids, o.face_centroids)
    ev = [hx.fx(p) for p in r.vertices]
    thin = 1e-6 * o.area / max(1, len(o.faces))
    degenerate = any(a < thin for a in o.face_areas)
    for i, (fc, nr, no) in enumerate(zip(r.faces, r.face_normals, o.face_normals)):
        if o.face_areas[i] < thin:       # zero-area face: its normal is not defined
            continue
        # mesh faces keep their index order: the normal follows the mirrored winding
        want = tuple(c.T.det * t for t in c.T.unit(no))
        g = tuple(nr)
        if abs(math.sqrt(sum(t * t for t in g)) - 1.0) > TOL or hx.fdist(g, want) > 4 * TOL:
            c.fail('normals', 'face_normals[%d] = %r, reference %r' % (i, g, want))
            break
        N = hx.newell([ev[j] for j in fc])
        if hx.dot(N, hx.fx(nr)) <= 0:
            c.fail('ccw', 'face_normals[%d] opposes the right-hand rule of the result face' % i)
            break
    for i, (nr, no) in enumerate(zip(r.vertex_normals, o.vertex_normals)):
        if degenerate:
            break
        want = tuple(c.T.det * t for t in c.T.unit(no))
        if hx.fdist(tuple(nr), want) > 4 * TOL:
            c.fail('normals', 'vertex_normals[%d] = %r, reference %r' % (i, tuple(nr), want))
            break


def chk_plane(o, r, c):
    c.pt('o', r.o, o.o)
    if not frame_ok(c, 'plane', r):
        return
    c.direction('n', r.n, o.n, either_sign=c.T.det < 0)
    kk = sum(a * b for a, b in zip(tuple(r.n), tuple(r.o)))
    if abs(r.k - kk) > c.tol:
        c.fail('points', 'k = %.15g but n.o = %.15g' % (r.k, kk))
    # sampled points of the original plane land on the result plane, and back
    rn, ro = tuple(r.n), tuple(r.o)
    k = c.T.k
    for (u, v) in ((1.0, 0.0), (0.0, 1.0), (-2.3, 1.7)):
        q = c.T.pt(o.xy_to_xyz(Point2D(u, v)))
        d = sum(a * (b - e) for a, b, e in zip(rn, q, ro))
        if abs(d) > c.tol:
            c.fail('points', 'image of the plane point (%g, %g) is %.3g off the result plane'
                   % (u, v, d))
            break
        back = r.xyz_to_xy(Point3D(*q))
        if abs(math.hypot(back.x, back.y) - k * math.hypot(u, v)) > c.tol:
            c.fail('points', 'plane coordinates of the image of (%g, %g) have the wrong '
                   'length %.12g' % (u, v, math.hypot(back.x, back.y)))
            break
    if c.T.det > 0:
        c.direction('x', r.x, o.x)
        c.direction('y', r.y, o.y)


def _exact_face_ccw(c, f, label):
    """normal = Newell normal of the boundary; exact shoelace in the plane > 0."""
    b = [hx.fx(p) for p in f.boundary]
    n = hx.fx(f.normal)
    N = hx.newell(b)
    NN = hx.n2(N)
    if NN == 0 or hx.dot(N, n) <= 0:
        c.fail('ccw', '%s: normal opposes the right-hand rule of its boundary' % label)
        return False
    size = math.sqrt(math.sqrt(float(NN)) / 2.0)
    dirtol = TOL * max(1.0, c.scale / size)
    if hx.n2(hx.cross(n, N)) > F(dirtol) ** 2 * NN * hx.n2(n):
        nf = math.sqrt(float(NN))
        c.fail('normals', '%s: normal %r is not the Newell normal %r of its boundary' % (
            label, tuple(f.normal), tuple(float(t) / nf for t in N)))
        return False
    fr = hx.frame_of(f.plane)
    if hx.shoelace2([hx.to2d_exact(fr, p) for p in b]) <= 0:
        c.fail('ccw', '%s: boundary is clockwise in its plane coordinates' % label)
        return False
    if hx.shoelace2([hx.to2d_exact(fr, hx.fx(p)) for p in f.vertices]) <= 0:
        c.fail('ccw', '%s: vertices are clockwise in their plane coordinates' % label)
        return False
    if f.is_clockwise is not False:
        c.fail('ccw', '%s: is_clockwise is %r' % (label, f.is_clockwise))
        return False
    if f.boundary_polygon2d.is_clockwise is not False:
        c.fail('ccw', '%s: boundary_polygon2d.is_clockwise is True' % label)
        return False
    return True


def _face_image(c, o, r, label):
    """result face r is the image of the face o (orientation included)."""
    rev_ok = c.T.det < 0
    d = c.loop(label + '.boundary', r.boundary, o.boundary, allow_reverse=rev_ok)
    if d == 0:
        return False
    if not c.direction(label + '.normal', r.normal, o.normal, either_sign=rev_ok):
        return False
    c.eq(label + '.has_holes', r.has_holes, o.has_holes)
    if o.has_holes and r.has_holes:
        if len(r.holes) != len(o.holes):
            c.fail('points', '%s: %d holes, expected %d' % (label, len(r.holes), len(o.holes)))
            return False
        for i, (hr, ho) in enumerate(zip(r.holes, o.holes)):
            if c.loop('%s.holes[%d]' % (label, i), hr, ho, allow_reverse=True) == 0:
                return False
    if c.loop(label + '.vertices', r.vertices, o.vertices, allow_reverse=rev_ok) == 0:
        return False
    for p in r.vertices:
        q = r.plane.xy_to_xyz(r.plane.xyz_to_xy(p))
        if hx.fdist(tuple(p), tuple(q)) > c.tol:
            c.fail('points', '%s: vertex %r is %.3g away from the result plane' % (
                label, tuple(p), hx.fdist(tuple(p), tuple(q))))
            return False
    if not frame_ok(c, label + '.plane', r.plane):
        return False
    return _exact_face_ccw(c, r, label)


def chk_face(o, r, c):
    k = abs(c.T.k)
    if not _face_image(c, o, r, 'face'):
        return
    c.num('area', r.area, o.area * k * k)
    c.num('perimeter', r.perimeter, o.perimeter * k)
    c.pt('centroid', r.centroid, o.centroid)
    c.eq('is_convex', r.is_convex, o.is_convex)
    # exact area of the result region
    fr = hx.frame_of(r.plane)
    ex = hx.shoelace2([hx.to2d_exact(fr, hx.fx(p)) for p in r.vertices]) / 2
    c.num('area vs exact shoelace', r.area, float(ex))


def _pf_volume6(faces):
    v = F(0)
    for f in faces:
        vs = [hx.fx(p) for p in f.vertices]
        v += hx.dot(vs[0], hx.newell(vs))
    return v


def chk_polyface(o, r, c):
    k = abs(c.T.k)
    c.seq('vertices', r.vertices, o.vertices)
    c.eq('is_solid', r.is_solid, o.is_solid)
    c.eq('len(faces)', len(r.faces), len(o.faces))
    c.eq('len(edges)', len(r.edges), len(o.edges))
    c.eq('len(naked_edges)', len(r.naked_edges), len(o.naked_edges))
    c.eq('len(internal_edges)', len(r.internal_edges), len(o.internal_edges))
    c.eq('len(non_manifold_edges)', len(r.non_manifold_edges), len(o.non_manifold_edges))
    if c.fails:
        return
    signs = set()
    for i, (fr_, fo) in enumerate(zip(r.faces, o.faces)):
        if not _face_image(c, fo, fr_, 'faces[%d]' % i):
            return
        w = c.T.unit(fo.normal)
        signs.add(1 if sum(a * b for a, b in zip(tuple(fr_.normal), w)) > 0 else -1)
    if len(signs) > 1:
        c.fail('outward', 'some faces kept and some flipped their side under the map')
    c.num('area', r.area, o.area * k * k)
    if o.is_solid:
        c.num('volume', r.volume, o.volume * k ** 3)
        v6 = _pf_volume6(r.faces)
        if v6 <= 0:
            c.fail('outward', 'exact signed volume of the result faces = %.6g (faces point '
                   'inward)' % (float(v6) / 6))
        else:
            c.num('volume vs exact', r.volume, float(v6) / 6)
    # faces rebuilt from the defining data agree with the cached faces
    for how, mk in (('Polyface3D(vertices, face_indices)',
                     lambda: Polyface3D(r.vertices, r.face_indices)),
                    ('from_dict(to_dict())', lambda: Polyface3D.from_dict(r.to_dict()))):
        g = hx.guarded(mk)
        if g[0] == 'raise':
            c.fail('rebuilt|raises ' + hx.exc_name(g[1]), '%s: %s' % (how, str(g[1])[:200]))
            continue
        fs = g[1].faces
        if len(fs) != len(r.faces):
            c.fail('outward', '%s has %d faces, .faces %d' % (how, len(fs), len(r.faces)))
            continue
        for i, (a, b) in enumerate(zip(fs, r.faces)):
            if hx.fdist(tuple(a.normal), tuple(b.normal)) > 1e-6:
                c.fail('outward', 'faces[%d].normal = %r but the face rebuilt by %s has normal '
                       '%r' % (i, tuple(b.normal), how, tuple(a.normal)))
                break


def chk_sphere(o, r, c):
    k = abs(c.T.k)
    c.pt('center', r.center, o.center)
    c.num('radius', r.radius, o.radius * k)
    c.num('area', r.area, o.area * k * k)
    c.num('volume', r.volume, o.volume * k ** 3)
    c.num('circumference', r.circumference, o.circumference * k)


def _circle_image(c, label, ro, oo):
    """Arc3D circle ro is the image of the circle oo (as point sets)."""
    k = abs(c.T.k)
    c.pt(label + '.c', ro.c, oo.c)
    c.num(label + '.radius', ro.radius, oo.radius * k)
    c.direction(label + '.plane.n', ro.plane.n, oo.plane.n, either_sign=c.T.det < 0)
    mc = c.T.pt(oo.c)
    ax = c.T.unit(oo.plane.n)
    for t in (0.0, 0.3, 0.61):
        q = tuple(ro.point_at(t))
        d = tuple(a - b for a, b in zip(q, mc))
        if abs(hx.fdist(q, mc) - oo.radius * k) > c.tol or \
                abs(sum(a * b for a, b in zip(d, ax))) > c.tol:
            c.fail('points', '%s sample point_at(%g) is not on the image circle' % (label, t))
            break


def chk_cone(o, r, c):
    k = abs(c.T.k)
    c.pt('vertex', r.vertex, o.vertex)
    c.vec('axis', r.axis, o.axis)
    c.num('angle', r.angle, o.angle)
    c.num('height', r.height, o.height * k)
    c.num('radius', r.radius, o.radius * k)
    c.num('slant_height', r.slant_height, o.slant_height * k)
    c.num('area', r.area, o.area * k * k)
    c.num('volume', r.volume, o.volume * k ** 3)
    _circle_image(c, 'base', r.base, o.base)


def chk_cylinder(o, r, c):
    k = abs(c.T.k)
    c.pt('center', r.center, o.center)
    c.pt('center_end', r.center_end, o.center_end)
    c.vec('axis', r.axis, o.axis)
    c.num('radius', r.radius, o.radius * k)
    c.num('height', r.height, o.height * k)
    c.num('diameter', r.diameter, o.diameter * k)
    c.num('area', r.area, o.area * k * k)
    c.num('volume', r.volume, o.volume * k ** 3)
    _circle_image(c, 'base_bottom', r.base_bottom, o.base_bottom)
    _circle_image(c, 'base_top', r.base_top, o.base_top)


# ------------------------------------------------------------------ instance generators
def _p2(rng, m):
    return Point2D(rng.uniform(-m, m), rng.uniform(-m, m))


def _p3(rng, m):
    return Point3D(rng.uniform(-m, m), rng.uniform(-m, m), rng.uniform(-m, m))


def _mag(rng):
    return rng.choice([1.0, 10.0, 100.0])


def gen_arc_angles(rng):
    """(a1, a2, variant): spans 0.3 .. 2pi-0.3, inverted or not, special end values."""
    span = rng.uniform(0.3, TWO_PI - 0.3)
    a1 = rng.uniform(0, TWO_PI)
    if rng.random() < 0.15:
        a1 = rng.choice([0.0, math.pi / 2, math.pi, 1.5 * math.pi])
    a2 = a1 + span
    if a2 > TWO_PI:
        a2 -= TWO_PI
    if rng.random() < 0.08 and a1 > 0.4:
        a2 = TWO_PI           # an arc that ends exactly at 2 pi
    return a1, a2, 'inverted' if a2 < a1 else 'arc'


def _loop2(rng, nmax=10):
    pts, kind = hx.gen_loop(rng, nmax)
    return pts


def g_vector2d(rng):
    m = _mag(rng)
    return Vector2D(rng.uniform(-m, m), rng.uniform(-m, m)), ''


def g_point2d(rng):
    return _p2(rng, _mag(rng)), ''


def g_ray2d(rng):
    m = _mag(rng)
    return Ray2D(_p2(rng, m), Vector2D(rng.uniform(-5, 5), rng.uniform(0.1, 5))), ''


def g_seg2d(rng):
    m = _mag(rng)
    return LineSegment2D(_p2(rng, m), Vector2D(rng.uniform(-5, 5), rng.uniform(0.1, 5))), ''


def g_arc2d(rng):
    m = _mag(rng)
    r = math.exp(rng.uniform(math.log(0.05), math.log(30.0)))
    if rng.random() < 0.3:
        return Arc2D(_p2(rng, m), r), 'circle'
    a1, a2, v = gen_arc_angles(rng)
    return Arc2D(_p2(rng, m), r, a1, a2), v


def g_polyline2d(rng):
    pts = _loop2(rng)
    k = rng.randint(3, len(pts))
    return Polyline2D([Point2D(*p) for p in pts[:k]], rng.random() < 0.3), ''


def g_polygon2d(rng):
    pts = _loop2(rng, 12)
    v = 'ccw'
    if rng.random() < 0.5:
        pts = list(reversed(pts))
        v = 'cw'
    if rng.random() < 0.2:
        b, hs = hx.gen_holed(rng, 1)
        p = Polygon2D.from_shape_with_hole([Point2D(*q) for q in b], [Point2D(*q) for q in hs[0]])
        return p, 'hole'
    p = Polygon2D([Point2D(*q) for q in pts])
    return p, v


def _warm(obj, rng, props):
    for pr in props:
        if rng.random() < 0.5:
            try:
                getattr(obj, pr)
            except Exception:
                pass
    return obj


def g_mesh2d(rng):
    ch = rng.random()
    if ch < 0.35:
        m = Mesh2D.from_grid(_p2(rng, 10), rng.randint(1, 3), rng.randint(1, 3),
                             rng.uniform(0.3, 3), rng.uniform(0.3, 3))
        v = 'grid'
    elif ch < 0.7:
        m = Mesh2D.from_polygon_triangulated(Polygon2D([Point2D(*q) for q in _loop2(rng, 8)]))
        v = 'triangulated'
    else:
        a = rng.uniform(0.5, 3)
        m = Mesh2D((Point2D(0, 0), Point2D(a, 0.2), Point2D(a + 0.3, 2), Point2D(0.1, 2.2),
                    Point2D(a + 2, 1)), [(0, 1, 2, 3), (1, 4, 2)])
        v = 'mixed'
    return m, v


def _rplane(rng, mag=None):
    return hx.rand_plane(rng, mag if mag is not None else _mag(rng))[0]


def g_vector3d(rng):
    m = _mag(rng)
    return Vector3D(rng.uniform(-m, m), rng.uniform(-m, m), rng.uniform(-m, m)), ''


def g_point3d(rng):
    return _p3(rng, _mag(rng)), ''


def _v3(rng):
    return hx.rand_unit3(rng) * rng.uniform(0.1, 8)


def g_ray3d(rng):
    return Ray3D(_p3(rng, _mag(rng)), _v3(rng)), ''


def g_seg3d(rng):
    return LineSegment3D(_p3(rng, _mag(rng)), _v3(rng)), ''


def g_arc3d(rng):
    r = math.exp(rng.uniform(math.log(0.05), math.log(30.0)))
    pl = _rplane(rng)
    if rng.random() < 0.3:
        return Arc3D(pl, r), 'circle'
    a1, a2, v = gen_arc_angles(rng)
    return Arc3D(pl, r, a1, a2), v


def g_polyline3d(rng):
    pl = _rplane(rng)
    pts = _loop2(rng)
    k = rng.randint(3, len(pts))
    p3 = hx.to3d(pl, pts[:k])
    if rng.random() < 0.5:     # not planar
        p3 = [p + pl.n * rng.uniform(-2, 2) for p in p3]
    return Polyline3D(p3, rng.random() < 0.3), ''


def g_mesh3d(rng):
    pl = _rplane(rng)
    m2, v = g_mesh2d(rng)
    m = Mesh3D.from_mesh2d(m2, pl)
    if rng.random() < 0.3:
        box = Polyface3D.from_box(rng.uniform(0.5, 3), rng.uniform(0.5, 3), rng.uniform(0.5, 3),
                                  pl)
        m = Mesh3D(box.vertices, [tuple(f[0]) for f in box.face_indices])
        v = 'box'
    return m, v


def g_plane(rng):
    pl, kind = hx.rand_plane(rng, _mag(rng))
    return pl, kind


def g_face(rng):
    pl = _rplane(rng)
    ch = rng.random()
    if ch < 0.3:
        b, hs = hx.gen_holed(rng, rng.randint(1, 3), 8)
        hs = [h if rng.random() < 0.5 else list(reversed(h)) for h in hs]
        f = Face3D(hx.to3d(pl, b), None if rng.random() < 0.5 else pl,
                   [hx.to3d(pl, h) for h in hs])
        v = 'holes'
    elif ch < 0.4:
        f = Face3D.from_rectangle(rng.uniform(0.2, 9), rng.uniform(0.2, 9), pl)
        v = 'rectangle'
    elif ch < 0.5:
        f = Face3D.from_regular_polygon(rng.randint(3, 9), rng.uniform(0.2, 6), pl)
        v = 'regular'
    else:
        pts = _loop2(rng, 12)
        if rng.random() < 0.5:
            pts = list(reversed(pts))
        f = Face3D(hx.to3d(pl, pts), pl if rng.random() < 0.4 else None)
        v = 'loop'
    return f, v


def g_polyface(rng):
    pl = _rplane(rng)
    ch = rng.random()
    if ch < 0.25:
        pf = Polyface3D.from_box(rng.uniform(0.3, 6), rng.uniform(0.3, 6), rng.uniform(0.3, 6),
                                 pl)
        v = 'solid-box'
    elif ch < 0.5:
        f = Face3D(hx.to3d(pl, _loop2(rng, 8)))
        pf = Polyface3D.from_offset_face(f, rng.uniform(0.3, 4))
        v = 'solid-extrusion'
    elif ch < 0.62:
        b, hs = hx.gen_holed(rng, 1, 6)
        f = Face3D(hx.to3d(pl, b), None, [hx.to3d(pl, hs[0])])
        pf = Polyface3D.from_offset_face(f, rng.uniform(0.3, 4))
        v = 'solid-holed-extrusion'
    elif ch < 0.8:
        box = Polyface3D.from_box(rng.uniform(0.3, 6), rng.uniform(0.3, 6),
                                  rng.uniform(0.3, 6), pl)
        fs = list(box.faces)
        del fs[rng.randrange(6)]
        if rng.random() < 0.5:
            del fs[rng.randrange(5)]
        pf = Polyface3D.from_faces(fs, 1e-6)
        v = 'open-box'
    else:
        box = Polyface3D.from_box(rng.uniform(0.3, 6), rng.uniform(0.3, 6),
                                  rng.uniform(0.3, 6), pl)
        fi = list(box.face_indices)
        if rng.random() < 0.5:
            del fi[rng.randrange(6)]
            v = 'open-indices'
        else:
            v = 'solid-indices'
        pf = Polyface3D(box.vertices, fi)
    return pf, v


def g_sphere(rng):
    return Sphere(_p3(rng, _mag(rng)), math.exp(rng.uniform(-3, 3))), ''


def g_cone(rng):
    return Cone(_p3(rng, _mag(rng)), _v3(rng), rng.uniform(0.05, 1.4)), ''


def g_cylinder(rng):
    return Cylinder(_p3(rng, _mag(rng)), _v3(rng), math.exp(rng.uniform(-3, 3))), ''


def s_face():
    return Face3D([Point3D(0, 0, 0), Point3D(4, 0, 0), Point3D(4, 1, 0), Point3D(1, 1, 0),
                   Point3D(1, 3, 0), Point3D(0, 3, 0)])


SIMPLE = {
    'Vector2D': lambda: Vector2D(1, 2), 'Point2D': lambda: Point2D(1, 2),
    'Ray2D': lambda: Ray2D(Point2D(1, 2), Vector2D(2, 1)),
    'LineSegment2D': lambda: LineSegment2D(Point2D(1, 2), Vector2D(2, 1)),
    'Arc2D': lambda: Arc2D(Point2D(1, 2), 3.0, 0.5, 2.0),
    'Arc2D/far': lambda: Arc2D(Point2D(1000, 400), 0.05, 0.5, 2.0),
    'Arc2D/circle': lambda: Arc2D(Point2D(1, 2), 3.0),
    'Arc2D/inverted': lambda: Arc2D(Point2D(1, 2), 3.0, 4.5, 1.0),
    'Polyline2D': lambda: Polyline2D([Point2D(0, 0), Point2D(2, 0), Point2D(2, 1)]),
    'Polygon2D': lambda: Polygon2D([Point2D(0, 0), Point2D(4, 0), Point2D(4, 1), Point2D(1, 1),
                                    Point2D(1, 3), Point2D(0, 3)]),
    'Mesh2D': lambda: Mesh2D.from_grid(Point2D(0, 0), 2, 1, 1.0, 2.0),
    'Vector3D': lambda: Vector3D(1, 2, 3), 'Point3D': lambda: Point3D(1, 2, 3),
    'Ray3D': lambda: Ray3D(Point3D(1, 2, 3), Vector3D(2, 1, -1)),
    'LineSegment3D': lambda: LineSegment3D(Point3D(1, 2, 3), Vector3D(2, 1, -1)),
    'Arc3D': lambda: Arc3D(Plane(Vector3D(0, 0, 1), Point3D(1, 2, 3)), 3.0, 0.5, 2.0),
    'Arc3D/circle': lambda: Arc3D(Plane(Vector3D(0, 0, 1), Point3D(1, 2, 3)), 3.0),
    'Arc3D/inverted': lambda: Arc3D(Plane(Vector3D(0, 0, 1), Point3D(1, 2, 3)), 3.0, 4.5, 1.0),
    'Polyline3D': lambda: Polyline3D([Point3D(0, 0, 0), Point3D(2, 0, 0), Point3D(2, 1, 1)]),
    'Mesh3D': lambda: Mesh3D.from_mesh2d(Mesh2D.from_grid(Point2D(0, 0), 2, 1, 1.0, 2.0),
                                         Plane(Vector3D(0, 0, 1), Point3D(0, 0, 1))),
    'Plane': lambda: Plane(Vector3D(0, 0, 1), Point3D(1, 2, 3)),
    'Face3D': s_face,
    'Face3D/holes': lambda: Face3D(
        [Point3D(0, 0, 0), Point3D(6, 0, 0), Point3D(6, 6, 0), Point3D(0, 6, 0)], None,
        [[Point3D(1, 1, 0), Point3D(2, 1, 0), Point3D(2, 3, 0)]]),
    'Polyface3D': lambda: Polyface3D.from_box(2, 3, 4),
    'Polyface3D/open-box': lambda: Polyface3D.from_faces(
        list(Polyface3D.from_box(2, 3, 4).faces)[:5], 1e-6),
    'Polyface3D/open-indices': lambda: Polyface3D(
        Polyface3D.from_box(2, 3, 4).vertices, Polyface3D.from_box(2, 3, 4).face_indices[:5]),
    'Sphere': lambda: Sphere(Point3D(1, 2, 3), 2.0),
    'Cone': lambda: Cone(Point3D(1, 2, 3), Vector3D(0, 0, 2), 0.5),
    'Cylinder': lambda: Cylinder(Point3D(1, 2, 3), Vector3D(0, 0, 2), 1.5),
}

WARM = {
    'Polygon2D': ('area', 'is_clockwise', 'perimeter', 'is_convex'),
    'Polyline2D': ('length', 'segments'), 'Polyline3D': ('length', 'segments'),
    'Mesh2D': ('area', 'face_areas', 'face_centroids', 'centroid'),
    'Mesh3D': ('area', 'face_areas', 'face_centroids', 'face_normals', 'vertex_normals'),
    'Face3D': ('area', 'perimeter', 'centroid', 'polygon2d', 'triangulated_mesh2d',
               'is_convex', 'boundary_polygon2d'),
    'Polyface3D': ('faces', 'area', 'volume', 'edges'),
    'Arc2D': ('min',), 'Arc3D': ('min',), 'Cone': ('base',), 'Cylinder': ('base_top',),
}

CANON = {('Arc2D', 'inverted'): 'arc', ('Arc2D', 'far'): 'arc', ('Arc2D', 'simple'): 'arc',
         ('Arc3D', 'inverted'): 'arc', ('Arc3D', 'simple'): 'arc',
         ('Face3D', 'simple'): 'loop', ('Polyface3D', 'simple'): 'solid-box'}
K2 = ('move', 'rotate', 'reflect', 'scale')
K3 = ('move', 'rotate', 'rotate_xy', 'reflect', 'scale')
SPECS = [
    # name, dim, generator, check, kinds, is_vector
    ('Vector2D', 2, g_vector2d, chk_vector, ('rotate', 'reflect'), True),
    ('Point2D', 2, g_point2d, chk_point, K2, False),
    ('Ray2D', 2, g_ray2d, chk_ray, K2, False),
    ('LineSegment2D', 2, g_seg2d, chk_segment, K2, False),
    ('Arc2D', 2, g_arc2d, chk_arc2d, K2, False),
    ('Polyline2D', 2, g_polyline2d, chk_polyline, K2, False),
    ('Polygon2D', 2, g_polygon2d, chk_polygon, K2, False),
    ('Mesh2D', 2, g_mesh2d, chk_mesh2d, K2, False),
    ('Vector3D', 3, g_vector3d, chk_vector, ('rotate', 'rotate_xy', 'reflect'), True),
    ('Point3D', 3, g_point3d, chk_point, K3, False),
    ('Ray3D', 3, g_ray3d, chk_ray, K3, False),
    ('LineSegment3D', 3, g_seg3d, chk_segment, K3, False),
    ('Arc3D', 3, g_arc3d, chk_arc3d, K3, False),
    ('Polyline3D', 3, g_polyline3d, chk_polyline, K3, False),
    ('Mesh3D', 3, g_mesh3d, chk_mesh3d, K3, False),
    ('Plane', 3, g_plane, chk_plane, K3, False),
    ('Polyface3D', 3, g_polyface, chk_polyface, K3, False),
    ('Face3D', 3, g_face, chk_face, K3, False),
    ('Sphere', 3, g_sphere, chk_sphere, K3, False),
    ('Cone', 3, g_cone, chk_cone, K3, False),
    ('Cylinder', 3, g_cylinder, chk_cylinder, K3, False),
]
SPEC = dict((s[0], s) for s in SPECS)
HEAVY = ('Face3D', 'Polyface3D', 'Mesh3D', 'Mesh2D')


# ------------------------------------------------------------------ shape signature
def shape_sig(name, obj):
    """Defining data of an object for the 'inverse map returns the original' clause:
    list of (label, kind, value); kinds: 'p' point, 'n' number, 'loop' cyclic points,
    'd' discrete."""
    if name in ('Vector2D', 'Vector3D', 'Point2D', 'Point3D'):
        return [('xyz', 'p', tuple(obj))]
    if name in ('Ray2D', 'Ray3D', 'LineSegment2D', 'LineSegment3D'):
        return [('p', 'p', tuple(obj.p)), ('v', 'p', tuple(obj.v))]
    if name in ('Arc2D', 'Arc3D'):
        out = [('c', 'p', tuple(obj.c)), ('r', 'n', obj.r if name == 'Arc2D' else obj.radius),
               ('is_circle', 'd', obj.is_circle)]
        if name == 'Arc3D':
            out.append(('n', 'p', tuple(obj.plane.n)))
        if not obj.is_circle:
            out += [('p1', 'p', tuple(obj.p1)), ('mid', 'p', tuple(obj.midpoint)),
                    ('p2', 'p', tuple(obj.p2))]
        return out
    if name in ('Polyline2D', 'Polyline3D', 'Polygon2D'):
        return [('vertices', 'seq', [tuple(p) for p in obj.vertices])]
    if name in ('Mesh2D', 'Mesh3D'):
        return [('vertices', 'seq', [tuple(p) for p in obj.vertices]),
                ('faces', 'd', tuple(obj.faces))]
    if name == 'Plane':
        return [('o', 'p', tuple(obj.o)), ('n', 'p', tuple(obj.n)), ('x', 'p', tuple(obj.x))]
    if name == 'Face3D':
        out = [('boundary', 'loop', [tuple(p) for p in obj.boundary]),
               ('normal', 'p', tuple(obj.normal)), ('area', 'n', obj.area)]
        if obj.has_holes:
            for i, h in enumerate(obj.holes):
                out.append(('holes[%d]' % i, 'loop', [tuple(p) for p in h]))
        return out
    if name == 'Polyface3D':
        out = [('vertices', 'seq', [tuple(p) for p in obj.vertices]),
               ('is_solid', 'd', obj.is_solid), ('area', 'n', obj.area)]
        for i, f in enumerate(obj.faces):
            out.append(('faces[%d].normal' % i, 'p', tuple(f.normal)))
            out.append(('faces[%d].boundary' % i, 'loop', [tuple(p) for p in f.boundary]))
        if obj.is_solid:
            out.append(('volume', 'n', obj.volume))
        return out
    if name == 'Sphere':
        return [('center', 'p', tuple(obj.center)), ('radius', 'n', obj.radius)]
    if name == 'Cone':
        return [('vertex', 'p', tuple(obj.vertex)), ('axis', 'p', tuple(obj.axis)),
                ('angle', 'n', obj.angle)]
    if name == 'Cylinder':
        return [('center', 'p', tuple(obj.center)), ('axis', 'p', tuple(obj.axis)),
                ('radius', 'n', obj.radius)]
    raise ValueError(name)


def compare_sig(a, b, tol):
    """None or a one-line difference."""
    if len(a) != len(b):
        return 'different structure'
    for (la, ka, va), (lb, kb, vb) in zip(a, b):
        if la != lb:
            return 'different structure at %s / %s' % (la, lb)
        if ka == 'd':
            if va != vb:
                return '%s: %r vs %r' % (la, vb, va)
        elif ka == 'n':
            if abs(va - vb) > 100 * TOL * max(abs(va), abs(vb), 1e-300):
                return '%s: %.15g vs %.15g' % (la, vb, va)
        elif ka == 'p':
            if hx.fdist(va, vb) > tol:
                return '%s: %r vs %r' % (la, vb, va)
        elif ka == 'seq':
            if len(va) != len(vb):
                return '%s: %d vs %d points' % (la, len(vb), len(va))
            for i, (p, q) in enumerate(zip(va, vb)):
                if hx.fdist(p, q) > tol:
                    return '%s[%d]: %r vs %r' % (la, i, q, p)
        else:
            n = len(va)
            if n != len(vb):
                return '%s: %d vs %d points' % (la, len(vb), n)
            ok = False
            for s in range(n):
                if hx.fdist(va[0], vb[s]) <= tol and \
                        all(hx.fdist(va[i], vb[(s + i) % n]) <= tol for i in range(n)):
                    ok = True
                    break
            if not ok:
                return '%s: not the same loop' % la
    return None


# ------------------------------------------------------------------ one case
def build_case(desc):
    name, kind = desc['cls'], desc['kind']
    spec = SPEC[name]
    dim = spec[1]
    sub = desc['sub']
    if desc.get('inst', 'rand') == 'rand':
        rng = random.Random(sub + '/inst')
        obj, variant = spec[2](rng)
        if name in WARM and desc.get('warm', True):
            _warm(obj, random.Random(sub + '/warm'), WARM[name])
    else:
        key = name + ('/' + desc['inst'] if desc['inst'] != 'simple' else '')
        obj, variant = SIMPLE[key](), desc['inst']
    par = gen_params(random.Random(sub + '/par'), dim, kind, desc.get('par', 'rand'))
    return spec, obj, variant, Xf(dim, kind, **par)


def run_case(desc):
    """-> (variant, [(signature, what)], scale)"""
    b = hx.guarded(build_case, desc)
    if b[0] == 'raise':
        # building an input must not fail: count as failure of the constructor used
        return '', [('%s|construct|raises %s' % (desc['cls'], hx.exc_name(b[1])),
                     'building the instance raised %s: %s' % (hx.exc_name(b[1]),
                                                             str(b[1])[:200]))], 1.0
    spec, obj, variant, T = b[1]
    name = spec[0]
    site = '%s.%s' % (name, T.kind)
    var = ('|' + variant) if variant else ''

    def sig(clause):
        v = '|' + CANON.get((name, variant), variant) if variant else ''
        return '%s%s|%s' % (site, v if name in ('Arc2D', 'Arc3D', 'Polyface3D', 'Face3D')
                            else '', clause)
    r = hx.guarded(T.apply, obj, spec[5])
    if r[0] == 'raise':
        return variant, [(sig('raises ' + hx.exc_name(r[1])), '%s on %s %s raised %s: %s' % (
            T.text(), name, variant, hx.exc_name(r[1]), str(r[1])[:200]))], 1.0
    res = r[1]
    so = hx.guarded(shape_sig, name, obj)
    sr = hx.guarded(shape_sig, name, res)
    if sr[0] == 'raise' or so[0] == 'raise':
        e = sr[1] if sr[0] == 'raise' else so[1]
        return variant, [(sig('raises ' + hx.exc_name(e)), '%s on %s: reading the result '
                          'raised %s: %s' % (T.text(), name, hx.exc_name(e), str(e)[:200]))], 1.0
    scale = max(hx.mag_of([v for (_, k, v) in so[1] if k in ('p', 'seq', 'loop')],
                          [v for (_, k, v) in sr[1] if k in ('p', 'seq', 'loop')]), T.mag())
    c = Chk(T, scale)
    g = hx.guarded(spec[3], obj, res, c)
    out = []
    if g[0] == 'raise':
        out.append((sig('raises ' + hx.exc_name(g[1])), '%s on %s: reading the result raised '
                    '%s: %s' % (T.text(), name, hx.exc_name(g[1]), str(g[1])[:200])))
    seen = set()
    for clause, detail in c.fails:
        if clause in seen:
            continue
        seen.add(clause)
        out.append((sig(clause), '%s %s, %s: %s' % (name, variant, T.text(), detail)))
    if not out:
        # inverse map returns the original
        Ti = T.inverse()
        bi = hx.guarded(Ti.apply, res, spec[5])
        if bi[0] == 'raise':
            out.append((sig('inverse|raises ' + hx.exc_name(bi[1])), '%s then %s on %s raised '
                        '%s: %s' % (T.text(), Ti.text(), name, hx.exc_name(bi[1]),
                                    str(bi[1])[:200])))
        else:
            sb = hx.guarded(shape_sig, name, bi[1])
            if sb[0] == 'raise':
                out.append((sig('inverse|raises ' + hx.exc_name(sb[1])), str(sb[1])[:200]))
            else:
                d = compare_sig(so[1], sb[1], 4 * TOL * scale * max(1.0, 1.0 / T.k))
                if d is not None:
                    out.append((sig('inverse'), '%s %s: %s then %s does not return the original: '
                                '%s' % (name, variant, T.text(), Ti.text(), d)))
    return variant, out, scale


def shrink(desc, sig):
    best = desc
    variant = ''
    parts = sig.split('|')
    if len(parts) == 3:
        variant = parts[1]
    insts = ['simple']
    key = '%s/%s' % (desc['cls'], variant)
    if key in SIMPLE:
        insts = [variant]
    elif variant.startswith('solid') or variant == '':
        insts = ['simple']
    if desc['cls'] == 'Arc2D' and variant != 'circle':
        insts = ['simple', 'inverted', 'far']
    elif variant.startswith('open'):
        insts = ['open-box', 'open-indices']
    pars = ['simple', 'simple_neg', 'simple_wrap'] if desc['kind'] in ('rotate', 'rotate_xy') \
        else ['simple']
    cands = []
    for i in insts:
        for p in pars:
            cands.append({'inst': i, 'par': p})
    for i in insts:
        cands.append({'inst': i})
    for p in pars:
        cands.append({'par': p})
    cands.append({'warm': False})
    for cnd in cands:
        d = dict(desc)
        d.update(cnd)
        v, fl, _ = run_case(d)
        if any(s == sig for s, _ in fl):
            return d
    return best


def _size(desc):
    return (0 if desc.get('inst', 'rand') != 'rand' else 2) + \
        (0 if desc.get('par', 'rand') != 'rand' else 1)


def run(ctx):
    seed = ctx.seed
    thorough = ctx.tier == 'thorough' or bool(ctx.broken)
    budget = 400.0 if thorough else 28.0
    hard = min(ctx.deadline, time.time() + (700.0 if thorough else 42.0))
    t_end = min(ctx.deadline - 5.0, time.time() + budget)
    per_pair = 3000 if thorough else 160
    raw = {}
    hist = {'class_x_transform': {}, 'variant': {}, 'angle_band': {}, 'scale_band': {},
            'origin': {}, 'magnitude': {}}
    evaluations = 0
    nontrivial = set()
    samples = []
    pairs = [(s[0], k) for s in SPECS for k in s[4]]
    rnd = 0
    done = False
    while not done and rnd < per_pair:
        for (name, kind) in pairs:
            if time.time() > t_end:
                done = True
                break
            if name in HEAVY and rnd % 2 == 1 and not thorough:
                continue
            desc = {'cls': name, 'kind': kind, 'sub': '%s/c02/%s/%s/%d' % (seed, name, kind, rnd)}
            variant, fl, scale = run_case(desc)
            evaluations += 1
            hx.hist_add(hist['class_x_transform'], '%s.%s' % (name, kind))
            if variant:
                hx.hist_add(hist['variant'], '%s/%s' % (name, variant))
            par = gen_params(random.Random(desc['sub'] + '/par'), SPEC[name][1], kind)
            trivial = False
            if 'angle' in par:
                a = par['angle']
                band = '<-2pi' if a < -TWO_PI else '-2pi..0' if a < 0 else '0..2pi' \
                    if a <= TWO_PI else '>2pi'
                hx.hist_add(hist['angle_band'], band)
                trivial = abs(a / (math.pi / 2) - round(a / (math.pi / 2))) < 1e-12
            if 'factor' in par:
                f = par['factor']
                hx.hist_add(hist['scale_band'], '<0.2' if f < 0.2 else '0.2..1' if f < 1
                            else '1..5' if f < 5 else '>=5')
                trivial = f == 1.0
            if 'origin' in par:
                o = par['origin']
                hx.hist_add(hist['origin'], 'None' if o is None else
                            'zero' if all(t == 0 for t in o) else
                            '<=10' if hx.mag_of(o) <= 10 else '<=1e3')
            hx.hist_add(hist['magnitude'], '1e%d' % int(math.floor(math.log10(scale))))
            if not trivial:
                nontrivial.add(desc['sub'])
            if len(samples) < 8 and evaluations % 23 == 1:
                samples.append({'class': name, 'variant': variant, 'transform':
                                Xf(SPEC[name][1], kind, **par).text()})
            for sig, what in fl:
                if sig not in raw:
                    raw[sig] = (desc, what)
        rnd += 1
    fails = hx.Failures()
    for sig, (desc, what) in sorted(raw.items()):
        small = desc
        if time.time() < hard - 1:
            small = shrink(desc, sig)
        v, fl, _ = run_case(small)
        w = [x for s, x in fl if s == sig]
        T = hx.guarded(build_case, small)
        extra = {}
        if T[0] == 'ok':
            extra = {'transform': T[1][3].describe(), 'object': repr(T[1][1])[:200]}
        fails.add(sig, w[0] if w else what, _size(small), desc=small, module='c02', **extra)
    return {
        'evaluations': evaluations,
        'distinct_nontrivial': len(nontrivial),
        'rule': '21 classes x the transforms each offers (move, rotate, rotate_xy, reflect, '
                'scale; 95 class/transform pairs) x random instances (variants: circles, '
                'inverted arcs, holes, open / solid polyfaces, grid / triangulated meshes, '
                'warmed caches) x random parameters (axis any direction and length, angle in '
                '[-4pi, 4pi] with special values, origin 0..1e3, factor in [0.05, 20], unit '
                'normals); non-trivial = angle not a multiple of pi/2 and factor != 1',
        'samples': samples,
        'failures': fails.list(),
        'extra': {'histograms': hist},
    }


def replay(ctx, failure):
    d = failure.get('desc')
    if not d:
        return None
    v, fl, _ = run_case(d)
    for sig, what in fl:
        if sig == failure['signature']:
            out = dict(failure)
            out['what'] = what
            return out
    if fl:
        out = dict(failure)
        out['signature'], out['what'] = fl[0]
        return out
    return None
