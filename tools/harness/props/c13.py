"""C13 - serialisation round trips; equality / hash are value-consistent.

Property oracle on the REAL code.  For every type registered in
``ladybug_geometry.dictutil`` (21 types) random instances with full-precision doubles are
built through the public constructors / factories and the following is decided on the
implementation's outputs only (public reads; no private slot is inspected):

R  round trips  x -> to_dict -> from_dict, the same through JSON text, the same through the
   dispatcher ``geometry_dict_to_object`` and x -> to_array -> from_array (plain and through
   JSON) rebuild an object of exactly the same class whose defining coordinates and
   connectivity are bit-identical; unit-vector fields (plane normal / x-axis, which the
   constructor re-normalises) are equal to within two units in the last place;
   optional fields present / absent / null (plane, holes, interpolated, colors,
   edge_information, Plane.x);
D  duplicate() / copy.copy(): same class, bit-identical defining data, ``==`` both ways,
   not ``!=``, equal hash;
E  ``==`` reflexive, symmetric, consistent with ``!=`` and implies equal hashes (checked on
   x, its round trips, its duplicates, coordinate mutants and on a pool of objects of all
   classes that share the same coordinates);
N  objects of a different shape class or with any differing coordinate compare unequal
   (Point/Vector of equal coordinates are equal by design): one-coordinate mutants by one
   ulp and by the CPython hash-collision pairs (-1.0,-2.0), (1.0,2**61), (0.5,2**60); cross
   class families built from the same coordinates.
"""
import copy
import json
import math
import random
import struct
import sys
import time
import types

from ladybug_geometry.dictutil import geometry_dict_to_object
from ladybug_geometry.geometry2d.pointvector import Point2D, Vector2D
from ladybug_geometry.geometry2d.ray import Ray2D
from ladybug_geometry.geometry2d.line import LineSegment2D
from ladybug_geometry.geometry2d.arc import Arc2D
from ladybug_geometry.geometry2d.polyline import Polyline2D
from ladybug_geometry.geometry2d.polygon import Polygon2D
from ladybug_geometry.geometry2d.mesh import Mesh2D
from ladybug_geometry.geometry3d.pointvector import Point3D, Vector3D
from ladybug_geometry.geometry3d.ray import Ray3D
from ladybug_geometry.geometry3d.line import LineSegment3D
from ladybug_geometry.geometry3d.arc import Arc3D
from ladybug_geometry.geometry3d.polyline import Polyline3D
from ladybug_geometry.geometry3d.mesh import Mesh3D
from ladybug_geometry.geometry3d.plane import Plane
from ladybug_geometry.geometry3d.polyface import Polyface3D
from ladybug_geometry.geometry3d.face import Face3D
from ladybug_geometry.geometry3d.sphere import Sphere
from ladybug_geometry.geometry3d.cone import Cone
from ladybug_geometry.geometry3d.cylinder import Cylinder

EPS = 2.0 ** -52

ASSUMPTIONS = [
    'instances are built through the public constructors/factories with the documented '
    'preconditions (finite doubles, radius > 0, angles in [0, 2*pi], Face3D loops lie in the '
    'face plane and holes lie strictly inside the boundary, enforce_right_hand left True)',
    '"two units in the last place" of a unit-vector field is read relative to the component: '
    'pass if the ulp distance is <= 2 or |a-b| <= 2*2**-52*|a|; a component that is '
    'bit-identical to one library re-normalisation of the stored vector and within '
    '4*2**-52 relative is counted in extra.histograms.unit_ulp["tail"] instead of failing '
    '(3-ulp steps occur in about 1.4e-5 of the components of a re-normalised unit vector)',
    'LineSegment2D/3D.to_array stores the two END POINTS: the array round trip is required '
    'to reproduce p1 and p2 bit-identically; v = p2 - p1 is recomputed by from_array and '
    'its last-bit drift is counted (histogram lineseg_array_v_drift), not failed',
    'Polyline to_array carries no "interpolated" flag and Face3D.to_array / '
    'to_dict(include_plane=False) carry no plane: only coordinates and loops are compared '
    'on those routes; with include_edge_information=False the edges are compared as a '
    'multiset of (unordered vertex pair, type)',
    '0.0 and -0.0 are the same coordinate value (they compare and hash equal in Python); '
    'mesh colours and Polyface edge information are not coordinates (not part of ==)',
    'coordinate mutants of a Face3D with holes are only taken in the plane origin (a vertex '
    'moved out of the plane is not a valid face with holes)',
]
TRUSTED = [
    'C13 oracle is Python (exact bit comparison through struct / float.hex, no arithmetic); '
    'a Lean executable specification adds nothing for bit-identity checks',
    'ladybug.color is not installed here: mesh colours are exercised with a 12-line stub '
    'module ladybug.color.Color (r, g, b, a, to_dict, from_dict) injected into sys.modules '
    'for the duration of the colour cases only',
    'mutants for the inequality clause are produced by editing the to_dict() dictionary and '
    'calling from_dict(); each mutant is accepted only after its public reads show the '
    'intended coordinate',
]

TYPES = [Vector2D, Point2D, Ray2D, LineSegment2D, Arc2D, Polyline2D, Polygon2D, Mesh2D,
         Vector3D, Point3D, Ray3D, LineSegment3D, Arc3D, Polyline3D, Mesh3D, Plane,
         Polyface3D, Face3D, Sphere, Cone, Cylinder]
TYPE_BY_NAME = dict((t.__name__, t) for t in TYPES)
HAS_ARRAY = (Vector2D, Point2D, Ray2D, LineSegment2D, Polyline2D, Polygon2D,
             Vector3D, Point3D, Ray3D, LineSegment3D, Polyline3D, Face3D)
COLLISIONS = [(-1.0, -2.0), (1.0, 2.0 ** 61), (0.5, 2.0 ** 60)]
SPECIAL = [-1.0, -2.0, 0.0, -0.0, 1.0, 2.0, 0.5, 2.0 ** 61, 2.0 ** 60, 1e15, -1e15,
           1.0 / 3.0, 0.1, -0.1, 1e-12, 5e-324, 1.7976931348623157e308 / 4]


# ------------------------------------------------------------------ numbers
def bits(x):
    b = struct.unpack('<q', struct.pack('<d', x))[0]
    return b if b >= 0 else -(b & 0x7fffffffffffffff)


def ulp_dist(a, b):
    return abs(bits(a) - bits(b))


def same_bits(a, b):
    """Bit-identical doubles; +0.0 and -0.0 are the same coordinate value (see ASSUMPTIONS:
    p + ((p + v) - p) may turn a -0.0 end point coordinate into +0.0)."""
    return struct.pack('<d', a) == struct.pack('<d', b) or (a == 0.0 and b == 0.0)


def nextafter(x):
    return math.nextafter(x, math.inf)


def coord(rng):
    r = rng.random()
    if r < 0.55:
        return rng.uniform(-100.0, 100.0)
    if r < 0.73:
        return rng.gauss(0.0, 1.0) * 10.0 ** rng.randint(-6, 6)
    if r < 0.83:
        return math.ldexp(rng.random() + 0.5, rng.randint(-40, 40)) * rng.choice((-1, 1))
    if r < 0.93:
        return rng.choice(SPECIAL[:14])
    return float(rng.randint(-20, 20))


def pos(rng):
    r = rng.random()
    if r < 0.6:
        return rng.uniform(1e-3, 50.0)
    if r < 0.8:
        return math.ldexp(rng.random() + 0.5, rng.randint(-20, 20))
    return rng.choice([1.0, 0.5, 2.0 ** 61, 2.0 ** 60, 2.0, 1e-9, 1e9, 1.0 / 3.0])


def ang(rng):
    r = rng.random()
    if r < 0.75:
        return rng.uniform(0.0, 2 * math.pi)
    return rng.choice([0.0, 2 * math.pi, math.pi, math.pi / 2, 1.0, 0.5, 1e-9])


def p2(rng):
    return Point2D(coord(rng), coord(rng))


def v2(rng):
    return Vector2D(coord(rng), coord(rng))


def p3(rng):
    return Point3D(coord(rng), coord(rng), coord(rng))


def v3(rng):
    return Vector3D(coord(rng), coord(rng), coord(rng))


def direction3(rng):
    """A non-degenerate direction with components of mixed size."""
    while True:
        r = rng.random()
        if r < 0.6:
            c = [rng.gauss(0, 1), rng.gauss(0, 1), rng.gauss(0, 1)]
        elif r < 0.8:
            c = [rng.gauss(0, 1) * 10.0 ** rng.randint(-12, 3) for _ in range(3)]
        elif r < 0.9:
            c = [0.0, 0.0, 0.0]
            c[rng.randrange(3)] = rng.choice((-1.0, 1.0, 3.0, -0.25))
        else:
            c = [float(rng.randint(-5, 5)) for _ in range(3)]
        m = math.sqrt(c[0] ** 2 + c[1] ** 2 + c[2] ** 2)
        if 1e-6 < m < 1e6:
            return Vector3D(*c)


def rand_plane(rng, moderate=False):
    n = direction3(rng)
    o = Point3D(rng.uniform(-50, 50), rng.uniform(-50, 50), rng.uniform(-50, 50)) \
        if moderate else p3(rng)
    if rng.random() < 0.5:
        return Plane(n, o), 'default_x'
    for _ in range(50):
        x = n.cross(direction3(rng))
        if x.magnitude > 1e-3 * n.magnitude:
            try:
                return Plane(n, o, x * rng.choice((1.0, 1.0, 2.5, 1e-3))), 'explicit_x'
            except AssertionError:
                continue
    return Plane(n, o), 'default_x'


def star2(rng, n, rmin, rmax, cx=0.0, cy=0.0, cw=False):
    while True:
        angs = sorted(rng.sample(range(64), n))
        if max((b - a) % 64 for a, b in zip(angs, angs[1:] + angs[:1])) < 31:
            break
    pts = []
    for a in angs:
        r = rng.uniform(rmin, rmax)
        pts.append(Point2D(cx + r * math.cos(2 * math.pi * a / 64),
                           cy + r * math.sin(2 * math.pi * a / 64)))
    return list(reversed(pts)) if cw else pts


# ------------------------------------------------------------------ colour stub
class _Color(object):
    __slots__ = ('r', 'g', 'b', 'a')

    def __init__(self, r, g, b, a=255):
        self.r, self.g, self.b, self.a = r, g, b, a

    @classmethod
    def from_dict(cls, data):
        return cls(data['r'], data['g'], data['b'], data.get('a', 255))

    def to_dict(self):
        return {'type': 'Color', 'r': self.r, 'g': self.g, 'b': self.b, 'a': self.a}

    def key(self):
        return (self.r, self.g, self.b, self.a)


class color_module(object):
    """Context manager: make ``from ladybug.color import Color`` work."""

    def __enter__(self):
        self.saved = {}
        self.real = False
        try:
            from ladybug.color import Color  # noqa: F401
            self.real = True
            return self
        except Exception:
            pass
        for nm in ('ladybug', 'ladybug.color'):
            self.saved[nm] = sys.modules.get(nm)
        pkg = types.ModuleType('ladybug')
        pkg.__path__ = []
        mod = types.ModuleType('ladybug.color')
        mod.Color = _Color
        pkg.color = mod
        sys.modules['ladybug'] = pkg
        sys.modules['ladybug.color'] = mod
        return self

    def __exit__(self, *a):
        if not self.real:
            for nm, m in self.saved.items():
                if m is None:
                    sys.modules.pop(nm, None)
                else:
                    sys.modules[nm] = m
        return False


def make_colors(rng, n):
    try:
        from ladybug.color import Color
    except Exception:
        Color = _Color
    return tuple(Color(rng.randint(0, 255), rng.randint(0, 255), rng.randint(0, 255))
                 for _ in range(n))


def color_key(c):
    d = c.to_dict()
    return tuple(sorted((k, v) for k, v in d.items() if k in ('r', 'g', 'b', 'a')))


# ------------------------------------------------------------------ generators (one per type)
def gen_vector2d(rng):
    return Vector2D(coord(rng), coord(rng)), 'xy'


def gen_point2d(rng):
    return Point2D(coord(rng), coord(rng)), 'xy'


def gen_ray2d(rng):
    return Ray2D(p2(rng), v2(rng)), 'pv'


def gen_line2d(rng):
    r = rng.random()
    if r < 0.5:
        return LineSegment2D(p2(rng), v2(rng)), 'pv'
    if r < 0.8:
        return LineSegment2D.from_end_points(p2(rng), p2(rng)), 'from_end_points'
    d = Vector2D(rng.gauss(0, 1), rng.gauss(0, 1) + 1e-3)
    return LineSegment2D.from_sdl(p2(rng), d, pos(rng)), 'from_sdl'


def gen_arc2d(rng):
    r = rng.random()
    if r < 0.25:
        return Arc2D(p2(rng), pos(rng)), 'circle'
    if r < 0.85:
        return Arc2D(p2(rng), pos(rng), ang(rng), ang(rng)), 'arc'
    c = Point2D(rng.uniform(-5, 5), rng.uniform(-5, 5))
    rad = rng.uniform(0.5, 5)
    a = sorted(rng.uniform(0, 6.2) for _ in range(3))
    pts = [Point2D(c.x + rad * math.cos(t), c.y + rad * math.sin(t)) for t in a]
    return Arc2D.from_start_mid_end(*pts), 'from_start_mid_end'


def gen_polyline2d(rng):
    n = rng.randint(3, 9)
    interp = rng.random() < 0.5
    return Polyline2D([p2(rng) for _ in range(n)], interp), \
        'interpolated' if interp else 'plain'


def gen_polygon2d(rng):
    r = rng.random()
    if r < 0.6:
        return Polygon2D([p2(rng) for _ in range(rng.randint(3, 9))]), 'random_points'
    if r < 0.8:
        return Polygon2D(star2(rng, rng.randint(3, 9), 0.5, 4.0, coord(rng) % 50,
                               rng.uniform(-9, 9), rng.random() < 0.5)), 'star'
    if r < 0.9:
        return Polygon2D.from_rectangle(Point2D(rng.uniform(-9, 9), rng.uniform(-9, 9)),
                                        Vector2D(rng.gauss(0, 1), 1.0), pos(rng) % 20 + 0.1,
                                        rng.uniform(0.1, 9)), 'from_rectangle'
    return Polygon2D.from_regular_polygon(rng.randint(3, 9), rng.uniform(0.1, 9),
                                          Point2D(rng.uniform(-9, 9), 1 / 3.0)), 'regular'


def _mesh_faces(rng, nv):
    nf = rng.randint(1, 6)
    return tuple(tuple(rng.sample(range(nv), rng.choice((3, 4)) if nv >= 4 else 3))
                 for _ in range(nf))


def _mesh_colors(rng, nv, nf):
    r = rng.random()
    if r < 0.45:
        return None, 'no_colors'
    if r < 0.75:
        return make_colors(rng, nf), 'face_colors'
    return make_colors(rng, nv), 'vertex_colors'


def gen_mesh2d(rng):
    r = rng.random()
    if r < 0.7:
        nv = rng.randint(3, 8)
        faces = _mesh_faces(rng, nv)
        cols, tag = _mesh_colors(rng, nv, len(faces))
        return Mesh2D([p2(rng) for _ in range(nv)], faces, cols), tag
    if r < 0.85:
        return Mesh2D.from_grid(Point2D(rng.uniform(-9, 9), rng.uniform(-9, 9)),
                                rng.randint(1, 3), rng.randint(1, 3), rng.uniform(0.1, 3),
                                rng.uniform(0.1, 3)), 'from_grid'
    return Mesh2D.from_polygon_triangulated(
        Polygon2D(star2(rng, rng.randint(3, 8), 1.0, 4.0))), 'triangulated'


def gen_vector3d(rng):
    return v3(rng), 'xyz'


def gen_point3d(rng):
    return p3(rng), 'xyz'


def gen_ray3d(rng):
    return Ray3D(p3(rng), v3(rng)), 'pv'


def gen_line3d(rng):
    r = rng.random()
    if r < 0.5:
        return LineSegment3D(p3(rng), v3(rng)), 'pv'
    if r < 0.8:
        return LineSegment3D.from_end_points(p3(rng), p3(rng)), 'from_end_points'
    return LineSegment3D.from_sdl(p3(rng), direction3(rng), pos(rng)), 'from_sdl'


def gen_arc3d(rng):
    pl, tag = rand_plane(rng)
    if rng.random() < 0.25:
        return Arc3D(pl, pos(rng)), 'circle/' + tag
    return Arc3D(pl, pos(rng), ang(rng), ang(rng)), 'arc/' + tag


def gen_polyline3d(rng):
    n = rng.randint(3, 9)
    interp = rng.random() < 0.5
    return Polyline3D([p3(rng) for _ in range(n)], interp), \
        'interpolated' if interp else 'plain'


def gen_mesh3d(rng):
    r = rng.random()
    if r < 0.75:
        nv = rng.randint(3, 8)
        faces = _mesh_faces(rng, nv)
        cols, tag = _mesh_colors(rng, nv, len(faces))
        return Mesh3D([p3(rng) for _ in range(nv)], faces, cols), tag
    m2 = Mesh2D.from_grid(Point2D(rng.uniform(-9, 9), rng.uniform(-9, 9)),
                          rng.randint(1, 3), rng.randint(1, 3), rng.uniform(0.1, 3),
                          rng.uniform(0.1, 3))
    return Mesh3D.from_mesh2d(m2, rand_plane(rng, True)[0]), 'from_mesh2d'


def gen_plane(rng):
    r = rng.random()
    if r < 0.8:
        return rand_plane(rng)
    if r < 0.9:
        return Plane.from_three_points(p3(rng), p3(rng), p3(rng)), 'from_three_points'
    pl = rand_plane(rng, True)[0]
    return pl.rotate(direction3(rng), rng.uniform(-7, 7), p3(rng)), 'rotated'


def _face_loops(rng, pl, n_holes):
    """Boundary (counter-clockwise star, r >= 6) and holes (r <= 1, centres on r = 3)."""
    nb = rng.randint(4, 8) if n_holes else rng.randint(3, 8)
    b2 = star2(rng, nb, 6.0, 9.0) if n_holes else star2(rng, nb, 0.5, 9.0)
    if n_holes and rng.random() < 0.3:
        b2 = [Point2D(-7.5, -7.25), Point2D(8.125, -7.0), Point2D(8.0, 7.5),
              Point2D(-7.0, 7.75)]
    holes2 = []
    slots = rng.sample(range(4), n_holes)
    for s in slots:
        a = s * math.pi / 2 + rng.uniform(-0.2, 0.2)
        holes2.append(star2(rng, rng.randint(3, 5), 0.3, 1.0, 3.2 * math.cos(a),
                            3.2 * math.sin(a), rng.random() < 0.5))
    b3 = [pl.xy_to_xyz(p) for p in b2]
    h3 = [[pl.xy_to_xyz(p) for p in h] for h in holes2]
    return b3, h3


def gen_face3d(rng):
    r = rng.random()
    pl, ptag = rand_plane(rng, True)
    if r < 0.2:
        b, _ = _face_loops(rng, pl, 0)
        return Face3D(b), 'boundary'
    if r < 0.35:
        b, _ = _face_loops(rng, pl, 0)
        return Face3D(b, pl), 'boundary+plane/' + ptag
    if r < 0.45:
        b, _ = _face_loops(rng, pl, 0)
        return Face3D(list(reversed(b)), pl), 'clockwise_input+plane'
    if r < 0.52:
        # clockwise rectangle with 2-3 square holes on a grid (hole loops that share a
        # junction vertex after merging)
        w = rng.uniform(9.5, 10.5)
        b2 = [Point2D(0, 0), Point2D(0, w), Point2D(w, rng.uniform(9.5, 10.5)),
              Point2D(rng.uniform(9.5, 10.5), 0)]
        cells = rng.sample([(i, j) for i in (1, 3, 5, 7) for j in (1, 3, 5, 7)],
                           rng.randint(2, 3))
        h2 = []
        for (i, j) in cells:
            s = rng.uniform(0.8, 1.2)
            h2.append([Point2D(i, j), Point2D(i + s, j), Point2D(i + s, j + s),
                       Point2D(i, j + s)])
        return Face3D([pl.xy_to_xyz(p) for p in b2], pl,
                      [[pl.xy_to_xyz(p) for p in h] for h in h2]), \
            'clockwise_input+grid_holes'
    if r < 0.6:
        b, h = _face_loops(rng, pl, rng.randint(1, 3))
        return Face3D(b, None, h), 'holes'
    if r < 0.75:
        b, h = _face_loops(rng, pl, rng.randint(1, 3))
        if rng.random() < 0.4:
            b = list(reversed(b))
        return Face3D(b, pl, h), 'holes+plane/' + ptag
    if r < 0.82:
        return Face3D.from_rectangle(rng.uniform(0.1, 9), rng.uniform(0.1, 9), pl), \
            'from_rectangle'
    if r < 0.88:
        return Face3D.from_regular_polygon(rng.randint(3, 8), rng.uniform(0.1, 9), pl), \
            'from_regular_polygon'
    if r < 0.93:
        seg = LineSegment3D(p3(rng), direction3(rng))
        while True:
            ev = direction3(rng)
            if ev.cross(seg.v).magnitude > 1e-3 * ev.magnitude * seg.v.magnitude:
                break
        return Face3D.from_extrusion(seg, ev), 'from_extrusion'
    b, _ = _face_loops(rng, pl, 0)
    return Face3D(b, pl).flip(), 'flipped'


def gen_polyface3d(rng):
    r = rng.random()
    pl = rand_plane(rng, True)[0]
    if r < 0.3:
        return Polyface3D.from_box(rng.uniform(0.1, 9), rng.uniform(0.1, 9),
                                   rng.uniform(0.1, 9), pl), 'from_box'
    if r < 0.5:
        b, _ = _face_loops(rng, pl, 0)
        return Polyface3D.from_offset_face(Face3D(b, pl), rng.uniform(0.1, 5)), \
            'from_offset_face'
    if r < 0.6:
        b, h = _face_loops(rng, pl, 1)
        return Polyface3D.from_offset_face(Face3D(b, pl, h), rng.uniform(0.1, 5)), \
            'from_offset_face_holes'
    if r < 0.75:
        box = Polyface3D.from_box(rng.uniform(0.1, 9), rng.uniform(0.1, 9),
                                  rng.uniform(0.1, 9), pl)
        k = rng.randint(1, 6)
        return Polyface3D.from_faces(list(box.faces)[:k], 1e-6), 'from_faces'
    nv = rng.randint(4, 9)
    verts = [p3(rng) for _ in range(nv)]
    faces = []
    for _ in range(rng.randint(1, 5)):
        loops = [tuple(rng.sample(range(nv), rng.randint(3, min(5, nv))))]
        if rng.random() < 0.3:
            loops.append(tuple(rng.sample(range(nv), 3)))
        faces.append(tuple(loops))
    return Polyface3D(verts, faces), 'vertices+indices'


def gen_sphere(rng):
    return Sphere(p3(rng), pos(rng)), 'cr'


def gen_cone(rng):
    return Cone(p3(rng), direction3(rng) if rng.random() < 0.5 else v3(rng),
                rng.choice([rng.uniform(1e-3, 1.5), pos(rng)])), 'vaa'


def gen_cylinder(rng):
    if rng.random() < 0.3:
        return Cylinder.from_start_end(p3(rng), p3(rng), pos(rng)), 'from_start_end'
    return Cylinder(p3(rng), direction3(rng) if rng.random() < 0.5 else v3(rng),
                    pos(rng)), 'car'


GENERATORS = {
    'Vector2D': gen_vector2d, 'Point2D': gen_point2d, 'Ray2D': gen_ray2d,
    'LineSegment2D': gen_line2d, 'Arc2D': gen_arc2d, 'Polyline2D': gen_polyline2d,
    'Polygon2D': gen_polygon2d, 'Mesh2D': gen_mesh2d, 'Vector3D': gen_vector3d,
    'Point3D': gen_point3d, 'Ray3D': gen_ray3d, 'LineSegment3D': gen_line3d,
    'Arc3D': gen_arc3d, 'Polyline3D': gen_polyline3d, 'Mesh3D': gen_mesh3d,
    'Plane': gen_plane, 'Polyface3D': gen_polyface3d, 'Face3D': gen_face3d,
    'Sphere': gen_sphere, 'Cone': gen_cone, 'Cylinder': gen_cylinder,
}


def fixtures():
    """Small fixed adversarial instances, checked on every run."""
    def sq(pl, x, y):
        return [pl.xy_to_xyz(Point2D(*c)) for c in ((x, y), (x + 1, y), (x + 1, y + 1),
                                                    (x, y + 1))]
    out = []
    xy = Plane(Vector3D(0, 0, 1), Point3D(0, 0, 0))
    tilted = Plane(Vector3D(0.3, -0.4, 0.8), Point3D(1.5, -2.25, 3.125))
    for nm, pl in (('xy', xy), ('tilted', tilted)):
        cw = [pl.xy_to_xyz(Point2D(*c)) for c in ((0, 0), (0, 10), (10, 10), (10, 0))]
        for holes in (((1, 1), (1, 3)), ((1, 1), (3, 1)), ((1, 1), (1, 3), (5, 5))):
            out.append(('clockwise boundary, holes at %s, %s plane' % (holes, nm),
                        (lambda pl=pl, cw=cw, holes=holes: Face3D(
                            cw, pl, [sq(pl, *h) for h in holes]))))
        out.append(('counter-clockwise boundary, 2 holes, %s plane' % nm,
                    (lambda pl=pl, cw=cw: Face3D(list(reversed(cw)), pl,
                                                 [sq(pl, 1, 1), sq(pl, 1, 3)]))))
    for n in ((1, 1, 1), (0.1, 0.2, 0.3), (1e-9, 1.0, 1e-9), (3, -4, 12)):
        out.append(('Plane n=%s' % (n,), (lambda n=n: Plane(Vector3D(*n),
                                                            Point3D(0.1, 0.2, 0.3)))))
        out.append(('Arc3D plane n=%s' % (n,), (lambda n=n: Arc3D(
            Plane(Vector3D(*n), Point3D(0.1, 0.2, 0.3)), 1.5, 0.25, 4.0))))
    out.append(('Polygon2D -1', lambda: Polygon2D([Point2D(-1.0, 0), Point2D(4, 0),
                                                   Point2D(0, 3)])))
    return out


def make_instance(seed, tname, index):
    if tname == 'fixture':
        nm, mk = fixtures()[index]
        return mk(), 'fixture: ' + nm
    rng = random.Random('%s/c13/%s/%d' % (seed, tname, index))
    return GENERATORS[tname](rng)


# ------------------------------------------------------------------ defining data (public reads)
def _ints(v):
    """Nested sequences of integers as nested tuples (connectivity)."""
    if isinstance(v, (list, tuple)):
        return tuple(_ints(a) for a in v)
    return v


def _pt(out, name, p):
    for c in p.to_array():
        out.append((name, 'f', c, None))


def _unit(out, name, v):
    nv = v.normalize()
    for c, nc in zip(v.to_array(), nv.to_array()):
        out.append((name, 'u', c, nc))


def _plane(out, name, pl, with_x=True):
    _unit(out, name + '.n', pl.n)
    _pt(out, name + '.o', pl.o)
    if with_x:
        _unit(out, name + '.x', pl.x)


def _edge_multiset(pf):
    return tuple(sorted((tuple(sorted(_ints(e))), t)
                        for e, t in zip(pf.edge_indices, pf.edge_types)))


def leaves(x, mode='dict'):
    """Defining data of x as a list of (field, kind, value, renormalised value);
    kind 'f' = coordinate (bit-identical), 'u' = unit-vector component, 'd' = discrete."""
    out = []
    t = type(x)
    if t in (Vector2D, Point2D):
        out += [('x', 'f', x.x, None), ('y', 'f', x.y, None)]
    elif t in (Vector3D, Point3D):
        out += [('x', 'f', x.x, None), ('y', 'f', x.y, None), ('z', 'f', x.z, None)]
    elif t in (Ray2D, Ray3D):
        _pt(out, 'p', x.p)
        _pt(out, 'v', x.v)
    elif t in (LineSegment2D, LineSegment3D):
        _pt(out, 'p', x.p)
        if mode == 'array':
            _pt(out, 'p2', x.p2)
        else:
            _pt(out, 'v', x.v)
    elif t is Arc2D:
        _pt(out, 'c', x.c)
        out += [('r', 'f', x.r, None), ('a1', 'f', x.a1, None), ('a2', 'f', x.a2, None)]
    elif t is Arc3D:
        _plane(out, 'plane', x.plane)
        out += [('radius', 'f', x.radius, None), ('a1', 'f', x.a1, None),
                ('a2', 'f', x.a2, None)]
    elif t in (Polyline2D, Polyline3D, Polygon2D):
        out.append(('vertices', 'd', len(x.vertices), None))
        for p in x.vertices:
            _pt(out, 'vertices', p)
        if t is not Polygon2D and mode != 'array':
            out.append(('interpolated', 'd', bool(x.interpolated), None))
    elif t in (Mesh2D, Mesh3D):
        out.append(('vertices', 'd', len(x.vertices), None))
        for p in x.vertices:
            _pt(out, 'vertices', p)
        out.append(('faces', 'd', _ints(x.faces), None))
        out.append(('colors', 'd', None if x.colors is None else
                    tuple(color_key(c) for c in x.colors), None))
        out.append(('is_color_by_face', 'd', bool(x.is_color_by_face)
                    if x.colors is not None else None, None))
    elif t is Plane:
        _plane(out, 'plane', x, with_x=(mode != 'no_x'))
    elif t is Face3D:
        out.append(('boundary', 'd', len(x.boundary), None))
        for p in x.boundary:
            _pt(out, 'boundary', p)
        out.append(('holes', 'd', None if not x.has_holes else
                    tuple(len(h) for h in x.holes), None))
        if x.has_holes:
            for h in x.holes:
                for p in h:
                    _pt(out, 'holes', p)
        if mode not in ('array', 'no_plane'):
            _plane(out, 'plane', x.plane)
    elif t is Polyface3D:
        out.append(('vertices', 'd', len(x.vertices), None))
        for p in x.vertices:
            _pt(out, 'vertices', p)
        out.append(('face_indices', 'd', _ints(x.face_indices), None))
        if mode == 'no_edges':
            out.append(('edges', 'd', _edge_multiset(x), None))
        else:
            out.append(('edge_indices', 'd', _ints(x.edge_indices), None))
            out.append(('edge_types', 'd', _ints(x.edge_types), None))
    elif t is Sphere:
        _pt(out, 'center', x.center)
        out.append(('radius', 'f', x.radius, None))
    elif t is Cone:
        _pt(out, 'vertex', x.vertex)
        _pt(out, 'axis', x.axis)
        out.append(('angle', 'f', x.angle, None))
    elif t is Cylinder:
        _pt(out, 'center', x.center)
        _pt(out, 'axis', x.axis)
        out.append(('radius', 'f', x.radius, None))
    else:
        raise TypeError('not a registered type: %r' % (t,))
    return out


def compare(lx, ly, stats, exact_units=False):
    """First mismatch between the defining data of x (lx) and of the rebuilt y (ly)."""
    if len(lx) != len(ly):
        return ('shape', 'number of defining values %d -> %d' % (len(lx), len(ly)))
    for (fa, ka, va, na), (fb, kb, vb, _) in zip(lx, ly):
        if fa != fb or ka != kb:
            return (fa, 'field layout differs: %s/%s vs %s/%s' % (fa, ka, fb, kb))
        if ka == 'd':
            if va != vb:
                return (fa, '%r -> %r' % (va, vb))
        elif ka == 'f' or exact_units:
            if not isinstance(vb, float) and not isinstance(vb, int):
                return (fa, 'not a number: %r' % (vb,))
            if not same_bits(float(va), float(vb)):
                return (fa, '%s -> %s' % (float(va).hex(), float(vb).hex()))
        else:
            if not isinstance(vb, float):
                return (fa, 'not a float: %r' % (vb,))
            u = ulp_dist(va, vb)
            rel = abs(va - vb)
            ok = u <= 2 or rel <= 2 * EPS * abs(va)
            if ok:
                k = str(u) if u <= 3 else '>3(rel<=2eps)'
                stats['unit_ulp'][k] = stats['unit_ulp'].get(k, 0) + 1
            elif same_bits(vb, na) and rel <= 4 * EPS * abs(va):
                stats['unit_ulp']['tail'] = stats['unit_ulp'].get('tail', 0) + 1
            else:
                return (fa, 'unit-vector component %s -> %s (%d ulp)' % (
                    va.hex(), vb.hex(), u))
    return None


def ident(x):
    """Value identity used by the equality oracle: (equality class, coordinates incl. loop
    sizes, other discrete data such as connectivity / interpolated)."""
    t = type(x)
    cls = 'PV2' if t in (Vector2D, Point2D) else 'PV3' if t in (Vector3D, Point3D) \
        else t.__name__
    coords, other = [], []
    for f, k, v, _ in leaves(x):
        if t in (Mesh2D, Mesh3D) and f in ('colors', 'is_color_by_face'):
            continue
        if t is Polyface3D and f in ('edge_indices', 'edge_types'):
            continue
        if k == 'd' and f in ('faces', 'face_indices', 'interpolated'):
            other.append(v)
        else:
            coords.append(v)
    return cls, tuple(coords), tuple(other)


def expected_equal(ia, ib):
    """True / False / None (= the property does not say: only connectivity or a flag
    differs)."""
    if ia[0] != ib[0] or ia[1] != ib[1]:
        return False
    return True if ia[2] == ib[2] else None


# ------------------------------------------------------------------ dictionary editing
def jsonable_hex(o):
    """A JSON-able copy of a to_dict() result with floats as hex strings (for replays)."""
    if isinstance(o, float):
        return o.hex()
    if isinstance(o, dict):
        return dict((k, jsonable_hex(v)) for k, v in o.items())
    if isinstance(o, (list, tuple)):
        return [jsonable_hex(v) for v in o]
    return o


def float_paths(d, prefix=()):
    """Paths of all float leaves in a to_dict() structure."""
    out = []
    if isinstance(d, dict):
        for k in sorted(d):
            out += float_paths(d[k], prefix + (k,))
    elif isinstance(d, (list, tuple)):
        for i, v in enumerate(d):
            out += float_paths(v, prefix + (i,))
    elif isinstance(d, float):
        out.append(prefix)
    return out


def with_value(d, path, value):
    """Deep copy of d (lists for tuples) with d[path] = value."""
    if not path:
        return value
    if isinstance(d, dict):
        r = dict(d)
        r[path[0]] = with_value(d[path[0]], path[1:], value)
        return r
    r = list(d)
    r[path[0]] = with_value(d[path[0]], path[1:], value)
    return r


def get_value(d, path):
    for k in path:
        d = d[k]
    return d


def mutable_paths(x, d):
    """(path, kind) of the dictionary entries that are free coordinates of x: kind 'any'
    may take any finite value, 'pos' must stay > 0, 'ang' must stay in [0, 2 pi]."""
    t = type(x)
    out = []
    for p in float_paths(d):
        top = p[0]
        if top == 'plane' or t is Plane:
            sub = p[1] if top == 'plane' else p[0]
            if sub == 'o':
                out.append((p, 'any'))
            continue
        if top in ('r', 'radius'):
            out.append((p, 'pos'))
        elif top in ('a1', 'a2'):
            out.append((p, 'ang'))
        elif top == 'angle':
            out.append((p, 'pos'))
        elif t is Face3D and x.has_holes:
            continue
        else:
            out.append((p, 'any'))
    return out


# ------------------------------------------------------------------ the checks
class Failure(Exception):
    pass


def eq_bundle(a, b):
    """(a == b, b == a, a != b, b != a, hash(a) == hash(b))"""
    return (a == b, b == a, a != b, b != a, hash(a) == hash(b))


def check_pair(a, b, expected_equal, site, fails, note=''):
    """The E and N clauses on one ordered pair; expected_equal None = unknown."""
    try:
        e1, e2, n1, n2, h = eq_bundle(a, b)
    except Exception as e:
        fails.append((site + '|raises ' + type(e).__name__, '%s: %s' % (note, e)))
        return
    for v in (e1, e2, n1, n2):
        if not isinstance(v, bool):
            fails.append((site + '|non-bool', '%s: == or != returned %r' % (note, v)))
            return
    if e1 != e2:
        fails.append((site + '|not symmetric', '%s: a == b is %s but b == a is %s' % (
            note, e1, e2)))
    if n1 == e1 or n2 == e2:
        fails.append((site + '|!= inconsistent', '%s: == %s/%s and != %s/%s' % (
            note, e1, e2, n1, n2)))
    if (e1 or e2) and not h:
        fails.append((site + '|equal but hashes differ', note))
    if expected_equal is True and not (e1 and e2):
        fails.append((site + '|same value compares unequal', note))
    if expected_equal is False and (e1 or e2):
        fails.append((site + '|different value compares equal', note))


def check_instance(x, tag, stats, deep=True, rng=None):
    """All single-instance checks.  Returns list of (signature, what, extra)."""
    t = type(x)
    tn = t.__name__
    fails = []
    rng = rng or random.Random(0)

    def fail(site, what, **kw):
        fails.append(('%s|%s' % (tn, site), what, kw))

    def guarded(site, fn):
        try:
            return True, fn()
        except Exception as e:
            fail('%s|raises %s' % (site, type(e).__name__), '%s raised %s: %s' % (
                site, type(e).__name__, str(e)[:200]))
            return False, None

    lx = {}

    def L(mode):
        if mode not in lx:
            lx[mode] = leaves(x, mode)
        return lx[mode]

    def rebuilt(site, y, mode='dict', pairs=True):
        if type(y) is not t:
            fail(site + '|class', '%s gives a %s' % (site, type(y).__name__))
            return
        ok, ly = guarded(site + '|read', lambda: leaves(y, mode))
        if not ok:
            return
        mm = compare(L(mode), ly, stats)
        if mm is not None:
            fail('%s|%s' % (site, mm[0].split('.')[-1] if mm[0].startswith('plane.')
                            else mm[0]), '%s: %s %s' % (site, mm[0], mm[1]))
        if pairs:
            pf = []
            check_pair(x, y, None, '%s|%s' % (tn, site), pf, 'x vs rebuilt')
            for s, w in pf:
                fails.append((s, w, {}))

    # ---- R: dictionary routes
    ok_d, d = guarded('to_dict', lambda: x.to_dict())
    if ok_d:
        if not isinstance(d, dict) or d.get('type') != tn:
            fail('to_dict|type', 'to_dict()["type"] is %r' % (
                d.get('type') if isinstance(d, dict) else d,))
        okj, txt = guarded('to_dict|json.dumps', lambda: json.dumps(d))
        dj = json.loads(txt) if okj else None
        routes = [('from_dict(to_dict)', lambda: t.from_dict(d)),
                  ('dispatcher(to_dict)', lambda: geometry_dict_to_object(d))]
        if okj:
            routes += [('from_dict(json)', lambda: t.from_dict(dj)),
                       ('dispatcher(json)', lambda: geometry_dict_to_object(dj))]
        for site, fn in routes:
            ok2, y = guarded(site, fn)
            if ok2:
                rebuilt(site, y)
        # optional fields absent / null
        variants = []
        if t is Face3D:
            variants.append(('from_dict(to_dict(include_plane=False))', 'no_plane',
                             lambda: x.to_dict(include_plane=False)))
            variants.append(('from_dict(plane=null)', 'no_plane',
                             lambda: dict(x.to_dict(), plane=None)))
            variants.append(('from_dict(to_dict(enforce_upper_left=False))', 'dict',
                             lambda: x.to_dict(True, False)))
            if not x.has_holes:
                variants.append(('from_dict(holes=null)', 'dict',
                                 lambda: dict(x.to_dict(), holes=None)))
        if t is Polyface3D:
            variants.append(('from_dict(to_dict(include_edge_information=False))',
                             'no_edges', lambda: x.to_dict(include_edge_information=False)))
            variants.append(('from_dict(edge_information=null)', 'no_edges',
                             lambda: dict(x.to_dict(), edge_information=None)))
        if t is Plane and tag.endswith('default_x'):
            def no_x():
                dd = x.to_dict()
                del dd['x']
                return dd
            variants.append(('from_dict(x absent)', 'no_x', no_x))
            variants.append(('from_dict(x=null)', 'no_x', lambda: dict(x.to_dict(), x=None)))
        if t in (Polyline2D, Polyline3D) and not x.interpolated:
            variants.append(('from_dict(interpolated=false)', 'dict',
                             lambda: dict(x.to_dict(), interpolated=False)))
        if t in (Mesh2D, Mesh3D) and x.colors is None:
            def no_colors():
                dd = x.to_dict()
                dd.pop('colors', None)
                return dd
            variants.append(('from_dict(colors absent)', 'dict', no_colors))
            variants.append(('from_dict(colors=null)', 'dict',
                             lambda: dict(x.to_dict(), colors=None)))
            variants.append(('from_dict(colors=[])', 'dict',
                             lambda: dict(x.to_dict(), colors=[])))
        for site, mode, mk in variants:
            ok2, dv = guarded(site + '|to_dict', mk)
            if not ok2:
                continue
            ok2, y = guarded(site, lambda: t.from_dict(json.loads(json.dumps(dv))))
            if ok2:
                rebuilt(site, y, mode)
            ok2, y = guarded(site.replace('from_dict', 'dispatcher'),
                             lambda: geometry_dict_to_object(dv))
            if ok2:
                rebuilt(site.replace('from_dict', 'dispatcher'), y, mode, pairs=False)

    # ---- R: array routes
    if t in HAS_ARRAY:
        ok, arr = guarded('to_array', lambda: x.to_array())
        if ok:
            ok2, y = guarded('from_array(to_array)', lambda: t.from_array(arr))
            if ok2:
                rebuilt('from_array(to_array)', y, 'array')
                if t in (LineSegment2D, LineSegment3D) and type(y) is t:
                    k = 'same' if y.v == x.v else 'last-bit drift'
                    stats['lineseg_array_v_drift'][k] = \
                        stats['lineseg_array_v_drift'].get(k, 0) + 1
            okj, txt = guarded('to_array|json.dumps', lambda: json.dumps(arr))
            if okj:
                ok2, y = guarded('from_array(json)', lambda: t.from_array(json.loads(txt)))
                if ok2:
                    rebuilt('from_array(json)', y, 'array')

    # ---- D: duplicate / copy (copy.copy failures that duplicate() shows too are the same
    # defect: they are filed under the duplicate signature)
    dup_sigs = set()
    for site, fn in (('duplicate', lambda: x.duplicate()), ('copy.copy', lambda: copy.copy(x))):
        mark = len(fails)
        ok, y = guarded(site, fn)
        if ok and type(y) is not t:
            fail(site + '|class', '%s() gives a %s' % (site, type(y).__name__))
        elif ok:
            ok2, ly = guarded(site + '|read', lambda: leaves(y))
            if ok2:
                mm = compare(L('dict'), ly, stats, exact_units=True)
                if mm is not None:
                    fail('%s|%s' % (site, mm[0]), '%s(): %s %s' % (site, mm[0], mm[1]))
            pf = []
            check_pair(x, y, True, '%s|%s' % (tn, site), pf,
                       '%s() of %s [%s]' % (site, tn, tag))
            for s_, w in pf:
                fails.append((s_, w, {}))
        if site == 'duplicate':
            dup_sigs = set(f[0] for f in fails[mark:])
        else:
            kept = []
            for f in fails[mark:]:
                if f[0].replace('|copy.copy', '|duplicate', 1) not in dup_sigs:
                    kept.append(f)
            del fails[mark:]
            fails.extend(kept)

    # ---- E: reflexive, stable hash, foreign objects
    pf = []
    check_pair(x, x, True, '%s|reflexive' % tn, pf, 'x vs x')
    try:
        if hash(x) != hash(x):
            pf.append(('%s|hash unstable' % tn, 'hash(x) changes between calls'))
        for other in (None, 0, (), 'x', tuple(v for _, _, v, _ in L('dict'))):
            if (x == other) is not False or (x != other) is not True:
                pf.append(('%s|equal to foreign object' % tn, 'x == %r' % (other,)))
    except Exception as e:
        pf.append(('%s|hash|raises %s' % (tn, type(e).__name__), str(e)[:200]))
    for s, w in pf:
        fails.append((s, w, {}))

    # ---- N: one-coordinate mutants
    if ok_d and deep and isinstance(d, dict):
        fails += mutant_checks(x, d, rng, stats)
    return fails


def mutant_checks(x, d, rng, stats):
    t = type(x)
    tn = t.__name__
    out = []
    paths = mutable_paths(x, d)
    if not paths:
        return out
    for path, kind in rng.sample(paths, min(3, len(paths))):
        v0 = get_value(d, path)
        cands = []
        # one ulp away from the original
        v1 = nextafter(v0) if not (kind == 'ang' and v0 >= 2 * math.pi) \
            else math.nextafter(v0, 0.0)
        cands.append((None, v1, 'ulp'))
        if kind == 'any':
            cands.append((-1.0, -2.0, 'hash(-1)==hash(-2)'))
        if kind in ('any', 'pos'):
            cands.append((1.0, 2.0 ** 61, 'hash(1)==hash(2**61)'))
            cands.append((0.5, 2.0 ** 60, 'hash(.5)==hash(2**60)'))
        for va, vb, why in cands:
            try:
                a = x if va is None else t.from_dict(with_value(d, path, va))
                b = t.from_dict(with_value(d, path, vb))
                ia, ib = ident(a), ident(b)
            except Exception:
                stats['mutants']['rejected'] = stats['mutants'].get('rejected', 0) + 1
                continue
            if expected_equal(ia, ib) is not False:      # the edit did not survive (e.g. loop got reversed back)
                stats['mutants']['rejected'] = stats['mutants'].get('rejected', 0) + 1
                continue
            stats['mutants'][why] = stats['mutants'].get(why, 0) + 1
            pf = []
            check_pair(a, b, False, '%s|coordinate mutant' % tn, pf,
                       '%s differs only in %s: %r vs %r (%s)' % (
                           tn, '/'.join(str(p) for p in path),
                           v0 if va is None else va, vb, why))
            for s, w in pf:
                out.append((s, w, {'path': list(path), 'values': [
                    None if va is None else va.hex(), vb.hex()]}))
    return out


# ------------------------------------------------------------------ cross-class families
def families(rng):
    """Lists of objects of different classes built from the same coordinates, plus
    same-class variants that differ in exactly one -1.0/-2.0 coordinate."""
    fams = []
    c2 = [(coord(rng), coord(rng)) for _ in range(rng.randint(3, 6))]
    c3 = [(coord(rng), coord(rng), coord(rng)) for _ in range(rng.randint(4, 6))]

    def fam2(cs):
        pts = [Point2D(*c) for c in cs]
        f = [Point2D(*cs[0]), Vector2D(*cs[0]), Ray2D(pts[0], Vector2D(*cs[1])),
             LineSegment2D(pts[0], Vector2D(*cs[1])), Polygon2D(pts), Polyline2D(pts),
             Polyline2D(pts, True), Mesh2D(pts, [(0, 1, 2)]),
             Arc2D(pts[0], abs(cs[1][0]) + 1.0, 0.5, 1.0),
             Point3D(cs[0][0], cs[0][1], 0.0), Vector3D(cs[0][0], cs[0][1], 0.0)]
        return f

    def fam3(cs):
        pts = [Point3D(*c) for c in cs]
        ax = Vector3D(*cs[1]) if any(cs[1]) else Vector3D(0, 0, 1)
        rad = abs(cs[2][0]) + 0.5
        f = [Point3D(*cs[0]), Vector3D(*cs[0]), Ray3D(pts[0], ax),
             LineSegment3D(pts[0], ax), Polyline3D(pts), Polyline3D(pts, True),
             Mesh3D(pts, [(0, 1, 2)]), Mesh3D(pts, [(0, 1, 2, 3)]),
             Polyface3D(pts, [[(0, 1, 2)]]), Polyface3D(pts, [[(0, 1, 2, 3)]]),
             Sphere(pts[0], rad), Cone(pts[0], ax, rad), Cylinder(pts[0], ax, rad)]
        try:
            pl = Plane(Vector3D(0, 0, 1), Point3D(0, 0, 0))
            f.append(Face3D(pts, pl, enforce_right_hand=False))
            f.append(Arc3D(Plane(Vector3D(0, 0, 1), pts[0]), rad))
        except Exception:
            pass
        return f
    base2, base3 = fam2(c2), fam3(c3)
    fams.append(base2 + base3)
    # same classes, exactly one coordinate replaced by a hash-colliding pair
    for (ua, ub) in COLLISIONS[:1] + [rng.choice(COLLISIONS)]:
        i2, j2 = rng.randrange(len(c2)), rng.randrange(2)
        i3, j3 = rng.randrange(len(c3)), rng.randrange(3)
        group = []
        for u in (ua, ub):
            d2 = [list(c) for c in c2]
            d2[i2][j2] = u
            d3 = [list(c) for c in c3]
            d3[i3][j3] = u
            group += fam2([tuple(c) for c in d2]) + fam3([tuple(c) for c in d3])
        fams.append(group)
    # in-plane shapes with holes whose 2D coordinates are -1/-2 (XY plane: exact mapping)
    group = []
    for u in (-1.0, -2.0):
        b = [Point3D(-9.5, -9.25, 0), Point3D(9.125, -9.0, 0), Point3D(9.0, 9.5, 0),
             Point3D(-9.0, 9.75, 0)]
        h = [Point3D(u, u - 0.5, 0), Point3D(u + 3.0, u, 0), Point3D(u + 1.5, u + 3.0, 0)]
        pl = Plane(Vector3D(0, 0, 1), Point3D(0, 0, 0))
        group.append(Face3D(b, pl, [h]))
        group.append(Polyface3D.from_offset_face(Face3D(b, pl, [h]), 1.0))
        hb = [Point3D(-9.5, -9.25, 0), Point3D(9.125, u, 0), Point3D(9.0, 9.5, 0),
              Point3D(-9.0, 9.75, 0)]
        group.append(Face3D(hb, pl, [[Point3D(0, 0, 0), Point3D(3.0, 0.25, 0),
                                      Point3D(1.5, 3.0, 0)]]))
    fams.append(group)
    return fams


def check_family(objs, stats):
    out = []
    ids = []
    for o in objs:
        try:
            ids.append(ident(o))
        except Exception:
            ids.append(None)
    for i in range(len(objs)):
        for j in range(i, len(objs)):
            if ids[i] is None or ids[j] is None:
                continue
            exp = expected_equal(ids[i], ids[j])
            a, b = objs[i], objs[j]
            na, nb = type(a).__name__, type(b).__name__
            if exp is None:
                site = '%s|flag or connectivity differs' % na
            elif exp:
                site = '%s|same value' % na if na == nb else '%s~%s|equal by design' % (
                    min(na, nb), max(na, nb))
            elif ids[i][0] != ids[j][0]:
                site = '%s~%s|different class' % (min(na, nb), max(na, nb))
                stats['pairs']['different class'] = stats['pairs'].get(
                    'different class', 0) + 1
            else:
                site = '%s|family coordinate mutant' % na
                stats['pairs']['same class, different coordinate'] = stats['pairs'].get(
                    'same class, different coordinate', 0) + 1
            if exp:
                stats['pairs']['expected equal'] = stats['pairs'].get('expected equal', 0) + 1
            pf = []
            check_pair(a, b, exp, site, pf, '%s vs %s' % (describe(a), describe(b)))
            for s, w in pf:
                out.append((s, w, {}))
    return out


def describe(x):
    try:
        vals = [v.hex() if isinstance(v, float) else v for _, _, v, _ in leaves(x)]
        return '%s%s' % (type(x).__name__, str(vals)[:160])
    except Exception:
        return repr(x)


# ------------------------------------------------------------------ driver
def new_stats():
    return {'unit_ulp': {}, 'lineseg_array_v_drift': {}, 'mutants': {}, 'pairs': {},
            'variants': {}, 'instances_per_type': {}, 'generator_errors': {}}


def run_one(seed, tname, index, stats, deep=True):
    try:
        x, tag = make_instance(seed, tname, index)
    except Exception as e:        # the generator itself hit a constructor assertion
        k = '%s:%s' % (tname, type(e).__name__)
        stats['generator_errors'][k] = stats['generator_errors'].get(k, 0) + 1
        return None, None, []
    rng = random.Random('%s/c13/mut/%s/%d' % (seed, tname, index))
    return x, tag, check_instance(x, tag, stats, deep, rng)


def run(ctx):
    seed = ctx.seed
    thorough = ctx.tier == 'thorough' or bool(getattr(ctx, 'broken', None))
    deadline = getattr(ctx, 'deadline', time.time() + 3600)
    budget_end = min(deadline, time.time() + (600 if thorough else 32))
    per_type = 4000 if thorough else 250
    stats = new_stats()
    evaluations = 0
    nontrivial = set()
    best = {}            # signature -> failure with the smallest instance
    samples = []

    def record(sig, what, extra, tname, index, tag, size):
        cur = best.get(sig)
        if cur is not None and cur['size'] <= size:
            cur['count'] += 1
            return
        f = {'signature': sig, 'what': what, 'type': tname, 'index': index, 'seed': seed,
             'variant': tag, 'size': size, 'count': (cur['count'] + 1 if cur else 1)}
        f.update(extra or {})
        best[sig] = f

    with color_module():
        done = False
        for index in range(len(fixtures())):
            x, tag, fails = run_one(seed, 'fixture', index, stats)
            if x is None:
                continue
            evaluations += 1
            for sig, what, extra in fails:
                record(sig, what, extra, 'fixture', index, tag, 0)
        for index in range(per_type):
            if done:
                break
            for tname in sorted(GENERATORS):
                if time.time() > budget_end:
                    done = True
                    break
                x, tag, fails = run_one(seed, tname, index, stats)
                if x is None:
                    continue
                evaluations += 1
                stats['instances_per_type'][tname] = \
                    stats['instances_per_type'].get(tname, 0) + 1
                vk = '%s:%s' % (tname, tag)
                stats['variants'][vk] = stats['variants'].get(vk, 0) + 1
                try:
                    lv = leaves(x)
                    key = (tname, tuple(v.hex() if isinstance(v, float) else v
                                        for _, _, v, _ in lv))
                    # non-trivial: some coordinate is not a short decimal
                    if any(isinstance(v, float) and v != round(v, 6) for _, _, v, _ in lv):
                        nontrivial.add(hash(key))
                    size = len(lv)
                except Exception:
                    size = 10 ** 6
                if index == 1 and len(samples) < 21:
                    try:
                        samples.append({'type': tname, 'variant': tag,
                                        'to_dict': jsonable_hex(x.to_dict())})
                    except Exception:
                        pass
                for sig, what, extra in fails:
                    record(sig, what, extra, tname, index, tag, size)
        # families and pool
        n_fam = 400 if thorough else 40
        for k in range(n_fam):
            if time.time() > budget_end + 8:
                break
            rng = random.Random('%s/c13/fam/%d' % (seed, k))
            try:
                fams = families(rng)
            except Exception as e:
                kk = 'family:%s' % type(e).__name__
                stats['generator_errors'][kk] = stats['generator_errors'].get(kk, 0) + 1
                continue
            for fam in fams:
                evaluations += 1
                for sig, what, extra in check_family(fam, stats):
                    record(sig, what, {'family': k}, 'family', k, 'family', len(what))
    failures = []
    for sig in sorted(best):
        f = best[sig]
        if f['type'] != 'family':
            try:
                with color_module():
                    x, _ = make_instance(f['seed'], f['type'], f['index'])
                    f['input_to_dict_hexfloats'] = jsonable_hex(x.to_dict())
            except Exception:
                pass
        failures.append(f)
    return {
        'evaluations': evaluations,
        'distinct_nontrivial': len(nontrivial),
        'rule': 'instances of the 21 registered types from per-type generators (constructor, '
                'factories, optional fields on/off, random planes with default / explicit '
                'x-axis, full-precision and special doubles); every instance goes through all '
                'dict / JSON / dispatcher / array routes, duplicate, copy, reflexivity and up '
                'to 3 x 4 one-coordinate mutants; plus cross-class families on shared '
                'coordinates.  Non-trivial = the instance has at least one coordinate that is '
                'not a decimal of <= 6 places',
        'samples': samples[:8],
        'failures': failures,
        'extra': {'histograms': stats},
    }


def replay(ctx, fl):
    stats = new_stats()
    with color_module():
        if fl.get('type') == 'family':
            rng = random.Random('%s/c13/fam/%d' % (fl['seed'], fl['index']))
            found = []
            for fam in families(rng):
                found += check_family(fam, stats)
        else:
            _, _, found = run_one(fl['seed'], fl['type'], fl['index'], stats)
    for sig, what, extra in found:
        if sig == fl['signature']:
            out = dict(fl)
            out['what'] = what
            return out
    return None
