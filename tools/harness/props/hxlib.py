"""Shared helpers of the C02 / C06 / C11 / C12 property oracles.

Exact rational vector algebra (every float is a rational), exact 2D predicates (simple
loop, point in loop, point-segment distance), structured generators of valid inputs
(simple loops, holes, planes) and the failure book-keeping used by the four modules.
Nothing in here calls the library under test except to *construct* inputs."""
import math
import random
from fractions import Fraction as F

from ladybug_geometry.geometry2d.pointvector import Point2D, Vector2D
from ladybug_geometry.geometry3d.pointvector import Point3D, Vector3D
from ladybug_geometry.geometry3d.plane import Plane

TOL = 1e-9          # the properties' tolerance, relative to the coordinate magnitude


# ------------------------------------------------------------------ exact vectors
def fx(p):
    """Exact coordinates of a Point/Vector (or any iterable of numbers)."""
    return tuple(F(c) for c in p)


def sub(a, b):
    return tuple(x - y for x, y in zip(a, b))


def add(a, b):
    return tuple(x + y for x, y in zip(a, b))


def mul(a, s):
    return tuple(x * s for x in a)


def dot(a, b):
    return sum(x * y for x, y in zip(a, b))


def n2(a):
    return sum(x * x for x in a)


def cross(a, b):
    return (a[1] * b[2] - a[2] * b[1], a[2] * b[0] - a[0] * b[2], a[0] * b[1] - a[1] * b[0])


def det2(a, b):
    return a[0] * b[1] - a[1] * b[0]


def lerp(a, b, t):
    return tuple(x + (y - x) * t for x, y in zip(a, b))


def fsqrt(x, digits=30):
    """Rational approximation of sqrt(x), absolute error < 10**-digits * max(1, sqrt x)."""
    x = F(x)
    if x <= 0:
        return F(0)
    s = 10 ** (2 * digits)
    return F(math.isqrt((x.numerator * s) // x.denominator), 10 ** digits)


def close_pts(a, b, tol):
    """|a - b| <= tol, decided on exact squares."""
    t = F(tol)
    return n2(sub(fx(a), fx(b))) <= t * t


def dist(a, b):
    return math.sqrt(float(n2(sub(fx(a), fx(b)))))


def fdist(a, b):
    """plain double distance of two coordinate tuples"""
    return math.sqrt(sum((float(x) - float(y)) ** 2 for x, y in zip(a, b)))


def mag_of(*things):
    """Coordinate magnitude (>= 1) of points / vectors / numbers / nested sequences."""
    m = 1.0
    stack = list(things)
    while stack:
        t = stack.pop()
        if t is None:
            continue
        if isinstance(t, (int, float, F)):
            a = abs(float(t))
            if a > m:
                m = a
        else:
            stack.extend(list(t))
    return m


def hexpt(p):
    return [float(c).hex() for c in p]


def unhexpt(h, cls):
    return cls(*[float.fromhex(c) for c in h])


# ------------------------------------------------------------------ exact 2D predicates
def shoelace2(pts):
    """Twice the signed area of the loop pts (sequence of exact 2-tuples)."""
    s = F(0)
    n = len(pts)
    for i in range(n):
        a, b = pts[i - 1], pts[i]
        s += a[0] * b[1] - a[1] * b[0]
    return s


def newell(pts):
    """Newell vector (twice the area vector) of a 3D loop of exact 3-tuples."""
    x = y = z = F(0)
    n = len(pts)
    for i in range(n):
        a, b = pts[i - 1], pts[i]
        x += (a[1] - b[1]) * (a[2] + b[2])
        y += (a[2] - b[2]) * (a[0] + b[0])
        z += (a[0] - b[0]) * (a[1] + b[1])
    return (x, y, z)


def orient(a, b, c):
    return det2(sub(b, a), sub(c, a))


def on_seg(a, b, p):
    """p collinear with a,b assumed: is p within the closed box of a,b."""
    return min(a[0], b[0]) <= p[0] <= max(a[0], b[0]) and \
        min(a[1], b[1]) <= p[1] <= max(a[1], b[1])


def segs_intersect(a, b, c, d):
    """Closed segments ab and cd share at least one point (exact)."""
    o1, o2 = orient(a, b, c), orient(a, b, d)
    o3, o4 = orient(c, d, a), orient(c, d, b)
    if ((o1 > 0 and o2 < 0) or (o1 < 0 and o2 > 0)) and \
            ((o3 > 0 and o4 < 0) or (o3 < 0 and o4 > 0)):
        return True
    if o1 == 0 and on_seg(a, b, c):
        return True
    if o2 == 0 and on_seg(a, b, d):
        return True
    if o3 == 0 and on_seg(c, d, a):
        return True
    if o4 == 0 and on_seg(c, d, b):
        return True
    return False


def is_simple_loop(pts):
    """Exact: the closed loop of 2-tuples is a simple polygon (no touching, no overlap,
    no repeated vertex)."""
    n = len(pts)
    if n < 3:
        return False
    fl = [(float(p[0]), float(p[1])) for p in pts]
    for i in range(n):
        a, b = pts[i], pts[(i + 1) % n]
        if a == b:
            return False
        fa, fb = fl[i], fl[(i + 1) % n]
        lo_x, hi_x = min(fa[0], fb[0]), max(fa[0], fb[0])
        lo_y, hi_y = min(fa[1], fb[1]), max(fa[1], fb[1])
        for j in range(i + 1, n):
            c, d = pts[j], pts[(j + 1) % n]
            fc, fd = fl[j], fl[(j + 1) % n]
            if min(fc[0], fd[0]) > hi_x + 1e-6 or max(fc[0], fd[0]) < lo_x - 1e-6 or \
                    min(fc[1], fd[1]) > hi_y + 1e-6 or max(fc[1], fd[1]) < lo_y - 1e-6:
                continue
            adjacent = (j == i + 1) or (i == 0 and j == n - 1)
            if not adjacent:
                if segs_intersect(a, b, c, d):
                    return False
            else:
                # adjacent edges may only share their common end point (no fold-back)
                if j == i + 1:          # a-b then b-d
                    if orient(a, b, d) == 0 and dot(sub(a, b), sub(d, b)) > 0:
                        return False
                else:                   # c-d then d(=a)-b
                    if orient(c, a, b) == 0 and dot(sub(c, a), sub(b, a)) > 0:
                        return False
    return True


def pt_seg_d2(p, a, b):
    """Exact squared distance point - closed segment."""
    v = sub(b, a)
    vv = n2(v)
    if vv == 0:
        return n2(sub(p, a))
    t = dot(sub(p, a), v) / vv
    if t < 0:
        t = F(0)
    elif t > 1:
        t = F(1)
    return n2(sub(p, add(a, mul(v, t))))


def loop_d2(p, loop):
    """Exact squared distance of p to the closed polyline loop."""
    n = len(loop)
    return min(pt_seg_d2(p, loop[i - 1], loop[i]) for i in range(n))


def in_loop(p, loop):
    """Exact even-odd containment of p in the loop: 1 inside, 0 on the boundary, -1 out."""
    n = len(loop)
    inside = False
    for i in range(n):
        a, b = loop[i - 1], loop[i]
        if orient(a, b, p) == 0 and on_seg(a, b, p):
            return 0
        if (a[1] > p[1]) != (b[1] > p[1]):
            # x of the edge at height p.y
            xs = a[0] + (b[0] - a[0]) * (p[1] - a[1]) / (b[1] - a[1])
            if xs > p[0]:
                inside = not inside
    return 1 if inside else -1


def region_status(p, boundary, holes, margin):
    """Exact status of the point p w.r.t. the region boundary minus holes:
    'in' / 'out' when p is farther than margin from every loop, else 'edge'."""
    m2 = F(margin) ** 2
    if loop_d2(p, boundary) <= m2:
        return 'edge'
    for h in holes:
        if loop_d2(p, h) <= m2:
            return 'edge'
    if in_loop(p, boundary) < 0:
        return 'out'
    for h in holes:
        if in_loop(p, h) > 0:
            return 'out'
    return 'in'


def min_edge(loop):
    n = len(loop)
    return min(fdist(loop[i - 1], loop[i]) for i in range(n))


# ------------------------------------------------------------------ generators (2D loops)
def gen_star(rng, n, cx=0.0, cy=0.0, rmin=1.0, rmax=3.0, jitter=0.8):
    """Star-shaped (hence simple) loop, counter-clockwise, usually concave."""
    step = 2 * math.pi / n
    a0 = rng.uniform(0, 2 * math.pi)
    pts = []
    for i in range(n):
        a = a0 + step * (i + jitter * (rng.random() - 0.5))
        r = rng.uniform(rmin, rmax)
        pts.append((cx + r * math.cos(a), cy + r * math.sin(a)))
    return pts


def gen_convex(rng, n, cx=0.0, cy=0.0, rx=3.0, ry=2.0):
    step = 2 * math.pi / n
    a0 = rng.uniform(0, 2 * math.pi)
    ph = rng.uniform(0, math.pi)
    pts = []
    for i in range(n):
        a = a0 + step * (i + 0.6 * (rng.random() - 0.5))
        x, y = rx * math.cos(a), ry * math.sin(a)
        pts.append((cx + x * math.cos(ph) - y * math.sin(ph),
                    cy + x * math.sin(ph) + y * math.cos(ph)))
    return pts


def gen_rectilinear(rng, cx=0.0, cy=0.0, unit=1.0):
    """L / U / T / staircase / comb loops on a dyadic grid (counter-clockwise)."""
    kind = rng.choice(['L', 'U', 'T', 'stairs', 'comb', 'rect'])
    q = lambda lo, hi: rng.randint(lo * 4, hi * 4) / 4.0      # noqa: E731
    if kind == 'rect':
        w, h = q(1, 6), q(1, 6)
        pts = [(0, 0), (w, 0), (w, h), (0, h)]
    elif kind == 'L':
        w, h, a, b = q(3, 7), q(3, 7), q(1, 2), q(1, 2)
        pts = [(0, 0), (w, 0), (w, b), (a, b), (a, h), (0, h)]
    elif kind == 'U':
        w, h, a, d = q(5, 8), q(3, 6), q(1, 2), q(1, 2)
        pts = [(0, 0), (w, 0), (w, h), (w - a, h), (w - a, d), (a, d), (a, h), (0, h)]
    elif kind == 'T':
        w, h, a, d = q(5, 8), q(4, 6), q(1, 2), q(1, 2)
        pts = [(a, 0), (w - a, 0), (w - a, h - d), (w, h - d), (w, h), (0, h), (0, h - d),
               (a, h - d)]
    elif kind == 'stairs':
        k = rng.randint(2, 6)
        pts = [(0, 0), (k * 1.0, 0)]
        for i in range(k):
            pts.append((k - i * 1.0, (i + 1) * 0.75))
            pts.append((k - (i + 1) * 1.0, (i + 1) * 0.75))
        # remove the duplicate of the last corner with the start column
        pts = [p for i, p in enumerate(pts) if i == 0 or p != pts[i - 1]]
        if pts[-1][0] == 0 and pts[0][0] == 0:
            pass
    else:  # comb
        k = rng.randint(2, 5)
        pts = [(0, 0), (2.0 * k - 1, 0)]
        for i in range(k):
            x1 = 2.0 * (k - i) - 1
            pts.append((x1, 3.0))
            pts.append((x1 - 1, 3.0))
            if i < k - 1:
                pts.append((x1 - 1, 1.0))
                pts.append((x1 - 2, 1.0))
        pts = [p for i, p in enumerate(pts) if i == 0 or p != pts[i - 1]]
    out = []
    for (x, y) in pts:
        out.append((cx + unit * x, cy + unit * y))
    # drop collinear interior duplicates produced by the staircase closing edge
    return out


def rot_loop(pts, ang, cx=0.0, cy=0.0):
    c, s = math.cos(ang), math.sin(ang)
    return [(cx + c * (x - cx) - s * (y - cy), cy + s * (x - cx) + c * (y - cy))
            for (x, y) in pts]


def reflex_indices(pts):
    """Indices of reflex vertices of a counter-clockwise loop (exact)."""
    e = [fx(p) for p in pts]
    n = len(e)
    return [i for i in range(n) if orient(e[i - 1], e[i], e[(i + 1) % n]) < 0]


def start_at(pts, i):
    return list(pts[i:]) + list(pts[:i])


def concave_first_corner(pts):
    """Cyclic start such that the first corner (v0, v1, v2) turns the wrong way."""
    r = reflex_indices(pts)
    if not r:
        return None
    return start_at(pts, (r[0] - 1) % len(pts))


def collinear_first_three(pts, rng):
    """Insert the midpoint of one edge and start the loop so that the first three
    vertices are collinear (within rounding of the midpoint)."""
    n = len(pts)
    i = rng.randrange(n)
    a, b = pts[i], pts[(i + 1) % n]
    m = ((a[0] + b[0]) / 2.0, (a[1] + b[1]) / 2.0)
    new = list(pts[:i + 1]) + [m] + list(pts[i + 1:])
    return start_at(new, i)


def gen_loop(rng, nmax=12):
    """A valid simple counter-clockwise loop of floats + its kind label."""
    for _ in range(50):
        kind = rng.choice(['star', 'star', 'convex', 'rectilinear', 'rectilinear_rot',
                           'triangle', 'bigstar'])
        cx, cy = rng.uniform(-5, 5), rng.uniform(-5, 5)
        if kind == 'star':
            pts = gen_star(rng, rng.randint(4, nmax), cx, cy)
        elif kind == 'bigstar':
            pts = gen_star(rng, rng.randint(max(4, nmax // 2), nmax), cx, cy, 2.0, 6.0)
        elif kind == 'convex':
            pts = gen_convex(rng, rng.randint(3, nmax), cx, cy)
        elif kind == 'triangle':
            pts = gen_convex(rng, 3, cx, cy)
        elif kind == 'rectilinear':
            pts = gen_rectilinear(rng, round(cx), round(cy))
        else:
            pts = rot_loop(gen_rectilinear(rng, cx, cy, rng.uniform(0.5, 2.0)),
                           rng.uniform(0, 2 * math.pi), cx, cy)
        if valid_loop(pts):
            return pts, kind
    raise RuntimeError('no valid loop generated')


def valid_loop(pts, min_len=1e-3):
    if len(pts) < 3 or min_edge(pts) < min_len:
        return False
    e = [fx(p) for p in pts]
    if not is_simple_loop(e):
        return False
    a2 = shoelace2(e)
    if a2 <= 0:
        return False
    # not a sliver: area comparable with the edge scale
    per = sum(fdist(pts[i - 1], pts[i]) for i in range(len(pts)))
    return float(a2) / 2 > 1e-3 * per * per / len(pts)


def gen_holed(rng, nholes, nmax=10):
    """Boundary loop (ccw) + nholes disjoint hole loops (ccw) strictly inside."""
    for _ in range(50):
        cx, cy = rng.uniform(-5, 5), rng.uniform(-5, 5)
        if rng.random() < 0.5:
            n = rng.randint(6, max(6, nmax))
            b = gen_star(rng, n, cx, cy, 7.0, 10.0, 0.5)
        else:
            w, h = rng.uniform(12, 16), rng.uniform(12, 16)
            b = rot_loop([(cx - w / 2, cy - h / 2), (cx + w / 2, cy - h / 2),
                          (cx + w / 2, cy + h / 2), (cx - w / 2, cy + h / 2)],
                         rng.choice([0.0, rng.uniform(0, 6.28)]), cx, cy)
        centers = [(-2.5, -2.5), (2.5, -2.5), (2.5, 2.5), (-2.5, 2.5), (0.0, 0.0)]
        rng.shuffle(centers)
        holes = []
        for k in range(nholes):
            hx, hy = cx + centers[k][0] + rng.uniform(-0.3, 0.3), \
                cy + centers[k][1] + rng.uniform(-0.3, 0.3)
            if rng.random() < 0.5:
                h = gen_star(rng, rng.randint(3, 7), hx, hy, 0.3, 1.0)
            else:
                ww, hh = rng.uniform(0.4, 1.6), rng.uniform(0.4, 1.6)
                h = rot_loop([(hx - ww / 2, hy - hh / 2), (hx + ww / 2, hy - hh / 2),
                              (hx + ww / 2, hy + hh / 2), (hx - ww / 2, hy + hh / 2)],
                             rng.uniform(0, 6.28), hx, hy)
            holes.append(h)
        if valid_holed(b, holes):
            return b, holes
    raise RuntimeError('no valid holed shape generated')


def valid_holed(b, holes, gap=1e-2):
    if not valid_loop(b):
        return False
    eb = [fx(p) for p in b]
    eh = []
    for h in holes:
        if not valid_loop(h):
            return False
        eh.append([fx(p) for p in h])
    g2 = F(gap) ** 2
    for i, h in enumerate(eh):
        for p in h:
            if in_loop(p, eb) <= 0 or loop_d2(p, eb) <= g2:
                return False
        for p in eb:
            if loop_d2(p, h) <= g2:
                return False
        for j in range(i + 1, len(eh)):
            o = eh[j]
            for p in h:
                if in_loop(p, o) >= 0 or loop_d2(p, o) <= g2:
                    return False
            for p in o:
                if in_loop(p, h) >= 0 or loop_d2(p, h) <= g2:
                    return False
    return True


# ------------------------------------------------------------------ generators (3D)
def rand_unit3(rng):
    while True:
        v = (rng.gauss(0, 1), rng.gauss(0, 1), rng.gauss(0, 1))
        m = math.sqrt(v[0] ** 2 + v[1] ** 2 + v[2] ** 2)
        if m > 0.05:
            return Vector3D(v[0] / m, v[1] / m, v[2] / m)


def rand_unit2(rng):
    a = rng.uniform(0, 2 * math.pi)
    return Vector2D(math.cos(a), math.sin(a)).normalize()


PLANE_KINDS = ['generic', 'generic', 'generic', 'nearZ', 'nearZ', 'axis', 'axis', 'xaxis']


def rand_plane(rng, mag=None, kind=None):
    """Random plane + kind label.  Kinds: generic normal; normal within 1e-3..1e-9 of
    +-Z; exactly axis aligned; generic with a user-supplied x axis."""
    kind = kind or rng.choice(PLANE_KINDS)
    if mag is None:
        mag = rng.choice([1.0, 10.0, 100.0, 1e3])
    o = Point3D(rng.uniform(-mag, mag), rng.uniform(-mag, mag), rng.uniform(-mag, mag))
    if kind == 'axis':
        n = rng.choice([Vector3D(0, 0, 1), Vector3D(0, 0, -1), Vector3D(1, 0, 0),
                        Vector3D(-1, 0, 0), Vector3D(0, 1, 0), Vector3D(0, -1, 0)])
        return Plane(n, o), kind
    if kind == 'nearZ':
        e = 10.0 ** rng.randint(-9, -3)
        a = rng.uniform(0, 2 * math.pi)
        n = Vector3D(e * math.cos(a), e * math.sin(a), rng.choice([1.0, -1.0]))
        return Plane(n, o), kind
    n = rand_unit3(rng)
    if kind == 'xaxis':
        while True:
            x = n.cross(rand_unit3(rng))
            if x.magnitude > 0.1:
                return Plane(n, o, x.normalize()), kind
    return Plane(n, o), kind


def to3d(plane, pts2):
    """Place 2D float points in the plane with the library's own frame (inputs only)."""
    return [plane.xy_to_xyz(Point2D(x, y)) for (x, y) in pts2]


def frame_of(plane):
    """Exact (o, x, y, n) of a library plane."""
    return fx(plane.o), fx(plane.x), fx(plane.y), fx(plane.n)


def to2d_exact(fr, p):
    """Exact plane coordinates of the exact 3D point p in the frame fr."""
    o, x, y, n = fr
    d = sub(p, o)
    return (dot(x, d), dot(y, d))


# ------------------------------------------------------------------ failures
class Failures(object):
    """Failure list deduplicated by signature; keeps the smallest witness."""

    def __init__(self):
        self.by_sig = {}
        self.count = 0

    def add(self, signature, what, size=0, **kw):
        self.count += 1
        old = self.by_sig.get(signature)
        if old is not None and old['_size'] <= size:
            old['hits'] += 1
            return
        d = {'signature': signature, 'what': what[:600], '_size': size,
             'hits': 1 if old is None else old['hits'] + 1}
        d.update(kw)
        self.by_sig[signature] = d

    def has(self, signature):
        return signature in self.by_sig

    def list(self):
        out = []
        for k in sorted(self.by_sig):
            d = dict(self.by_sig[k])
            d.pop('_size', None)
            out.append(d)
        return out


def guarded(fn, *a, **k):
    try:
        return ('ok', fn(*a, **k))
    except Exception as e:          # anything the real code raises is an observation
        return ('raise', e)


def exc_name(e):
    return type(e).__name__


def hist_add(h, key, n=1):
    h[key] = h.get(key, 0) + n


# ------------------------------------------------------------------ replayable encoding
def _hexify(v):
    if isinstance(v, bool) or v is None or isinstance(v, str):
        return v
    if isinstance(v, float):
        return {'f': v.hex()}
    if isinstance(v, int):
        return v
    if isinstance(v, dict):
        return dict((k, _hexify(x)) for k, x in v.items())
    if isinstance(v, (list, tuple)):
        return [_hexify(x) for x in v]
    return repr(v)


def _unhex(v):
    if isinstance(v, dict):
        if list(v.keys()) == ['f']:
            return float.fromhex(v['f'])
        return dict((k, _unhex(x)) for k, x in v.items())
    if isinstance(v, list):
        return [_unhex(x) for x in v]
    return v


def enc(obj):
    """Replayable encoding of a library object (to_dict with hexadecimal floats)."""
    if isinstance(obj, (Point2D, Vector2D, Point3D, Vector3D)):
        return {'type': type(obj).__name__, 'xyz': _hexify([float(c) for c in obj])}
    return _hexify(obj.to_dict())


def dec(d):
    from ladybug_geometry.dictutil import geometry_dict_to_object
    d = _unhex(d)
    if 'xyz' in d:
        cls = {'Point2D': Point2D, 'Vector2D': Vector2D, 'Point3D': Point3D,
               'Vector3D': Vector3D}[d['type']]
        return cls(*d['xyz'])
    return geometry_dict_to_object(d)
