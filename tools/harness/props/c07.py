"""C07 — closed polyfaces are solid, outward-facing, with correct edge classes.

Property oracle on the REAL code.  Closed solids with exactly known geometry (prisms over
simple polygons with and without holes, oblique prisms, pyramids, boxes, L-extrusions) are
built in exact model coordinates, placed by a rational rigid motion, and handed to
`Polyface3D.from_faces` / `Polyface3D(vertices, face_indices)` / `from_offset_face` /
`from_box` in a random presentation (faces shuffled, each flipped or not, every loop started
anywhere, holes in any order; open variants with faces removed / duplicated; a welding
stream where every face carries its own slightly perturbed copy of the shared vertices).

Decided on the outputs:
  * edge tables (`edge_indices`/`edge_types`), `naked_edges`/`internal_edges`/
    `non_manifold_edges` and `is_solid` against the Lean specification Spec/EdgeCount run on
    (a) the structure's own `face_indices` and (b) the generator's ground-truth structure
    (which also decides the vertex welding);
  * open variants: exactly the edges of the removed / duplicated faces change class;
  * closed solids: every returned face is an input face, its normal points away from an
    interior witness (a point next to the face, certified inside the solid by the Lean
    specification Spec/Contain), the exact divergence-theorem volume taken with the reported
    normals is positive and equals the enclosed volume, and `volume` equals it;
  * Mesh2D / Mesh3D (random triangle/quad meshes with fins and duplicates, factory meshes):
    the three edge lists against Spec/EdgeCount on `faces`.
"""
import math
import random
import time
from fractions import Fraction

from ladybug_geometry.geometry2d.pointvector import Point2D, Vector2D
from ladybug_geometry.geometry3d.pointvector import Point3D, Vector3D
from ladybug_geometry.geometry2d.polygon import Polygon2D
from ladybug_geometry.geometry2d.mesh import Mesh2D
from ladybug_geometry.geometry3d.mesh import Mesh3D
from ladybug_geometry.geometry3d.face import Face3D
from ladybug_geometry.geometry3d.polyface import Polyface3D
from ladybug_geometry.geometry3d.plane import Plane

from props import _h0708 as H

F = Fraction
REL = 1e-9
NEPS = 4      # witness offsets tried per face: eps, eps/16, eps/256, eps/4096
_WITNESS_CACHE = {}

ASSUMPTIONS = [
    'solids are valid closed 2-manifolds: base loops simple (exact test), features >= 0.05 '
    '(>= 5 x the 0.01 nudge get_outward_faces uses), holes strictly inside and disjoint',
    'from_faces tolerance 1e-3..1e-2; in the welding stream every copy of a vertex lies within '
    '0.2 tol (per coordinate) of it and distinct vertices are > 2.5 tol apart',
    'volumes agree within 1e-9 * max(V, M*S) (M = coordinate magnitude, S = surface area: the '
    'condition number of the divergence formula); edge classes and solidity exactly',
    'a loop index repeated consecutively (a == b) is not an edge',
    'welding stream (vertices perturbed within the tolerance): topology only (solidity, edge '
    'classes, welding), no outwardness / volume claim',
    'two known degenerate configurations of get_outward_faces are reported under their own '
    'signatures, decided exactly: "test ray through a shared edge" (ray from '
    'face._point_on_face(0.01) along the normal passes <= 1e-6*scale from an edge of another '
    'face) and "test point not on the face" (face._point_on_face(0.01) is not strictly inside '
    'the face region)',
]
TRUSTED = [
    'C07: Lean specifications Spec/EdgeCount (incidence by definition) and Spec/Contain '
    '(interior witnesses), run by the driver; the exact model geometry of the generators '
    '(base area x height etc.) computed with Fractions in props/_h0708.py',
]


# ------------------------------------------------------------------ case construction
def solid_spec(kind, base, za, zb, shift=(0, 0), apex=None, base_kind=''):
    return {'kind': kind, 'base': [[[H.wn(F(x)), H.wn(F(y))] for (x, y) in lp] for lp in base],
            'za': H.wn(F(za)), 'zb': H.wn(F(zb)), 'shift': [H.wn(F(shift[0])), H.wn(F(shift[1]))],
            'apex': None if apex is None else [H.wn(F(apex[0])), H.wn(F(apex[1]))],
            'base_kind': base_kind}


def solid_from_spec(sp):
    loops = [[(F(x), F(y)) for (x, y) in lp] for lp in sp['base']]
    if sp['kind'] == 'pyramid':
        return H.make_pyramid(loops[0], F(sp['za']), F(sp['zb']),
                              (F(sp['apex'][0]), F(sp['apex'][1])))
    return H.make_prism(loops, F(sp['za']), F(sp['zb']),
                        (F(sp['shift'][0]), F(sp['shift'][1])))


BASE_KINDS = ['star', 'spiky', 'convex', 'polyomino', 'polyomino_holes', 'L', 'ring', 'box']


def random_solid_spec(rng, small=False):
    bk = rng.choice(BASE_KINDS)
    n = rng.randint(3, 8) if small else rng.choice([3, 4, 5, 6, 8, 10, 14, 20, 30])
    if bk == 'box':
        a, b = rng.randint(1, 12) / 2.0, rng.randint(1, 12) / 2.0
        base = [[(0, 0), (a, 0), (a, b), (0, b)]]
    else:
        base = H.gen_base(rng, bk, n)
        if base is None:
            return None
    # a different start / direction of the base loops is part of the presentation later
    za = F(rng.choice([0, 0, -1, 2, 0.5]))
    h = F(rng.choice([0.5, 1, 2, 3, 4.5, 7]))
    k = rng.random()
    has_holes = len(base) > 1
    if k < 0.15 and not has_holes:
        # apex above a point of the bounding box
        xs = [F(p[0]) for p in base[0]]
        ys = [F(p[1]) for p in base[0]]
        ax = min(xs) + (max(xs) - min(xs)) * F(rng.randint(0, 8), 8)
        ay = min(ys) + (max(ys) - min(ys)) * F(rng.randint(0, 8), 8)
        return solid_spec('pyramid', base, za, za + h, apex=(ax, ay), base_kind=bk)
    if k < 0.3:
        sh = (F(rng.randint(-4, 4), 4) * h / 2, F(rng.randint(-4, 4), 4) * h / 2)
        return solid_spec('oblique', base, za, za + h, shift=sh, base_kind=bk)
    return solid_spec('prism', base, za, za + h, base_kind=bk)


def scale_spec(sp, u):
    """The same solid with every model coordinate multiplied by the dyadic unit u (solids much
    smaller than one length unit reach the fall-back branches of the point-on-face helper)."""
    u = F(u)
    out = dict(sp)
    out['base'] = [[[H.wn(F(x) * u), H.wn(F(y) * u)] for (x, y) in lp] for lp in sp['base']]
    out['za'], out['zb'] = H.wn(F(sp['za']) * u), H.wn(F(sp['zb']) * u)
    out['shift'] = [H.wn(F(sp['shift'][0]) * u), H.wn(F(sp['shift'][1]) * u)]
    if sp['apex'] is not None:
        out['apex'] = [H.wn(F(sp['apex'][0]) * u), H.wn(F(sp['apex'][1]) * u)]
    out['unit'] = H.wn(u)
    return out


def random_presentation(rng, solid, plain=False):
    pres = []
    order = list(range(len(solid.mfaces)))
    if not plain:
        rng.shuffle(order)
    for fi in order:
        face = solid.mfaces[fi]
        hperm = list(range(len(face) - 1))
        if not plain:
            rng.shuffle(hperm)
        pres.append({'f': fi,
                     'flip': (not plain) and rng.random() < 0.5,
                     'via': (not plain) and rng.random() < 0.3,
                     'starts': [0 if plain else rng.randrange(len(lp)) for lp in face],
                     'hperm': hperm,
                     'hflip': [(not plain) and rng.random() < 0.5 for _ in hperm]})
    return pres


def presented_loops(solid, e):
    """Vertex-id loops of one presentation entry (boundary first)."""
    face = solid.mfaces[e['f']]
    loops = [face[0]] + [face[1 + k] for k in e['hperm']]
    out = []
    for li, lp in enumerate(loops):
        src = 0 if li == 0 else 1 + e['hperm'][li - 1]
        lp = H.rotate_start(lp, e['starts'][src])
        if e['flip']:
            lp = list(reversed(lp))
        if li > 0 and e['hflip'][li - 1]:
            lp = list(reversed(lp))
        out.append(lp)
    return out


def jitter_of(case, entry_index, vid):
    r = random.Random('%s/%d/%d' % (case['jitter'], entry_index, vid))
    a = 0.2 * case['tol']
    return (r.uniform(-a, a), r.uniform(-a, a), r.uniform(-a, a))


def build_faces(case, solid, wverts):
    faces = []
    for k, e in enumerate(case['pres']):
        loops = presented_loops(solid, e)
        if e['via']:
            # build the opposite orientation and let Face3D.flip() produce the wanted one
            loops = [list(reversed(lp)) for lp in loops]
        pts = []
        for lp in loops:
            row = []
            for vid in lp:
                w = wverts[vid]
                if case.get('jitter'):
                    d = jitter_of(case, k, vid)
                    w = (w[0] + d[0], w[1] + d[1], w[2] + d[2])
                row.append(Point3D(*w))
            pts.append(row)
        f = Face3D(pts[0], None, pts[1:] if len(pts) > 1 else None)
        if e['via']:
            f = f.flip()
        faces.append(f)
    return faces


# ------------------------------------------------------------------ observation helpers
def cheb(a, b):
    return max(abs(a[0] - b[0]), abs(a[1] - b[1]), abs(a[2] - b[2]) if len(a) > 2 else 0.0)


class VMap(object):
    """Positions -> ids of a reference vertex list (exact first, then nearest within tol)."""

    def __init__(self, verts, tol):
        self.verts = [tuple(v) for v in verts]
        self.exact = {}
        for i, v in enumerate(self.verts):
            self.exact.setdefault(v, i)
        self.tol = tol

    def find(self, p):
        p = tuple(p)
        i = self.exact.get(p)
        if i is not None:
            return i
        best, arg = None, None
        for i, v in enumerate(self.verts):
            d = cheb(p, v)
            if best is None or d < best:
                best, arg = d, i
        if best is not None and best <= self.tol:
            return arg
        return None


def tup(p):
    return tuple(p)


def und(a, b):
    return (a, b) if a <= b else (b, a)


def seg_ids(segs, vmap):
    """Undirected vertex-id pairs of a list of line segments (None if a point is unknown)."""
    out = []
    for s in segs:
        a, b = vmap.find(tup(s.p1)), vmap.find(tup(s.p2))
        if a is None or b is None:
            return None
        out.append(und(a, b))
    return out


def counts_from_lean(val):
    counts = {}
    for (e, n) in val[0]:
        counts[(e[0], e[1])] = n
    classes = {'naked': sorted(tuple(e) for e in val[1]),
               'internal': sorted(tuple(e) for e in val[2]),
               'non_manifold': sorted(tuple(e) for e in val[3])}
    return counts, classes, bool(val[4])


def fail(case, clause, what, sig=None, **kw):
    d = {'signature': sig or '%s|%s|%s' % (case['site'], case['variant'], clause),
         'what': what, 'case': case, 'clause': clause}
    d.update(kw)
    return d


# Known degenerate configuration of Polyface3D.get_outward_faces (open finding): the test ray
# of a face (from `_point_on_face(0.01)` along the given normal) runs exactly through an edge
# shared by two other faces, so that edge is counted twice or not at all.
DEGENERATE = 'Polyface3D.get_outward_faces|test ray through a shared edge|'
PYRAMID_REPRO = """from ladybug_geometry.geometry3d.pointvector import Point3D
from ladybug_geometry.geometry3d.face import Face3D
from ladybug_geometry.geometry3d.polyface import Polyface3D
b = [Point3D(0, 0, 5), Point3D(2, 0, 5), Point3D(2, 2, 5), Point3D(0, 2, 5)]; a = Point3D(1, 1, 8)
faces = [Face3D(b)] + [Face3D([b[i], b[(i + 1) % 4], a]) for i in range(4)]
pf = Polyface3D.from_faces(faces, 0.01)
print(pf.is_solid, pf.volume, pf.faces[0].normal)   # True 17.33 (enclosed: 4.0) (0, 0, 1) = inward
"""


def outward_test_faces(case, ex):
    """The face list Polyface3D hands to get_outward_faces (None for the factories)."""
    if case['site'] == 'Polyface3D.from_faces':
        return ex['input_faces']
    if case['site'] == 'Polyface3D.__init__':
        pf = ex['pf']
        out = []
        for face in pf.face_indices:
            bnd = tuple(pf.vertices[i] for i in face[0])
            if len(face) == 1:
                out.append(Face3D(bnd))
            else:
                out.append(Face3D(boundary=bnd,
                                  holes=tuple(tuple(pf.vertices[i] for i in f)
                                              for f in face[1:])))
        return out
    return None


OFFFACE = 'Polyface3D.get_outward_faces|test point not on the face|'
OFFFACE_REPRO = """import math
from ladybug_geometry.geometry3d.pointvector import Point3D
from ladybug_geometry.geometry3d.face import Face3D
from ladybug_geometry.geometry3d.polyface import Polyface3D
a = 0.45; c, s = math.cos(a), math.sin(a)
P = lambda l, z=0.0: [Point3D(c*x - s*y, s*x + c*y, z) for x, y in l]
b = [(0,0),(0,7),(7,7),(7,0)]; h = [(4,1),(4,2),(5,2),(5,3),(6,3),(6,1)]
f = Face3D(P(b), holes=[P(h)])
p = f._point_on_face(0.01); print(c*p.x + s*p.y, -s*p.x + c*p.y)   # (7.007, -0.007): off the face
pf = Polyface3D.from_faces(list(Polyface3D.from_offset_face(f, 1.0).faces), 0.01)
print(pf.faces[0].normal, pf.faces[-1].normal)                     # both caps point inward
"""


def test_point_on_face(in_faces, k):
    """Exact: does the point get_outward_faces starts its ray from (face._point_on_face)
    lie strictly inside the region of face k (projected along the dominant normal axis)?"""
    face = in_faces[k]
    pof = tup(face._point_on_face(0.01))
    loops = [[tup(v) for v in face.boundary]] + [[tup(v) for v in hl]
                                                 for hl in (face.holes or ())]
    n = H.newell([tuple(F(c) for c in v) for v in loops[0]])
    ax = max(range(3), key=lambda i: abs(n[i]))
    keep = [i for i in range(3) if i != ax]
    g = H.IGeom([[(v[keep[0]], v[keep[1]]) for v in lp] for lp in loops])
    return g.classify((pof[keep[0]], pof[keep[1]])) == 1


BRIDGE = 'Polyface3D.get_outward_faces|test ray through a hole bridge|'
BRIDGE_REPRO = (
    "from ladybug_geometry.geometry3d import Point3D, Face3D; "
    "from ladybug_geometry.geometry3d.polyface import Polyface3D; "
    "b=[(0,0),(5,0),(5,5),(0,5)]; h=[(1,1),(1,3),(3,3),(3,1)]; "
    "P=lambda l,z:[Point3D(x,y,z) for x,y in l]; "
    "bot=Face3D(P(b,0),None,[P(h,0)]); top=Face3D(P(b,.5),None,[P(h,.5)]).flip(); "
    "# the hole vertex (1,1) lies on the diagonal of the corner (0,0): the merged 2D loop of the "
    "face bridges along it, and a test ray arriving on that diagonal is counted as a miss")


def test_ray_bridge_clearance(in_faces, k, scale):
    """Exact distance (float) from the test ray of face k to the nearest BRIDGE edge of another
    face: an edge of the merged vertex loop (Face3D.vertices) that joins the boundary to a hole and
    is no edge of the boundary or of a hole.  None if no other face has holes."""
    face = in_faces[k]
    pof = face._point_on_face(0.01)
    p = tuple(F(c) for c in tup(pof))
    v = tuple(F(c) for c in tup(face.normal))
    q = H.vadd(p, H.vmul(v, F(8 * scale)))
    best = None
    for j, f in enumerate(in_faces):
        if j == k or not f.holes:
            continue
        real = set()
        for lp in [f.boundary] + list(f.holes):
            pts = [tup(x) for x in lp]
            for i in range(len(pts)):
                real.add((pts[i - 1], pts[i]))
                real.add((pts[i], pts[i - 1]))
        mv = [tup(x) for x in f.vertices]
        for i in range(len(mv)):
            if (mv[i - 1], mv[i]) in real:
                continue
            a_ = tuple(F(c) for c in mv[i - 1])
            b_ = tuple(F(c) for c in mv[i])
            d = H.seg_seg_dsq3(p, q, a_, b_)
            if best is None or d < best:
                best = d
    return None if best is None else math.sqrt(float(best))


def test_ray_clearance(in_faces, k, scale):
    """Exact distance (as a float) from the test ray get_outward_faces uses for face k to
    the nearest edge of any other face."""
    face = in_faces[k]
    pof = face._point_on_face(0.01)
    p = tuple(F(c) for c in tup(pof))
    v = tuple(F(c) for c in tup(face.normal))
    q = H.vadd(p, H.vmul(v, F(8 * scale)))
    best = None
    for j, f in enumerate(in_faces):
        if j == k:
            continue
        loops = [f.boundary] + list(f.holes or ())
        for lp in loops:
            pts = [tuple(F(c) for c in tup(x)) for x in lp]
            for i in range(len(pts)):
                d = H.seg_seg_dsq3(p, q, pts[i - 1], pts[i])
                if best is None or d < best:
                    best = d
    return math.sqrt(float(best))


# ------------------------------------------------------------------ polyface cases
def execute_polyface(case):
    """Run the real code.  Returns (ex, requests) or (failure_list, None)."""
    ex = {}
    solid = solid_from_spec(case['solid']) if case.get('solid') else None
    rigid = H.Rigid.from_json(case['rigid']) if case.get('rigid') else None
    ex['solid'], ex['rigid'] = solid, rigid
    site = case['site']
    try:
        if site in ('Polyface3D.from_faces', 'Polyface3D.__init__'):
            wverts = [H.fl3(rigid.apply(v)) for v in solid.mverts]
            ex['wverts'] = wverts
            gt = [presented_loops(solid, e) for e in case['pres']]
            if site == 'Polyface3D.from_faces':
                faces = build_faces(case, solid, wverts)
                ex['input_faces'] = faces
                pf = Polyface3D.from_faces(faces, case['tol'])
            else:
                pf = Polyface3D([Point3D(*w) for w in wverts], gt)
        elif site == 'Polyface3D.from_offset_face':
            wverts0 = [H.fl3(rigid.apply(v)) for v in solid.mverts]
            e = case['pres'][0]
            loops = presented_loops(solid, e)
            pts = [[Point3D(*wverts0[v]) for v in lp] for lp in loops]
            face = Face3D(pts[0], None, pts[1:] if len(pts) > 1 else None)
            up = rigid.rot((F(0), F(0), F(1)))
            sgn = sum(F(a) * b for a, b in zip(tup(face.normal), up))
            h = solid.zb - solid.za
            # the given face is the top cap (z = zb) of the model prism: if it looks up the
            # library extrudes it further up, if it looks down the result is the model prism
            if sgn > 0:
                solid = H.make_prism(solid.base, solid.zb, solid.zb + h)
            ex['solid'] = solid
            wverts = [H.fl3(rigid.apply(v)) for v in solid.mverts]
            ex['wverts'] = wverts
            gt = [[list(lp) for lp in f] for f in solid.mfaces]
            pf = Polyface3D.from_offset_face(face, float(h))
        elif site == 'Polyface3D.from_box':
            wverts = [H.fl3(rigid.apply(v)) for v in solid.mverts]
            ex['wverts'] = wverts
            gt = [[list(lp) for lp in f] for f in solid.mfaces]
            xs = [F(p[0]) for p in solid.base[0]]
            ys = [F(p[1]) for p in solid.base[0]]
            n = Vector3D(*H.fl3(rigid.rot((F(0), F(0), F(1)))))
            x = Vector3D(*H.fl3(rigid.rot((F(1), F(0), F(0)))))
            o = Point3D(*H.fl3(rigid.apply((min(xs), min(ys), solid.za))))
            pf = Polyface3D.from_box(float(max(xs) - min(xs)), float(max(ys) - min(ys)),
                                     float(solid.zb - solid.za), Plane(n, o, x))
        else:
            raise ValueError(site)
        ex['gt'] = gt
        ex['pf'] = pf
        ex['raw_verts'] = [tup(v) for v in pf.vertices]
        ex['raw_faces'] = [[list(lp) for lp in f] for f in pf.face_indices]
        ex['edge_indices'] = [tuple(e) for e in pf.edge_indices]
        ex['edge_types'] = list(pf.edge_types)
        ex['is_solid'] = pf.is_solid
        scale = max([1.0] + [abs(c) for v in ex['raw_verts'] for c in v])
        ex['scale'] = scale
        rawmap = VMap(ex['raw_verts'], REL * scale)
        ex['naked'] = seg_ids(pf.naked_edges, rawmap)
        ex['internal'] = seg_ids(pf.internal_edges, rawmap)
        ex['non_manifold'] = seg_ids(pf.non_manifold_edges, rawmap)
        ex['all_edges'] = seg_ids(pf.edges, rawmap)
        if case['closed']:
            fs = pf.faces
            ex['faces'] = [([tup(p) for p in f.boundary],
                            [[tup(p) for p in hl] for hl in (f.holes or ())],
                            tup(f.normal)) for f in fs]
            ex['volume'] = pf.volume
    except Exception as e:      # noqa: E722 — any exception on a valid input is a failure
        return [fail(case, 'raises ' + type(e).__name__,
                     '%s on a valid %s input raised %s: %s' % (
                         site, case['variant'], type(e).__name__, str(e)[:200]))], None
    reqs = [('spec.edgecount', [ex['raw_faces']]), ('spec.edgecount', [ex['gt']])]
    if case['closed']:
        solid = ex['solid']
        feat = min(math.sqrt(float(H.IGeom(solid.base).min_feature_sq())),
                   float(solid.zb - solid.za))
        eps = F(1, 1 << max(0, int(math.ceil(-math.log(feat / 8.0, 2)))))
        key = repr(case['solid']) + repr(solid.za)
        if key not in _WITNESS_CACHE:
            if len(_WITNESS_CACHE) > 64:
                _WITNESS_CACHE.clear()
            tester = H.FaceTester(solid)
            wit, pts2 = [], []
            for fi in range(len(solid.mfaces)):
                q, u = H.face_witness(solid, fi)
                found = None
                for lvl in range(NEPS):
                    e = eps / (16 ** lvl)
                    cp, cm = H.vadd(q, H.vmul(u, e)), H.vsub(q, H.vmul(u, e))
                    # the probe segment must meet the boundary surface only in q itself
                    if not tester.hits(cp, cm, fi):
                        found = (cp, cm)
                        break
                if found is None:
                    wit.append(None)
                    continue
                pp, sp_ = solid.project(found[0])
                pm, sm_ = solid.project(found[1])
                wit.append((u, sp_, sm_, len(pts2)))
                pts2.append([H.wn(pp[0]), H.wn(pp[1])])
                pts2.append([H.wn(pm[0]), H.wn(pm[1])])
            _WITNESS_CACHE[key] = (wit, pts2)
        wit, pts2 = _WITNESS_CACHE[key]
        ex['wit'] = wit
        base_w = [[[H.wn(p[0]), H.wn(p[1])] for p in lp] for lp in solid.base]
        reqs.append(('spec.classify', [base_w, pts2]))
    return ex, reqs


def _cls3(c2, st):
    if c2 == -1 or st == -1:
        return -1
    if c2 == 1 and st == 1:
        return 1
    return 0


def judge_polyface(case, ex, ans, stats):
    out = []
    site = case['site']
    for (ok, val) in ans:
        if not ok:
            raise RuntimeError('specification call failed: %s' % (val,))
    raw_counts, raw_classes, raw_closed = counts_from_lean(ans[0][1])
    gt_counts, gt_classes, gt_closed = counts_from_lean(ans[1][1])
    if case['closed'] and not gt_closed:
        stats['generator_not_closed'] = stats.get('generator_not_closed', 0) + 1
        return out
    # ---- A. edge tables against the count on the structure's own face_indices
    ei, et = ex['edge_indices'], ex['edge_types']
    keys = [und(a, b) for (a, b) in ei]
    if len(ei) != len(et):
        out.append(fail(case, 'edge tables differ in length',
                        '%s: %d edge_indices but %d edge_types' % (site, len(ei), len(et))))
    elif len(set(keys)) != len(keys):
        dup = sorted(k for k in set(keys) if keys.count(k) > 1)[:3]
        out.append(fail(case, 'edge listed twice',
                        '%s: edge_indices lists %s more than once' % (site, dup)))
    elif set(keys) != set(raw_counts):
        miss = sorted(set(raw_counts) - set(keys))[:3]
        extra = sorted(set(keys) - set(raw_counts))[:3]
        out.append(fail(case, 'edge set differs from incidence count',
                        '%s: edges used by faces but not listed %s, listed but unused %s' % (
                            site, miss, extra)))
    else:
        bad = [(k, t, raw_counts[k]) for k, t in zip(keys, et) if t + 1 != raw_counts[k]]
        if bad:
            k, t, c = bad[0]
            out.append(fail(case, 'edge type differs from incidence count',
                            '%s: edge %s has edge_type %d (= %d faces) but %d faces use it' % (
                                site, k, t, t + 1, c)))
    if ex['is_solid'] != raw_closed:
        out.append(fail(case, 'is_solid differs from all-edges-used-twice',
                        '%s: is_solid=%s but the incidence count says closed=%s' % (
                            site, ex['is_solid'], raw_closed)))
    # ---- B. the three edge lists
    for nm in ('naked', 'internal', 'non_manifold'):
        got = ex[nm]
        if got is None:
            out.append(fail(case, nm + '_edges has an end point that is no vertex',
                            '%s: a segment of %s_edges does not join two vertices' % (site, nm)))
            continue
        if sorted(got) != raw_classes[nm]:
            miss = sorted(set(raw_classes[nm]) - set(got))[:3]
            extra = sorted(set(got) - set(raw_classes[nm]))[:3]
            out.append(fail(case, nm + '_edges differs from incidence count',
                            '%s: %s_edges lacks %s, has wrongly %s (count: %d edges, got %d)' % (
                                site, nm, miss, extra, len(raw_classes[nm]), len(got))))
    if ex['all_edges'] is not None and sorted(ex['all_edges']) != sorted(raw_counts):
        out.append(fail(case, 'edges differs from incidence count',
                        '%s: .edges has %d segments, %d distinct edges are used' % (
                            site, len(ex['all_edges']), len(raw_counts))))
    # ---- C. against the generator's ground truth (decides the welding as well)
    mtol = REL * 100 * ex['scale']
    if case.get('jitter'):
        mtol = 0.3 * case['tol']
    gmap = VMap(ex['wverts'], mtol)
    ids = [gmap.find(v) for v in ex['raw_verts']]
    used = set(i for f in ex['gt'] for lp in f for i in lp)
    if None in ids or len(set(ids)) != len(ids) or not used <= set(ids) or \
            (site == 'Polyface3D.from_faces' and set(ids) != used):
        out.append(fail(case, 'vertices are not the welded input vertices',
                        '%s: %d vertices reported for %d distinct input vertices' % (
                            site, len(ids), len(used))))
    else:
        mapped = {}
        for k, c in raw_counts.items():
            mapped[und(ids[k[0]], ids[k[1]])] = c
        if mapped != gt_counts:
            diff = sorted(k for k in set(mapped) | set(gt_counts)
                          if mapped.get(k) != gt_counts.get(k))[:3]
            out.append(fail(case, 'incidence differs from ground truth',
                            '%s: edges %s are used %s times by the reported structure but %s '
                            'times by the input faces' % (
                                site, diff, [mapped.get(k) for k in diff],
                                [gt_counts.get(k) for k in diff])))
        # ---- D. the statement's clauses in their own words
        if case['closed']:
            if not ex['is_solid']:
                out.append(fail(case, 'closed but not is_solid',
                                '%s: a closed %d-face solid (%s) is reported is_solid=False' % (
                                    site, len(ex['gt']), case['solid']['kind'])))
            if ex['naked'] or ex['non_manifold'] or any(t != 1 for t in et):
                out.append(fail(case, 'closed but not all edges internal',
                                '%s: closed solid has %d naked and %d non-manifold edges' % (
                                    site, len(ex['naked'] or ()), len(ex['non_manifold'] or ()))))
        else:
            exp = {}
            solid = ex['solid']
            for f in solid.mfaces:
                for lp in f:
                    for k in range(len(lp)):
                        exp[und(lp[k - 1], lp[k])] = 2
            for fi in case['removed']:
                for lp in solid.mfaces[fi]:
                    for k in range(len(lp)):
                        exp[und(lp[k - 1], lp[k])] -= 1
            for fi in case['dups']:
                for lp in solid.mfaces[fi]:
                    for k in range(len(lp)):
                        exp[und(lp[k - 1], lp[k])] += 1
            exp = dict((k, v) for k, v in exp.items() if v > 0)
            if ex['is_solid']:
                out.append(fail(case, 'open but is_solid',
                                '%s: solid with faces %s removed and %s duplicated is reported '
                                'is_solid=True' % (site, case['removed'], case['dups'])))
            for nm, pred in (('naked', lambda c: c == 1), ('internal', lambda c: c == 2),
                             ('non_manifold', lambda c: c >= 3)):
                want = sorted(k for k, c in exp.items() if pred(c))
                got = ex[nm]
                if got is None:
                    continue
                got = sorted(und(ids[a], ids[b]) for (a, b) in got)
                if got != want:
                    out.append(fail(case, nm + ' edges are not exactly the affected ones',
                                    '%s: removed %s duplicated %s: %s edges expected %s got %s' % (
                                        site, case['removed'], case['dups'], nm, want[:4],
                                        got[:4])))
    if not case['closed'] or out or case.get('jitter'):
        # (welded stream: the faces close up only within the tolerance; topology only)
        return out
    # ---- E. faces, outward normals, volume
    solid, rigid = ex['solid'], ex['rigid']
    cont = ans[2][1]
    faces = ex['faces']
    if len(faces) != len(ex['gt']):
        out.append(fail(case, 'number of faces changed',
                        '%s: %d faces in, %d faces out' % (site, len(ex['gt']), len(faces))))
        return out
    model_by_set = {}
    for fi, f in enumerate(solid.mfaces):
        model_by_set[frozenset(i for lp in f for i in lp)] = fi
    vexact = F(0)
    surf = 0.0
    inward = []
    for k, (bnd, holes, nrm) in enumerate(faces):
        vs = [gmap.find(p) for p in bnd] + [gmap.find(p) for hl in holes for p in hl]
        fi = model_by_set.get(frozenset(vs)) if None not in vs else None
        if fi is None:
            out.append(fail(case, 'returned face is not an input face',
                            '%s: face %d of .faces is not one of the input faces' % (site, k)))
            return out
        if site in ('Polyface3D.from_faces', 'Polyface3D.__init__') and \
                fi != case['pres'][k]['f']:
            out.append(fail(case, 'faces are not in input order',
                            '%s: face %d of .faces is input face %d' % (site, k, fi)))
            return out
        found = None
        w = ex['wit'][fi]
        if w is not None:
            u, sp_, sm_, ix = w
            a1, a2 = cont[ix], cont[ix + 1]
            cp, cm = _cls3(a1[0], sp_), _cls3(a2[0], sm_)
            if a1[2] and a2[2] and cp * cm == -1:
                found = (u, cm)
        if found is None:
            stats['witness_skipped'] = stats.get('witness_skipped', 0) + 1
        else:
            u, cm = found
            outward = u if cm == 1 else H.vmul(u, -1)
            ow = rigid.rot(outward)
            d = sum(F(a) * b for a, b in zip(nrm, ow))
            stats['witness_checked'] = stats.get('witness_checked', 0) + 1
            if d <= 0:
                inward.append((k, fi, len(bnd), nrm))
        # exact divergence contribution with the reported normal
        fb = [tuple(F(c) for c in p) for p in bnd]
        nb = H.newell(fb)
        ntot = nb
        for hl in holes:
            nh = H.newell([tuple(F(c) for c in p) for p in hl])
            if H.vdot(nh, nb) > 0:
                nh = H.vmul(nh, -1)
            ntot = H.vadd(ntot, nh)
        s = H.vdot(nb, tuple(F(c) for c in nrm))
        sg = 1 if s > 0 else -1
        vexact += sg * H.vdot(fb[0], ntot)
        surf += math.sqrt(float(H.vdot(ntot, ntot))) / 2
    vexact = vexact / 6
    # classify inward faces: known degenerate test ray, or general position
    degenerate = False
    if inward:
        in_faces = None
        try:
            in_faces = outward_test_faces(case, ex)
        except Exception:       # noqa: E722
            in_faces = None
        clear, onface, bridge = [], [], []
        if in_faces is not None and len(in_faces) == len(faces):
            try:
                for (k, fi, nb_, nrm) in inward[:6]:
                    onface.append(test_point_on_face(in_faces, k))
                    clear.append(test_ray_clearance(in_faces, k, ex['scale']))
                    bridge.append(test_ray_bridge_clearance(in_faces, k, ex['scale']))
            except Exception:   # noqa: E722
                clear, onface, bridge = [], [], []
        # every examined inward face must belong to a known class for the case to count as known
        known = []
        for c, o, bg in zip(clear, onface, bridge):
            known.append(OFFFACE if not o else
                         (DEGENERATE if c <= 1e-6 * ex['scale'] else
                          (BRIDGE if bg is not None and bg <= 1e-6 * ex['scale'] else None)))
        degenerate = bool(known) and all(x is not None for x in known)
        klass = None
        if degenerate:
            klass = OFFFACE if OFFFACE in known else \
                (DEGENERATE if DEGENERATE in known else BRIDGE)
        for idx, (k, fi, nb_, nrm) in enumerate(inward):
            what = '%s: %s %s, face %d/%d (input face %d, %d vertices, given %s): normal %s ' \
                'points to the interior witness' % (
                    site, case['solid']['kind'], case['solid']['base_kind'], k, len(faces), fi,
                    nb_, 'flipped' if (k < len(case['pres']) and case['pres'][k]['flip'])
                    else 'as built', tuple(round(c, 4) for c in nrm))
            if degenerate:
                kk = known[min(idx, len(known) - 1)]
                if kk == OFFFACE:
                    what += '; the test point of get_outward_faces (face._point_on_face) is ' \
                        'not on the face'
                elif kk == BRIDGE:
                    what += '; the test ray of get_outward_faces meets another face on the ' \
                        'bridge between its boundary and a hole (%.3g away), where the merged ' \
                        '2D loop counts the point as outside' % bridge[min(idx, len(bridge) - 1)]
                else:
                    what += '; the test ray of get_outward_faces passes %.3g from an edge of ' \
                        'another face' % clear[min(idx, len(clear) - 1)]
                out.append(fail(case, 'face normal points into the solid', what,
                                sig=kk + 'face normal points into the solid', face=k,
                                ray_clearance=clear, test_point_on_face=onface,
                                repro=OFFFACE_REPRO if kk == OFFFACE else
                                BRIDGE_REPRO if kk == BRIDGE else PYRAMID_REPRO))
            else:
                out.append(fail(case, 'face normal points into the solid', what, face=k,
                                ray_clearance=clear, test_point_on_face=onface))
    if case.get('star') and not out:
        c = [sum(v[k] for v in solid.mverts) / len(solid.mverts) for k in range(3)]
        cw = rigid.apply(c)
        for k, (bnd, holes, nrm) in enumerate(faces):
            d = sum((cw[j] - F(bnd[0][j])) * F(nrm[j]) for j in range(3))
            if d >= 0:
                out.append(fail(case, 'face normal points to the interior point',
                                '%s: convex %s, face %d: (interior - face point) . normal = %.3g '
                                '>= 0' % (site, case['solid']['kind'], k, float(d)), face=k))
                break
    vol = solid.volume
    tolv = REL * max(float(vol), ex['scale'] * surf)
    if degenerate:
        v = ex['volume']
        if not isinstance(v, (int, float)) or v != v or abs(v - float(vol)) > tolv:
            out.append(fail(case, 'volume differs from enclosed volume',
                            '%s: %s %s (%d faces): volume = %r, enclosed volume = %.12g (faces %s '
                            'point inward after a known degenerate outward test)' % (
                                site, case['solid']['kind'], case['solid']['base_kind'],
                                len(faces), v, float(vol), [x[0] for x in inward]),
                            sig=klass + 'volume differs from enclosed volume',
                            repro=OFFFACE_REPRO if klass == OFFFACE else PYRAMID_REPRO))
        return out
    if vexact <= 0:
        out.append(fail(case, 'divergence volume with reported normals is not positive',
                        '%s: %s %s: exact volume taken with the reported normals = %.6g, '
                        'enclosed volume %.6g' % (site, case['solid']['kind'],
                                                  case['solid']['base_kind'], float(vexact),
                                                  float(vol))))
    elif abs(float(vexact - vol)) > tolv:
        out.append(fail(case, 'divergence volume differs from enclosed volume',
                        '%s: exact volume with reported normals %.12g, enclosed %.12g' % (
                            site, float(vexact), float(vol))))
    v = ex['volume']
    if not isinstance(v, (int, float)) or v != v or abs(v - float(vol)) > tolv:
        out.append(fail(case, 'volume differs from enclosed volume',
                        '%s: %s %s (%d faces): volume = %r, enclosed volume = %.12g' % (
                            site, case['solid']['kind'], case['solid']['base_kind'],
                            len(faces), v, float(vol))))
    return out


# ------------------------------------------------------------------ mesh cases
def random_mesh_case(rng, dim, big=False):
    nx, ny = rng.randint(1, 6 if not big else 12), rng.randint(1, 6 if not big else 12)
    verts = []
    lattice = rng.random() < 0.5
    for j in range(ny + 1):
        for i in range(nx + 1):
            x, y = float(i), float(j)
            if not lattice:
                x += rng.uniform(-0.3, 0.3)
                y += rng.uniform(-0.3, 0.3)
            if dim == 2:
                verts.append((x, y))
            else:
                verts.append((x, y, 0.0 if lattice else rng.uniform(-1, 1)))

    def vid(i, j):
        return j * (nx + 1) + i
    faces = []
    for j in range(ny):
        for i in range(nx):
            if rng.random() < 0.15:
                continue
            q = [vid(i, j), vid(i + 1, j), vid(i + 1, j + 1), vid(i, j + 1)]
            k = rng.random()
            if k < 0.5:
                fs = [q]
            elif k < 0.75:
                fs = [[q[0], q[1], q[2]], [q[0], q[2], q[3]]]
            else:
                fs = [[q[0], q[1], q[3]], [q[1], q[2], q[3]]]
            for f in fs:
                if rng.random() < 0.1:
                    continue
                f = H.rotate_start(f, rng.randrange(len(f)))
                if rng.random() < 0.5:
                    f = list(reversed(f))
                faces.append(tuple(f))
    if not faces:
        faces.append((vid(0, 0), vid(1, 0), vid(1, 1), vid(0, 1)))
    # fins (a third face on an existing edge) and duplicates
    extra = 0
    for _ in range(rng.randint(0, 3)):
        f = rng.choice(faces)
        k = rng.randrange(len(f))
        a, b = f[k - 1], f[k]
        if dim == 3:
            verts.append((verts[a][0] * 0.5 + verts[b][0] * 0.5,
                          verts[a][1] * 0.5 + verts[b][1] * 0.5, 2.0 + extra))
        else:
            verts.append((-2.0 - extra, -2.0 - 0.5 * extra))
        extra += 1
        faces.append((a, b, len(verts) - 1) if rng.random() < 0.5 else (b, a, len(verts) - 1))
    for _ in range(rng.randint(0, 2)):
        f = rng.choice(faces)
        faces.append(tuple(reversed(f)) if rng.random() < 0.5 else f)
    rng.shuffle(faces)
    return {'site': 'Mesh%dD' % dim, 'variant': 'random', 'verts': [[H.hx(c) for c in v]
                                                                 for v in verts],
            'faces': [list(f) for f in faces], 'closed': False}


def factory_mesh_case(rng):
    k = rng.randrange(5)
    if k == 0:
        m = Mesh2D.from_grid(Point2D(rng.uniform(-2, 2), rng.uniform(-2, 2)),
                             rng.randint(1, 6), rng.randint(1, 6),
                             rng.uniform(0.5, 2), rng.uniform(0.5, 2))
        nm = 'Mesh2D.from_grid'
    elif k == 1:
        loops = H.gen_base(rng, rng.choice(['star', 'convex', 'L', 'polyomino']),
                           rng.randint(4, 12))
        m = Mesh2D.from_polygon_triangulated(Polygon2D([Point2D(*p) for p in loops[0]]))
        nm = 'Mesh2D.from_polygon_triangulated'
    elif k == 2:
        loops = H.gen_base(rng, rng.choice(['star', 'convex', 'L', 'polyomino', 'ring']),
                           rng.randint(4, 12))
        f = Face3D([Point3D(p[0], p[1], 1.0) for p in loops[0]], None,
                   [[Point3D(p[0], p[1], 1.0) for p in lp] for lp in loops[1:]] or None)
        m = f.triangulated_mesh3d
        nm = 'Face3D.triangulated_mesh3d'
    elif k == 3:
        f = Face3D.from_rectangle(rng.uniform(3, 9), rng.uniform(3, 9))
        m = f.mesh_grid(rng.choice([1.0, 1.5, 2.0]))
        nm = 'Face3D.mesh_grid'
    else:
        m2 = Mesh2D.from_grid(Point2D(0, 0), rng.randint(1, 5), rng.randint(1, 5), 1.0, 1.5)
        m = Mesh3D.from_mesh2d(m2, Plane(Vector3D(0.2, 0.3, 1), Point3D(1, 2, 3)))
        nm = 'Mesh3D.from_mesh2d'
    dim = 2 if isinstance(m, Mesh2D) else 3
    return {'site': 'Mesh%dD' % dim, 'variant': nm,
            'verts': [[H.hx(c) for c in tup(v)] for v in m.vertices],
            'faces': [list(f) for f in m.faces], 'closed': False}, m


def execute_mesh(case, mesh=None):
    ex = {}
    site = case['site']
    try:
        verts = [tuple(H.unhx(c) for c in v) for v in case['verts']]
        faces = [tuple(f) for f in case['faces']]
        if mesh is None:
            if site == 'Mesh2D':
                mesh = Mesh2D([Point2D(*v) for v in verts], faces)
            elif site == 'Mesh3D':
                mesh = Mesh3D([Point3D(*v) for v in verts], faces)
            else:   # the same index structure as a polyface
                mesh = Polyface3D([Point3D(*v) for v in verts], [[f] for f in faces])
        scale = max([1.0] + [abs(c) for v in verts for c in v])
        vm = VMap([tuple(float(c) for c in v) + ((0.0,) if len(v) == 2 else ())
                   for v in verts], REL * scale)

        def ids(segs):
            out = []
            for s in segs:
                a = vm.find(tup(s.p1) + ((0.0,) if len(tup(s.p1)) == 2 else ()))
                b = vm.find(tup(s.p2) + ((0.0,) if len(tup(s.p2)) == 2 else ()))
                if a is None or b is None:
                    return None
                out.append(und(a, b))
            return out
        ex['naked'] = ids(mesh.naked_edges)
        ex['internal'] = ids(mesh.internal_edges)
        ex['non_manifold'] = ids(mesh.non_manifold_edges)
        ex['all_edges'] = ids(mesh.edges)
        if site == 'Polyface3D.__init__':
            ex['is_solid'] = mesh.is_solid
            ex['edge_indices'] = [tuple(e) for e in mesh.edge_indices]
            ex['edge_types'] = list(mesh.edge_types)
    except Exception as e:      # noqa: E722
        return [fail(case, 'raises ' + type(e).__name__,
                     '%s (%s) raised %s: %s' % (site, case['variant'], type(e).__name__,
                                                str(e)[:200]))], None
    return ex, [('spec.edgecount', [[[list(f)] for f in case['faces']]])]


def judge_mesh(case, ex, ans, stats):
    out = []
    if not ans[0][0]:
        raise RuntimeError('specification call failed: %s' % (ans[0][1],))
    counts, classes, closed = counts_from_lean(ans[0][1])
    site = case['site']
    for nm in ('naked', 'internal', 'non_manifold'):
        got = ex[nm]
        if got is None:
            out.append(fail(case, nm + '_edges has an end point that is no vertex',
                            '%s: a segment of %s_edges does not join two vertices' % (site, nm)))
            continue
        if sorted(got) != classes[nm]:
            miss = sorted(set(classes[nm]) - set(got))[:3]
            extra = sorted(set(got) - set(classes[nm]))[:3]
            out.append(fail(case, nm + '_edges differs from incidence count',
                            '%s (%d faces): %s_edges lacks %s, has wrongly %s (count says %d '
                            'edges, got %d)' % (site, len(case['faces']), nm, miss, extra,
                                                len(classes[nm]), len(got))))
    if ex['all_edges'] is not None and sorted(ex['all_edges']) != sorted(counts):
        out.append(fail(case, 'edges differs from incidence count',
                        '%s: .edges has %d segments, %d distinct edges are used' % (
                            site, len(ex['all_edges']), len(counts))))
    if 'is_solid' in ex:
        if ex['is_solid'] != closed:
            out.append(fail(case, 'is_solid differs from all-edges-used-twice',
                            '%s: is_solid=%s, count says %s' % (site, ex['is_solid'], closed)))
        keys = [und(a, b) for (a, b) in ex['edge_indices']]
        if sorted(keys) != sorted(counts) or any(
                t + 1 != counts[k] for k, t in zip(keys, ex['edge_types'])):
            out.append(fail(case, 'edge type differs from incidence count',
                            '%s: edge tables disagree with the count' % site))
    return out


# ------------------------------------------------------------------ driver of a run
def polyface_cases(rng, n_shapes, thorough):
    """Yield case dicts; every shape is shown in several presentations / variants."""
    for si in range(n_shapes):
        sp = random_solid_spec(rng, small=(si % 3 == 0))
        if sp is None:
            continue
        unit = rng.choice([1, 1, 1, F(1, 4), F(1, 8)])
        if unit != 1:
            sp = scale_spec(sp, unit)
        solid = solid_from_spec(sp)
        nf = len(solid.mfaces)
        if nf > 70:
            continue
        rigid = H.rand_rigid(rng, big=(rng.random() < 0.1))
        tol = rng.choice([1e-3, 1e-2, 0.005, rng.uniform(1e-3, 1e-2)])
        if unit != 1:
            tol = 1e-3
        star = sp['base_kind'] in ('convex', 'box') and len(sp['base']) == 1
        base = {'solid': sp, 'rigid': rigid.to_json(), 'tol': tol, 'removed': [], 'dups': [],
                'closed': True, 'star': star}
        # closed, from_faces, random presentation (2x) and the plain one
        for rep in range(2 if not thorough else 3):
            c = dict(base)
            c.update({'site': 'Polyface3D.from_faces', 'variant': 'closed',
                      'pres': random_presentation(rng, solid, plain=(rep == 2))})
            yield c
        c = dict(base)
        c.update({'site': 'Polyface3D.__init__', 'variant': 'closed',
                  'pres': random_presentation(rng, solid)})
        yield c
        # welding stream
        wv = [H.fl3(rigid.apply(v)) for v in solid.mverts]
        mind = min(cheb(a, b) for i, a in enumerate(wv) for b in wv[:i])
        if mind > 2.5 * tol:
            c = dict(base)
            c.update({'site': 'Polyface3D.from_faces', 'variant': 'closed-welded',
                      'pres': random_presentation(rng, solid),
                      'jitter': 'j%d' % rng.randrange(1 << 30)})
            yield c
        # open variants
        for rep in range(2 if not thorough else 3):
            pres = random_presentation(rng, solid)
            nrem = rng.choice([0, 1, 1, 2])
            ndup = rng.choice([0, 1, 2]) if nrem else rng.choice([1, 2])
            removed = sorted(rng.sample(range(nf), nrem))
            pres = [e for e in pres if e['f'] not in removed]
            cand = [e['f'] for e in pres]
            dups = sorted(rng.sample(cand, min(ndup, len(cand))))
            for fi in dups:
                src = [x for x in random_presentation(rng, solid) if x['f'] == fi][0]
                pres.insert(rng.randrange(len(pres) + 1), src)
            c = dict(base)
            c.update({'site': rng.choice(['Polyface3D.from_faces', 'Polyface3D.from_faces',
                                          'Polyface3D.__init__']),
                      'variant': 'open', 'pres': pres, 'removed': removed, 'dups': dups,
                      'closed': False})
            yield c
        # factories
        if sp['kind'] == 'prism':
            c = dict(base)
            e = random_presentation(rng, solid)
            top = [x for x in e if x['f'] == nf - 1][0]
            c.update({'site': 'Polyface3D.from_offset_face', 'variant': 'closed', 'pres': [top]})
            yield c
            if sp['base_kind'] == 'box':
                c = dict(base)
                c.update({'site': 'Polyface3D.from_box', 'variant': 'closed', 'pres': []})
                yield c


def case_key(c):
    if 'solid' in c:
        return (c['site'], c['variant'], repr(c['solid']['base']), c['solid']['kind'],
                repr(c['pres']), repr(c['rigid']))
    return (c['site'], c['variant'], repr(c['verts']), repr(c['faces']))


def nontrivial(c):
    if 'solid' not in c:
        return len(c['faces']) >= 2
    if not c['closed']:
        return True
    if c['site'] in ('Polyface3D.from_box', 'Polyface3D.from_offset_face'):
        return True
    return any(e['flip'] for e in c['pres']) and \
        [e['f'] for e in c['pres']] != sorted(e['f'] for e in c['pres'])


def run(ctx):
    seed = ctx.seed
    thorough = ctx.tier == 'thorough' or bool(ctx.broken)
    t0 = time.time()
    # fixed numbers of shapes (deterministic per seed); the clock is only a safety net.
    # The real-code phase takes ~14 s / ~330 s, the Lean batch ~0.8 x that.
    budget = 28.0 if not thorough else 450.0
    stop = min(ctx.deadline - 10, t0 + budget)
    rng = random.Random('%s/c07/shapes' % seed)
    rngm = random.Random('%s/c07/meshes' % seed)
    jobs = []           # (case, ex, request indices, kind)
    requests = []
    req_index = {}
    failures_raw = []
    hist = {'site': {}, 'variant': {}, 'solid_kind': {}, 'base_kind': {}, 'faces': {},
            'flipped_faces': {}, 'rigid': {}}
    seen = set()
    evaluations = 0
    nontriv = 0

    def bump(h, k):
        hist[h][k] = hist[h].get(k, 0) + 1

    def add(case, res, kind):
        nonlocal evaluations, nontriv
        ex, reqs = res
        evaluations += 1
        k = case_key(case)
        if k not in seen:
            seen.add(k)
            if nontrivial(case):
                nontriv += 1
        bump('site', case['site'])
        bump('variant', case['variant'])
        if 'solid' in case:
            bump('solid_kind', case['solid']['kind'])
            bump('base_kind', case['solid']['base_kind'])
            nfc = len(case['pres'])
            bump('faces', '%d-%d' % (nfc // 10 * 10, nfc // 10 * 10 + 9))
            bump('flipped_faces', min(sum(1 for e in case['pres'] if e['flip']), 10))
            q = case['rigid']['quat']
            bump('rigid', 'identity' if q == [1, 0, 0, 0] else 'rotated')
        else:
            bump('faces', '%d-%d' % (len(case['faces']) // 10 * 10,
                                     len(case['faces']) // 10 * 10 + 9))
        if reqs is None:
            failures_raw.extend(ex)
            return
        idx = []
        for rq in reqs:
            key = (rq[0], repr(rq[1]))
            if key not in req_index:
                req_index[key] = len(requests)
                requests.append(rq)
            idx.append(req_index[key])
        jobs.append((case, ex, idx, kind))

    # meshes first (cheap), then solids until the time budget is used
    n_mesh = 60 if not thorough else 600
    for i in range(n_mesh):
        if time.time() > stop:
            break
        try:
            if i % 4 == 3:
                case, m = factory_mesh_case(rngm)
                add(case, execute_mesh(case, m), 'mesh')
            else:
                case = random_mesh_case(rngm, 2 if i % 2 == 0 else 3, big=(thorough and i % 7 == 0))
                add(case, execute_mesh(case), 'mesh')
                if i % 4 == 1:
                    c2 = dict(case)
                    c2['site'] = 'Polyface3D.__init__'
                    c2['variant'] = 'mesh-structure'
                    add(c2, execute_mesh(c2), 'mesh')
        except AssertionError:
            continue
    n_shapes = 230 if not thorough else 4800
    for case in polyface_cases(rng, n_shapes, thorough):
        if time.time() > stop:
            break
        add(case, execute_polyface(case), 'polyface')
    answers = ctx.driver.run(requests) if requests else []
    stats = {}
    for (case, ex, idx, kind) in jobs:
        ans = [answers[i] for i in idx]
        try:
            if kind == 'mesh':
                failures_raw.extend(judge_mesh(case, ex, ans, stats))
            else:
                failures_raw.extend(judge_polyface(case, ex, ans, stats))
        except RuntimeError as e:
            stats['spec_errors'] = stats.get('spec_errors', 0) + 1
            stats['spec_error_sample'] = str(e)[:300]
    # one failure per signature: the smallest input
    best = {}
    for f in failures_raw:
        c = f['case']
        size = len(c['pres']) if 'pres' in c else len(c['faces'])
        if f['signature'] not in best or size < best[f['signature']][0]:
            best[f['signature']] = (size, f)
    failures = []
    for sig in sorted(best):
        f = dict(best[sig][1])
        f['seed'] = seed
        f['occurrences'] = sum(1 for x in failures_raw if x['signature'] == sig)
        failures.append(f)
    samples = [j[0] for j in jobs[:1]] + [j[0] for j in jobs[-2:]]
    hist['oracle'] = stats
    return {'evaluations': evaluations, 'distinct_nontrivial': nontriv,
            'rule': 'closed solids (prism/oblique prism/pyramid over star, spiky, convex, '
                    'polyomino (with holes), L, ring, box bases; 3..66 faces) in exact model '
                    'coordinates, rational rigid placement, presented to from_faces / the '
                    'constructor / from_offset_face / from_box with faces shuffled, flipped, '
                    'start-rotated (closed, welded, 1..2 faces removed and/or duplicated), plus '
                    'random tri/quad meshes with fins and duplicates and factory meshes; '
                    'non-trivial = distinct case that is open, or a factory, or closed with at '
                    'least one flipped face and a permuted face order, or a mesh with >= 2 faces',
            'samples': samples, 'failures': failures,
            'extra': {'histograms': hist, 'lean_requests': len(requests),
                      'driver_wall': round(ctx.driver.wall, 2)}}


def replay(ctx, failure):
    case = failure['case']
    if 'solid' in case:
        res = execute_polyface(case)
        judge = judge_polyface
    else:
        res = execute_mesh(case)
        judge = judge_mesh
    ex, reqs = res
    if reqs is None:
        found = ex
    else:
        ans = ctx.driver.run(reqs)
        found = judge(case, ex, ans, {})
    for f in found:
        if f['signature'] == failure['signature']:
            return f
    return found[0] if found else None
