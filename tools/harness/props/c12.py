"""C12 - closest points lie on the object and minimise distance (composite level, real code).

Routines driven on the real classes:
  closest_point / distance_to_point   LineSegment2D, Ray2D, LineSegment3D, Ray3D, Arc2D,
                                      Arc3D, Plane
  distance_to_point (+ from_edge)     Polygon2D (region semantics: 0 inside)
  closest_points_between_line /       LineSegment2D x LineSegment2D (non-crossing, documented),
  distance_to_line                    Plane x LineSegment3D / Ray3D
  pole_of_inaccessibility(tol)        Polygon2D, Face3D (hole-free)

Oracle (exact rational arithmetic on the float inputs, libm only for arc angles):
  on-object   the returned point lies on the object (parameter range / angular span / plane)
  minimal     it is no farther from the query than the exact clamped orthogonal projection
              (segments, rays, planes), the radial point / nearer end (arcs), the exact
              minimum over edges (polygons), the four end-point projections (segment pairs),
              and no farther than any of 200 samples along the object
  distances   >= 0, equal to |query - closest point|, zero for queries on the object, equal in
              both argument orders where both exist, 1-Lipschitz in the query
  pole        strictly interior (exact) and its exact distance to the boundary is at least the
              best of a 400-point interior search minus the requested precision (one-sided)
"""
import math
import random
import time
from fractions import Fraction as F

from ladybug_geometry.geometry2d.pointvector import Point2D, Vector2D
from ladybug_geometry.geometry2d.ray import Ray2D
from ladybug_geometry.geometry2d.line import LineSegment2D
from ladybug_geometry.geometry2d.arc import Arc2D
from ladybug_geometry.geometry2d.polygon import Polygon2D
from ladybug_geometry.geometry3d.pointvector import Point3D, Vector3D
from ladybug_geometry.geometry3d.ray import Ray3D
from ladybug_geometry.geometry3d.line import LineSegment3D
from ladybug_geometry.geometry3d.arc import Arc3D
from ladybug_geometry.geometry3d.plane import Plane
from ladybug_geometry.geometry3d.face import Face3D

from . import hxlib as hx

TOL = 1e-9
TWO_PI = 2 * math.pi
ASSUMPTIONS = [
    'objects are non-degenerate (direction vectors of length >= 0.05, radii >= 0.05, arcs '
    'spanning 0.2 .. 2pi-0.2 rad or full circles); coordinates up to 1e3',
    'segment-to-segment routines are only queried with segments that do not intersect '
    '(decided exactly), as documented',
    'queries exactly at the centre of an arc are excluded (every point of a circle is closest)',
    'Polygon2D.distance_to_point: queries whose (1, 1e-5) test ray passes within 1e-9 of a '
    'polygon vertex are excluded (documented fringe case of is_point_inside, property C08)',
    'pole_of_inaccessibility: the general stream uses polygons with area >= 20 x (largest '
    'dimension x tolerance); polygons below (largest dimension x tolerance) that still have a '
    'deep interior form a separate stream (variant area<max_dim*tol) - the implementation '
    'returns the bounding-box centre there, a listed known finding',
    'tolerance 1e-9 relative to the coordinate magnitude of the case',
]
TRUSTED = [
    'C12 composite oracle is a Python Fraction implementation (clamped projection, exact '
    'point-segment distance, exact containment); arc spans use libm atan2/cos/sin in double '
    'precision with a 1e-9 margin; no Lean executable specification at this level',
]
NSAMPLES = 200


# ------------------------------------------------------------------ helpers
def _rp(rng, dim, m):
    c = [rng.uniform(-m, m) for _ in range(dim)]
    return Point2D(*c) if dim == 2 else Point3D(*c)


def _rv(rng, dim, lo=0.05, hi=20.0):
    if dim == 2:
        u = hx.rand_unit2(rng)
    else:
        u = hx.rand_unit3(rng)
    if rng.random() < 0.15:
        ax = [0.0] * dim
        ax[rng.randrange(dim)] = rng.choice([1.0, -1.0])
        u = (Vector2D if dim == 2 else Vector3D)(*ax)
    return u * math.exp(rng.uniform(math.log(lo), math.log(hi)))


def _mag(rng):
    return rng.choice([1.0, 10.0, 100.0, 1e3])


def proj_param(q, p, v):
    """exact parameter of the orthogonal projection of q on the line p + t v"""
    return hx.dot(hx.sub(q, p), v) / hx.n2(v)


def clamp(t, lo, hi):
    if t < lo:
        return lo
    if hi is not None and t > hi:
        return hi
    return t


def d_line(q, p, v, hi):
    """exact squared distance of q to the segment (hi=1) / ray (hi=None) and the parameter"""
    t = clamp(proj_param(q, p, v), F(0), hi)
    c = hx.add(p, hx.mul(v, t))
    return hx.n2(hx.sub(q, c)), t


def fsq(x):
    return math.sqrt(float(x))


class Case(object):
    """Collects clause violations of one evaluation."""

    def __init__(self, site, variant, scale):
        self.site, self.variant, self.scale = site, variant, scale
        self.tol = TOL * scale
        self.out = []

    def fail(self, clause, detail):
        v = ('|' + self.variant) if self.variant else ''
        self.out.append(('%s%s|%s' % (self.site, v, clause), detail))


def pstr(p):
    return '(%s)' % ', '.join('%.12g' % float(c) for c in p)


# ------------------------------------------------------------------ line-likes
def line_queries(rng, obj, dim, is_ray):
    """Queries in every zone: before the start, inside, beyond the end, on the object."""
    p, v = obj.p, obj.v
    qs = []
    L = v.magnitude
    for zone in ('u<0', '0..1', 'u>1', 'u>>1', 'on', 'end1', 'end2', 'far'):
        if zone == 'u<0':
            t = -rng.uniform(0.01, 3)
        elif zone == '0..1':
            t = rng.uniform(0.0, 1.0)
        elif zone == 'u>1':
            t = 1 + rng.uniform(0.001, 3)
        elif zone == 'u>>1':
            t = rng.uniform(5, 500)
        elif zone == 'on':
            t = rng.uniform(0, 1) if not is_ray or rng.random() < 0.5 else rng.uniform(1, 50)
        elif zone == 'end1':
            t = 0.0
        elif zone == 'end2':
            t = 1.0
        else:
            t = rng.uniform(-2, 3)
        base = p + v * t
        if zone in ('on', 'end1', 'end2'):
            qs.append((zone, base))
            continue
        off = rng.choice([1e-6, 1e-3, 0.1, 1.0, 10.0]) * L if zone != 'far' else 1e3
        if dim == 2:
            nrm = Vector2D(-v.y, v.x).normalize() * (off * rng.choice([1, -1]))
        else:
            while True:
                w = v.cross(hx.rand_unit3(rng))
                if w.magnitude > 1e-3 * L:
                    break
            nrm = w.normalize() * off
        qs.append((zone, base + nrm))
    return qs


def check_line(obj, name, is_ray, zone, q, q2, fails_to):
    dim = len(tuple(obj.p))
    site = '%s.closest_point' % name
    scale = hx.mag_of(obj.p, obj.v, q, q2)
    cs = Case(site, '', scale)
    tol = cs.tol
    p, v, qe = hx.fx(obj.p), hx.fx(obj.v), hx.fx(q)
    hi = None if is_ray else F(1)
    r = hx.guarded(obj.closest_point, q)
    if r[0] == 'raise':
        cs.fail('raises ' + hx.exc_name(r[1]), '%r.closest_point%s raised %s' % (obj, pstr(q),
                                                                              r[1]))
        fails_to.extend(cs.out)
        return
    cp = hx.fx(r[1])
    # on the object
    d_on, t_on = d_line(cp, p, v, hi)
    if d_on > F(tol) ** 2:
        cs.fail('not-on-object', '%r.closest_point%s = %s is %.3g off the object (zone %s)' % (
            obj, pstr(q), pstr(cp), fsq(d_on), zone))
    # minimal: exact clamped projection
    dstar2, tstar = d_line(qe, p, v, hi)
    dstar = fsq(dstar2)
    dgot = fsq(hx.n2(hx.sub(qe, cp)))
    if dgot > dstar + tol:
        cs.fail('not-minimal', '%r.closest_point%s = %s at distance %.12g, the clamped '
                'projection (t = %.6g) is at %.12g (zone %s)' % (
                    obj, pstr(q), pstr(cp), dgot, float(tstar), dstar, zone))
    # samples along the object
    tmax = 1.0 if not is_ray else max(2.0, 2.0 * abs(float(proj_param(qe, p, v))))
    pf, vf, qf = tuple(obj.p), tuple(obj.v), tuple(q)
    best = None
    for i in range(NSAMPLES + 1):
        t = tmax * i / NSAMPLES
        d = math.sqrt(sum((pf[j] + t * vf[j] - qf[j]) ** 2 for j in range(dim)))
        if best is None or d < best[0]:
            best = (d, t)
    if dgot > best[0] + tol:
        cs.fail('not-minimal-vs-samples', '%r.closest_point%s at distance %.12g but the sample '
                't = %.6g is at %.12g' % (obj, pstr(q), dgot, best[1], best[0]))
    # distances
    dd = hx.guarded(obj.distance_to_point, q)
    if dd[0] == 'raise':
        cs.site = '%s.distance_to_point' % name
        cs.fail('raises ' + hx.exc_name(dd[1]), str(dd[1])[:200])
    else:
        cs.site = '%s.distance_to_point' % name
        d1 = dd[1]
        if not d1 >= 0:
            cs.fail('negative', 'distance_to_point%s = %r' % (pstr(q), d1))
        if abs(d1 - dstar) > tol:
            cs.fail('wrong-distance', '%r.distance_to_point%s = %.12g, exact %.12g (zone %s)' % (
                obj, pstr(q), d1, dstar, zone))
        if zone in ('on', 'end1', 'end2') and d1 > tol:
            cs.fail('nonzero-on-object', 'query on the object has distance %.3g' % d1)
        d2 = hx.guarded(obj.distance_to_point, q2)
        if d2[0] == 'ok':
            gap = hx.fdist(tuple(q), tuple(q2))
            if abs(d1 - d2[1]) > gap + tol:
                cs.fail('not-lipschitz', '%r: d%s = %.12g, d%s = %.12g, |q1 - q2| = %.6g' % (
                    obj, pstr(q), d1, pstr(q2), d2[1], gap))
        # both argument orders of the point-point distance
        a, b = q.distance_to_point(r[1]), r[1].distance_to_point(q)
        if abs(a - b) > tol:
            cs.site = 'Point%dD.distance_to_point' % dim
            cs.fail('asymmetric', '%s vs %s' % (a, b))
    fails_to.extend(cs.out)


# ------------------------------------------------------------------ arcs
def arc_angles(rng):
    span = rng.uniform(0.2, TWO_PI - 0.2)
    a1 = rng.uniform(0, TWO_PI)
    if rng.random() < 0.2:
        a1 = rng.choice([0.0, math.pi / 2, math.pi, 1.5 * math.pi, 3.0, 6.0])
    a2 = a1 + span
    if a2 > TWO_PI:
        a2 -= TWO_PI
    return a1, a2


def gen_arc2(rng):
    m = _mag(rng)
    c = _rp(rng, 2, m)
    r = math.exp(rng.uniform(math.log(0.05), math.log(30.0)))
    if rng.random() < 0.25:
        return Arc2D(c, r), 'circle'
    a1, a2 = arc_angles(rng)
    return Arc2D(c, r, a1, a2), 'inverted' if a2 < a1 else 'arc'


def arc_span(a):
    """(start angle, counter-clockwise span) of an Arc2D, from its defining angles only."""
    if a.a1 == 0 and a.a2 == TWO_PI:
        return 0.0, TWO_PI
    s = a.a2 - a.a1
    if s < 0:
        s += TWO_PI
    return a.a1, s


def arc_d_star(a, qx, qy):
    """Distance of the 2D point (qx, qy) (relative to the arc centre) to the arc, doubles."""
    a1, span = arc_span(a)
    rad = math.hypot(qx, qy)
    th = math.atan2(qy, qx)
    phi = (th - a1) % TWO_PI
    ends = []
    for ang in (a1, a1 + span):
        ends.append(math.hypot(qx - a.r * math.cos(ang), qy - a.r * math.sin(ang)))
    cand = list(ends)
    if span >= TWO_PI or phi <= span + 1e-9 or phi >= TWO_PI - 1e-9:
        cand.append(abs(rad - a.r))
    return min(cand)


def on_arc(a, px, py, tol):
    """(px, py) relative to the centre lies on the arc within tol."""
    a1, span = arc_span(a)
    rad = math.hypot(px, py)
    if abs(rad - a.r) > tol:
        return False, 'radius %.12g vs %.12g' % (rad, a.r)
    if span >= TWO_PI:
        return True, ''
    phi = (math.atan2(py, px) - a1) % TWO_PI
    slack = tol / a.r + 1e-12
    if phi <= span + slack or phi >= TWO_PI - slack:
        return True, ''
    return False, 'angle %.9g past the start, span %.9g' % (phi, span)


def arc_queries(rng, a):
    a1, span = arc_span(a)
    qs = []
    for zone in ('in-span-out', 'in-span-in', 'past-end', 'before-start', 'opposite', 'on',
                 'near-centre', 'far', 'p1', 'p2'):
        if zone in ('in-span-out', 'in-span-in', 'on'):
            ang = a1 + span * rng.uniform(0.02, 0.98)
        elif zone == 'past-end':
            ang = a1 + span + rng.uniform(0.0, 1.0) * (TWO_PI - span) * 0.5
        elif zone == 'before-start':
            ang = a1 - rng.uniform(0.0, 1.0) * (TWO_PI - span) * 0.5
        elif zone == 'opposite':
            ang = a1 + span + (TWO_PI - span) * rng.uniform(0.4, 0.6)
        elif zone == 'p1':
            ang = a1
        elif zone == 'p2':
            ang = a1 + span
        else:
            ang = rng.uniform(0, TWO_PI)
        if zone in ('on', 'p1', 'p2'):
            rad = a.r
        elif zone == 'in-span-in':
            rad = a.r * rng.uniform(0.05, 0.999)
        elif zone == 'near-centre':
            rad = a.r * 10.0 ** rng.uniform(-9, -2)
        elif zone == 'far':
            rad = a.r + 1e3
        else:
            rad = a.r * rng.choice([rng.uniform(1.001, 3), rng.uniform(0.2, 0.999)])
        qs.append((zone, rad * math.cos(ang), rad * math.sin(ang)))
    return qs


def check_arc2(a, variant, zone, q, q2, fails_to):
    scale = hx.mag_of(a.c, a.r, q, q2)
    cs = Case('Arc2D.closest_point', variant, scale)
    tol = cs.tol
    qx, qy = q.x - a.c.x, q.y - a.c.y
    r = hx.guarded(a.closest_point, q)
    if r[0] == 'raise':
        cs.fail('raises ' + hx.exc_name(r[1]), '%s closest_point%s raised %s' % (
            _arc_txt(a), pstr(q), r[1]))
        fails_to.extend(cs.out)
        return
    cp = r[1]
    ok, why = on_arc(a, cp.x - a.c.x, cp.y - a.c.y, tol)
    if not ok:
        cs.fail('not-on-object', '%s closest_point%s = %s is not on the arc: %s (zone %s)' % (
            _arc_txt(a), pstr(q), pstr(cp), why, zone))
    dstar = arc_d_star(a, qx, qy)
    dgot = math.hypot(cp.x - q.x, cp.y - q.y)
    if dgot > dstar + tol:
        cs.fail('not-minimal', '%s closest_point%s = %s at distance %.12g, exact %.12g '
                '(zone %s)' % (_arc_txt(a), pstr(q), pstr(cp), dgot, dstar, zone))
    a1, span = arc_span(a)
    best = min(math.hypot(qx - a.r * math.cos(a1 + span * i / NSAMPLES),
                          qy - a.r * math.sin(a1 + span * i / NSAMPLES))
               for i in range(NSAMPLES + 1))
    if dgot > best + tol:
        cs.fail('not-minimal-vs-samples', '%s closest_point%s at distance %.12g, a sample of '
                'the arc is at %.12g' % (_arc_txt(a), pstr(q), dgot, best))
    cs.site = 'Arc2D.distance_to_point'
    dd = hx.guarded(a.distance_to_point, q)
    if dd[0] == 'raise':
        cs.fail('raises ' + hx.exc_name(dd[1]), str(dd[1])[:200])
    else:
        d1 = dd[1]
        if not d1 >= 0:
            cs.fail('negative', '%r' % d1)
        if abs(d1 - dstar) > tol:
            cs.fail('wrong-distance', '%s distance_to_point%s = %.12g, exact %.12g (zone %s)' % (
                _arc_txt(a), pstr(q), d1, dstar, zone))
        if zone in ('on', 'p1', 'p2') and d1 > tol:
            cs.fail('nonzero-on-object', 'query on the arc has distance %.3g' % d1)
        d2 = hx.guarded(a.distance_to_point, q2)
        if d2[0] == 'ok':
            gap = hx.fdist(tuple(q), tuple(q2))
            if abs(d1 - d2[1]) > gap + tol:
                cs.fail('not-lipschitz', '%s: d%s = %.12g, d%s = %.12g, |q1 - q2| = %.6g' % (
                    _arc_txt(a), pstr(q), d1, pstr(q2), d2[1], gap))
    fails_to.extend(cs.out)


def _arc_txt(a):
    if isinstance(a, Arc2D):
        return 'Arc2D(c=%s, r=%.9g, a1=%.9g, a2=%.9g)' % (pstr(a.c), a.r, a.a1, a.a2)
    return 'Arc3D(o=%s, n=%s, r=%.9g, a1=%.9g, a2=%.9g)' % (
        pstr(a.plane.o), pstr(a.plane.n), a.radius, a.a1, a.a2)


def check_arc3(a, variant, zone, q, q2, fails_to):
    pl = a.plane
    scale = hx.mag_of(pl.o, a.radius, q, q2)
    cs = Case('Arc3D.closest_point', variant, scale)
    tol = cs.tol
    o, x, y, n = (tuple(pl.o), tuple(pl.x), tuple(pl.y), tuple(pl.n))

    def local(p):
        d = tuple(p[i] - o[i] for i in range(3))
        return (sum(d[i] * x[i] for i in range(3)), sum(d[i] * y[i] for i in range(3)),
                sum(d[i] * n[i] for i in range(3)))
    r = hx.guarded(a.closest_point, q)
    if r[0] == 'raise':
        cs.fail('raises ' + hx.exc_name(r[1]), '%s closest_point%s raised %s' % (
            _arc_txt(a), pstr(q), r[1]))
        fails_to.extend(cs.out)
        return
    cp = r[1]
    lx, ly, lz = local(tuple(cp))
    ok, why = on_arc(a.arc2d, lx, ly, tol)
    if abs(lz) > tol:
        ok, why = False, '%.3g off the arc plane' % lz
    if not ok:
        cs.fail('not-on-object', '%s closest_point%s = %s is not on the arc: %s (zone %s)' % (
            _arc_txt(a), pstr(q), pstr(cp), why, zone))
    qx, qy, qz = local(tuple(q))
    dstar = math.hypot(arc_d_star(a.arc2d, qx, qy), qz)
    dgot = hx.fdist(tuple(cp), tuple(q))
    if dgot > dstar + tol:
        cs.fail('not-minimal', '%s closest_point%s = %s at distance %.12g, exact %.12g '
                '(zone %s)' % (_arc_txt(a), pstr(q), pstr(cp), dgot, dstar, zone))
    a1, span = arc_span(a.arc2d)
    rr = a.radius
    best = min(math.sqrt((qx - rr * math.cos(a1 + span * i / NSAMPLES)) ** 2 +
                         (qy - rr * math.sin(a1 + span * i / NSAMPLES)) ** 2 + qz * qz)
               for i in range(NSAMPLES + 1))
    if dgot > best + tol:
        cs.fail('not-minimal-vs-samples', '%s closest_point%s at distance %.12g, a sample of '
                'the arc is at %.12g' % (_arc_txt(a), pstr(q), dgot, best))
    cs.site = 'Arc3D.distance_to_point'
    dd = hx.guarded(a.distance_to_point, q)
    if dd[0] == 'raise':
        cs.fail('raises ' + hx.exc_name(dd[1]), str(dd[1])[:200])
    else:
        d1 = dd[1]
        if not d1 >= 0:
            cs.fail('negative', '%r' % d1)
        if abs(d1 - dstar) > tol:
            cs.fail('wrong-distance', '%s distance_to_point%s = %.12g, exact %.12g (zone %s)' % (
                _arc_txt(a), pstr(q), d1, dstar, zone))
        if zone in ('on', 'p1', 'p2') and d1 > tol:
            cs.fail('nonzero-on-object', 'query on the arc has distance %.3g' % d1)
        d2 = hx.guarded(a.distance_to_point, q2)
        if d2[0] == 'ok':
            gap = hx.fdist(tuple(q), tuple(q2))
            if abs(d1 - d2[1]) > gap + tol:
                cs.fail('not-lipschitz', '%s: d%s = %.12g, d%s = %.12g, |q1 - q2| = %.6g' % (
                    _arc_txt(a), pstr(q), d1, pstr(q2), d2[1], gap))
    fails_to.extend(cs.out)


# ------------------------------------------------------------------ planes
def check_plane_point(pl, q, q2, on, fails_to):
    scale = hx.mag_of(pl.o, q, q2)
    cs = Case('Plane.closest_point', '', scale)
    tol = cs.tol
    n, k = hx.fx(pl.n), F(pl.k)
    nn = fsq(hx.n2(n))
    qe = hx.fx(q)
    dstar = abs(float(hx.dot(n, qe) - k)) / nn
    r = hx.guarded(pl.closest_point, q)
    if r[0] == 'raise':
        cs.fail('raises ' + hx.exc_name(r[1]), str(r[1])[:200])
        fails_to.extend(cs.out)
        return
    cp = hx.fx(r[1])
    off = abs(float(hx.dot(n, cp) - k)) / nn
    if off > tol:
        cs.fail('not-on-object', '%r.closest_point%s = %s is %.3g off the plane' % (
            pl, pstr(q), pstr(cp), off))
    dgot = fsq(hx.n2(hx.sub(qe, cp)))
    if dgot > dstar + tol:
        cs.fail('not-minimal', '%r.closest_point%s = %s at distance %.12g, exact %.12g' % (
            pl, pstr(q), pstr(cp), dgot, dstar))
    # samples of the plane around the foot point
    rng = random.Random(repr(tuple(q)))
    best = None
    for i in range(NSAMPLES):
        u, v = rng.uniform(-1, 1) * (dstar + 1), rng.uniform(-1, 1) * (dstar + 1)
        s = pl.xy_to_xyz(Point2D(float(r[1].x) * 0 + u, v))
        fq = pl.xyz_to_xy(q)
        s = pl.xy_to_xyz(Point2D(fq.x + u, fq.y + v))
        d = hx.fdist(tuple(s), tuple(q))
        if best is None or d < best:
            best = d
    if dgot > best + tol:
        cs.fail('not-minimal-vs-samples', 'closest point at %.12g, a plane sample at %.12g' % (
            dgot, best))
    cs.site = 'Plane.distance_to_point'
    dd = hx.guarded(pl.distance_to_point, q)
    if dd[0] == 'raise':
        cs.fail('raises ' + hx.exc_name(dd[1]), str(dd[1])[:200])
    else:
        d1 = dd[1]
        if not d1 >= 0:
            cs.fail('negative', '%r' % d1)
        if abs(d1 - dstar) > tol:
            cs.fail('wrong-distance', '%r.distance_to_point%s = %.12g, exact %.12g' % (
                pl, pstr(q), d1, dstar))
        if on and d1 > tol:
            cs.fail('nonzero-on-object', 'query on the plane has distance %.3g' % d1)
        d2 = hx.guarded(pl.distance_to_point, q2)
        if d2[0] == 'ok':
            gap = hx.fdist(tuple(q), tuple(q2))
            if abs(d1 - d2[1]) > gap + tol:
                cs.fail('not-lipschitz', 'd%s = %.12g, d%s = %.12g, |q1 - q2| = %.6g' % (
                    pstr(q), d1, pstr(q2), d2[1], gap))
    fails_to.extend(cs.out)


def check_plane_line(pl, lr, is_ray, fails_to):
    name = 'Ray3D' if is_ray else 'LineSegment3D'
    scale = hx.mag_of(pl.o, lr.p, lr.v if not is_ray else 0, lr.p + lr.v)
    cs = Case('Plane.closest_points_between_line', name, scale)
    tol = cs.tol
    n, k = hx.fx(pl.n), F(pl.k)
    nn = fsq(hx.n2(n))
    p, v = hx.fx(lr.p), hx.fx(lr.v)
    s0 = hx.dot(n, p) - k
    dv = hx.dot(n, v)
    s1 = s0 + dv
    margin = F(TOL * scale)
    if is_ray:
        if s0 == 0 or (s0 > 0) != (dv > 0) and dv != 0:
            truth = 'intersect'
        else:
            truth = 'apart'
        dstar = abs(float(s0)) / nn
        # a ray that is parallel to the plane within 1e-9 may or may not reach it
        ambiguous = abs(s0) <= margin * F(nn) or \
            dv * dv <= F(TOL) ** 2 * hx.n2(n) * hx.n2(v)
    else:
        truth = 'intersect' if (s0 <= 0 <= s1 or s1 <= 0 <= s0) else 'apart'
        dstar = float(min(abs(s0), abs(s1))) / nn
        ambiguous = min(abs(s0), abs(s1)) <= margin * F(nn)
    r = hx.guarded(pl.closest_points_between_line, lr)
    d = hx.guarded(pl.distance_to_line, lr)
    if r[0] == 'raise' or d[0] == 'raise':
        e = r[1] if r[0] == 'raise' else d[1]
        cs.fail('raises ' + hx.exc_name(e), '%r, %r: %s' % (pl, lr, str(e)[:200]))
        fails_to.extend(cs.out)
        return truth
    res, dist = r[1], d[1]
    if not dist >= 0:
        cs.fail('negative', 'distance_to_line = %r' % dist)
    if res is None:
        if truth == 'apart' and not ambiguous:
            cs.fail('missed', '%r / %r: reported as intersecting, exact distance %.6g' % (
                pl, lr, dstar))
        if dist != 0:
            cs.fail('wrong-distance', 'intersection reported but distance_to_line = %r' % dist)
    else:
        a, b = hx.fx(res[0]), hx.fx(res[1])
        if truth == 'intersect' and not ambiguous:
            cs.fail('false-gap', '%r / %r intersect exactly, but a closest pair %s, %s was '
                    'returned' % (pl, lr, pstr(a), pstr(b)))
        d_on, t = d_line(a, p, v, None if is_ray else F(1))
        if d_on > F(tol) ** 2:
            cs.fail('not-on-object', 'first point %s is %.3g off the %s' % (pstr(a), fsq(d_on),
                                                                          name))
        offb = abs(float(hx.dot(n, b) - k)) / nn
        if offb > tol:
            cs.fail('not-on-object', 'second point %s is %.3g off the plane' % (pstr(b), offb))
        dgot = fsq(hx.n2(hx.sub(a, b)))
        if truth == 'apart' and not (is_ray and ambiguous) and dgot > dstar + tol:
            cs.fail('not-minimal', '%r / %r: pair at distance %.12g, exact minimum %.12g' % (
                pl, lr, dgot, dstar))
        if abs(dist - dgot) > tol:
            cs.fail('wrong-distance', 'distance_to_line = %.12g but the pair is %.12g apart' % (
                dist, dgot))
        if truth == 'apart':
            # samples along the line
            tmax = 1.0 if not is_ray else 50.0
            best = min(abs(float(s0 + dv * F(tmax * i / NSAMPLES))) / nn
                       for i in range(NSAMPLES + 1))
            if dgot > best + tol:
                cs.fail('not-minimal-vs-samples', 'pair at %.12g, a sample of the line is '
                        '%.12g from the plane' % (dgot, best))
    fails_to.extend(cs.out)
    return truth


# ------------------------------------------------------------------ segment pairs
def seg_pair(rng):
    """Two non-intersecting 2D segments (exact) + configuration label."""
    for _ in range(100):
        m = _mag(rng)
        a = LineSegment2D(_rp(rng, 2, m), _rv(rng, 2))
        kind = rng.choice(['random', 'random', 'parallel', 'collinear', 'near-touch', 'T',
                           'far'])
        if kind == 'random':
            b = LineSegment2D(a.p + _rv(rng, 2, 0.05, 30), _rv(rng, 2))
        elif kind == 'parallel':
            off = Vector2D(-a.v.y, a.v.x).normalize() * rng.uniform(0.01, 5) * rng.choice([1, -1])
            b = LineSegment2D(a.p + a.v * rng.uniform(-2, 2) + off,
                              a.v * (rng.uniform(0.2, 3) * rng.choice([1, -1])))
        elif kind == 'collinear':
            b = LineSegment2D(a.p + a.v * rng.uniform(1.05, 4), a.v * rng.uniform(0.2, 3))
        elif kind == 'near-touch':
            t = rng.uniform(0.1, 0.9)
            nrm = Vector2D(-a.v.y, a.v.x).normalize()
            start = a.p + a.v * t + nrm * 10.0 ** rng.uniform(-6, -1)
            d = hx.rand_unit2(rng)
            if d.dot(nrm) < 0:
                d = d * -1
            b = LineSegment2D(start, d * rng.uniform(0.1, 5) + nrm * 0.01)
        elif kind == 'T':
            t = rng.uniform(-0.5, 1.5)
            nrm = Vector2D(-a.v.y, a.v.x).normalize()
            b = LineSegment2D(a.p + a.v * t + nrm * rng.uniform(0.05, 3), nrm * rng.uniform(0.1, 4))
        else:
            b = LineSegment2D(a.p + _rv(rng, 2, 100, 1000), _rv(rng, 2))
        ea, eb = (hx.fx(a.p1), hx.fx(a.p2)), (hx.fx(b.p1), hx.fx(b.p2))
        if hx.segs_intersect(ea[0], ea[1], eb[0], eb[1]):
            continue
        if rng.random() < 0.5:
            a, b = b, a
        return a, b, kind
    raise RuntimeError('no segment pair')


def check_seg_pair(a, b, kind, fails_to):
    scale = hx.mag_of(a.p1, a.p2, b.p1, b.p2)
    cs = Case('LineSegment2D.closest_points_between_line', '', scale)
    tol = cs.tol
    A = (hx.fx(a.p1), hx.fx(a.p2))
    B = (hx.fx(b.p1), hx.fx(b.p2))
    dstar2 = min(hx.pt_seg_d2(A[0], B[0], B[1]), hx.pt_seg_d2(A[1], B[0], B[1]),
                 hx.pt_seg_d2(B[0], A[0], A[1]), hx.pt_seg_d2(B[1], A[0], A[1]))
    dstar = fsq(dstar2)
    r = hx.guarded(a.closest_points_between_line, b)
    d = hx.guarded(a.distance_to_line, b)
    d_rev = hx.guarded(b.distance_to_line, a)
    for g in (r, d, d_rev):
        if g[0] == 'raise':
            cs.fail('raises ' + hx.exc_name(g[1]), '%r / %r: %s' % (a, b, str(g[1])[:200]))
            fails_to.extend(cs.out)
            return
    pa, pb = hx.fx(r[1][0]), hx.fx(r[1][1])
    if hx.pt_seg_d2(pa, A[0], A[1]) > F(tol) ** 2:
        cs.fail('not-on-object', '%r / %r (%s): first point %s is not on the first segment' % (
            a, b, kind, pstr(pa)))
    if hx.pt_seg_d2(pb, B[0], B[1]) > F(tol) ** 2:
        cs.fail('not-on-object', '%r / %r (%s): second point %s is not on the second segment' % (
            a, b, kind, pstr(pb)))
    dgot = fsq(hx.n2(hx.sub(pa, pb)))
    if dgot > dstar + tol:
        cs.fail('not-minimal', '%r / %r (%s): pair at distance %.12g, exact minimum %.12g' % (
            a, b, kind, dgot, dstar))
    # 200 sample pairs
    ap, av, bp, bv = tuple(a.p), tuple(a.v), tuple(b.p), tuple(b.v)
    best = None
    for i in range(15):
        for j in range(14):
            s, t = i / 14.0, j / 13.0
            dd = math.hypot(ap[0] + s * av[0] - bp[0] - t * bv[0],
                            ap[1] + s * av[1] - bp[1] - t * bv[1])
            if best is None or dd < best:
                best = dd
    if dgot > best + tol:
        cs.fail('not-minimal-vs-samples', '%r / %r: pair at %.12g, a sample pair at %.12g' % (
            a, b, dgot, best))
    cs.site = 'LineSegment2D.distance_to_line'
    if not d[1] >= 0:
        cs.fail('negative', '%r' % d[1])
    if abs(d[1] - dstar) > tol:
        cs.fail('wrong-distance', '%r / %r (%s): distance_to_line = %.12g, exact %.12g' % (
            a, b, kind, d[1], dstar))
    if abs(d[1] - d_rev[1]) > tol:
        cs.fail('asymmetric', '%r / %r (%s): %.12g one way, %.12g the other' % (
            a, b, kind, d[1], d_rev[1]))
    fails_to.extend(cs.out)


# ------------------------------------------------------------------ polygons
def gen_polygon(rng):
    m = rng.choice([0.0, 10.0, 100.0, 1e3])
    ox, oy = rng.uniform(-m, m), rng.uniform(-m, m)
    if rng.random() < 0.2:
        b, hs = hx.gen_holed(rng, 1, 8)
        b = [(x + ox, y + oy) for x, y in b]
        h = [(x + ox, y + oy) for x, y in hs[0]]
        poly = Polygon2D.from_shape_with_hole([Point2D(*p) for p in b], [Point2D(*p) for p in h])
        return poly, 'hole'
    pts, kind = hx.gen_loop(rng, 12)
    pts = [(x + ox, y + oy) for x, y in pts]
    if rng.random() < 0.5:
        pts = list(reversed(pts))
    return Polygon2D([Point2D(*p) for p in pts]), kind


def grazes_vertex(q, loop, margin):
    """the (1, 1e-5) test ray from q passes within margin of a vertex of the loop"""
    d = (F(1), F(0.00001))
    dd = hx.n2(d)
    m2 = F(margin) ** 2
    for v in loop:
        w = hx.sub(v, q)
        if hx.n2(w) <= m2:          # the query is (at) this vertex: distance 0 either way
            continue
        if hx.dot(w, d) < -F(margin):
            continue
        cr = hx.det2(d, w)
        if cr * cr <= m2 * dd:
            return True
    return False


def check_polygon(poly, kind, q, q2, zone, fails_to):
    scale = hx.mag_of(poly.vertices, q, q2)
    cs = Case('Polygon2D.distance_to_point', '', scale)
    tol = cs.tol
    loop = [hx.fx(p) for p in poly.vertices]
    qe = hx.fx(q)
    if grazes_vertex(qe, loop, tol) or grazes_vertex(hx.fx(q2), loop, tol):
        return False
    edge = fsq(hx.loop_d2(qe, loop))
    inside = hx.in_loop(qe, loop) >= 0
    dstar = 0.0 if inside else edge
    r = hx.guarded(poly.distance_to_point, q)
    e = hx.guarded(poly.distance_from_edge_to_point, q)
    if r[0] == 'raise' or e[0] == 'raise':
        x = r[1] if r[0] == 'raise' else e[1]
        cs.fail('raises ' + hx.exc_name(x), str(x)[:200])
        fails_to.extend(cs.out)
        return True
    if not r[1] >= 0:
        cs.fail('negative', '%r' % r[1])
    # near the boundary either classification gives a value within the edge distance
    if abs(r[1] - dstar) > tol and not (edge <= tol):
        cs.fail('wrong-distance', 'Polygon2D(%s) (%s).distance_to_point%s = %.12g, exact %.12g '
                '(%s, zone %s)' % (', '.join(pstr(p) for p in poly.vertices), kind, pstr(q),
                                   r[1], dstar, 'inside' if inside else 'outside', zone))
    if abs(e[1] - edge) > tol:
        cs.site = 'Polygon2D.distance_from_edge_to_point'
        cs.fail('wrong-distance', 'Polygon2D(%s).distance_from_edge_to_point%s = %.12g, exact '
                '%.12g' % (', '.join(pstr(p) for p in poly.vertices), pstr(q), e[1], edge))
        cs.site = 'Polygon2D.distance_to_point'
    r2 = hx.guarded(poly.distance_to_point, q2)
    if r2[0] == 'ok':
        gap = hx.fdist(tuple(q), tuple(q2))
        if abs(r[1] - r2[1]) > gap + tol:
            cs.fail('not-lipschitz', 'Polygon2D(%s): d%s = %.12g, d%s = %.12g, |q1 - q2| = %.6g'
                    % (', '.join(pstr(p) for p in poly.vertices), pstr(q), r[1], pstr(q2),
                       r2[1], gap))
    fails_to.extend(cs.out)
    return True


POLE_TOL = 0.01


def gen_pole_polygon(rng):
    kind = rng.choice(['loop', 'loop', 'dumbbell', 'L', 'U', 'rect', 'bigstar'])
    if kind == 'loop':
        pts, k = hx.gen_loop(rng, 14)
        kind = k
    elif kind == 'bigstar':
        pts = hx.gen_star(rng, rng.randint(6, 20), 0, 0, 1.5, 8.0)
    elif kind == 'dumbbell':
        a, b, w, g = rng.uniform(2, 5), rng.uniform(2, 5), rng.uniform(0.3, 1.2), rng.uniform(2, 6)
        pts = [(0, 0), (a, 0), (a, (a - w) / 2), (a + g, (a - w) / 2), (a + g, (a - b) / 2),
               (a + g + b, (a - b) / 2), (a + g + b, (a + b) / 2), (a + g, (a + b) / 2),
               (a + g, (a + w) / 2), (a, (a + w) / 2), (a, a), (0, a)]
    elif kind == 'L':
        w, h, a, b = rng.uniform(3, 8), rng.uniform(3, 8), rng.uniform(0.5, 2.5), \
            rng.uniform(0.5, 2.5)
        pts = [(0, 0), (w, 0), (w, b), (a, b), (a, h), (0, h)]
    elif kind == 'U':
        w, h, a, d = rng.uniform(5, 9), rng.uniform(3, 7), rng.uniform(0.6, 2), rng.uniform(0.6, 2)
        pts = [(0, 0), (w, 0), (w, h), (w - a, h), (w - a, d), (a, d), (a, h), (0, h)]
    else:
        w, h = rng.uniform(0.5, 9), rng.uniform(0.5, 9)
        pts = [(0, 0), (w, 0), (w, h), (0, h)]
    ang = rng.choice([0.0, rng.uniform(0, TWO_PI)])
    m = rng.choice([0.0, 10.0, 1e3])
    ox, oy = rng.uniform(-m, m), rng.uniform(-m, m)
    pts = [(x + ox, y + oy) for x, y in hx.rot_loop(pts, ang)]
    if not hx.valid_loop(pts):
        return None, kind
    if rng.random() < 0.5:
        pts = list(reversed(pts))
    return pts, kind


def pole_oracle(pts, pole2, tolerance):
    """-> None or (clause, detail); pts float loop, pole2 exact 2-tuple."""
    loop = [hx.fx(p) for p in pts]
    if hx.in_loop(pole2, loop) <= 0:
        return ('pole-not-interior', 'pole %s is not strictly inside the polygon %s' % (
            pstr(pole2), ', '.join(pstr(p) for p in pts)))
    dp = fsq(hx.loop_d2(pole2, loop))
    xs, ys = [p[0] for p in pts], [p[1] for p in pts]
    x0, x1, y0, y1 = min(xs), max(xs), min(ys), max(ys)
    n = len(pts)
    best, arg = -1.0, None
    for i in range(20):
        for j in range(20):
            x = x0 + (x1 - x0) * (i + 0.5) / 20
            y = y0 + (y1 - y0) * (j + 0.5) / 20
            inside = False
            dmin = None
            for k in range(n):
                ax, ay = pts[k - 1]
                bx, by = pts[k]
                if (ay > y) != (by > y) and x < (bx - ax) * (y - ay) / (by - ay) + ax:
                    inside = not inside
                vx, vy = bx - ax, by - ay
                t = ((x - ax) * vx + (y - ay) * vy) / (vx * vx + vy * vy)
                t = 0.0 if t < 0 else 1.0 if t > 1 else t
                d = math.hypot(x - ax - t * vx, y - ay - t * vy)
                if dmin is None or d < dmin:
                    dmin = d
            if inside and dmin > best:
                best, arg = dmin, (x, y)
    if arg is not None:
        # confirm the best sample exactly before using it as a lower bound of the optimum
        ea = hx.fx(arg)
        if hx.in_loop(ea, loop) > 0:
            bexact = fsq(hx.loop_d2(ea, loop))
            if dp < bexact - tolerance - 1e-9 * hx.mag_of(pts):
                return ('pole-not-optimal', 'pole %s is %.9g from the boundary, the interior '
                        'point %s is %.9g away (precision %.3g); polygon %s' % (
                            pstr(pole2), dp, pstr(arg), bexact, tolerance,
                            ', '.join(pstr(p) for p in pts)))
    return None


def check_pole(pts, kind, use_face, rng, fails_to, variant=''):
    site = 'Face3D.pole_of_inaccessibility' if use_face else 'Polygon2D.pole_of_inaccessibility'
    cs = Case(site, variant, hx.mag_of(pts))
    if use_face:
        pl, pk = hx.rand_plane(rng, rng.choice([1.0, 100.0]))
        f = hx.guarded(lambda: Face3D(hx.to3d(pl, pts)))
        if f[0] == 'raise':
            return
        face = f[1]
        r = hx.guarded(face.pole_of_inaccessibility, POLE_TOL)
        if r[0] == 'raise':
            cs.fail('raises ' + hx.exc_name(r[1]), str(r[1])[:200])
            fails_to.extend(cs.out)
            return
        fr = hx.frame_of(face.plane)
        p3 = hx.fx(r[1])
        off = abs(float(hx.dot(fr[3], hx.sub(p3, fr[0]))))
        cs.scale = hx.mag_of(face.vertices)
        if off > TOL * cs.scale:
            cs.fail('pole-not-in-plane', 'pole %s is %.3g off the face plane' % (pstr(p3), off))
        pole2 = hx.to2d_exact(fr, p3)
        loop2 = [tuple(float(c) for c in hx.to2d_exact(fr, hx.fx(v))) for v in face.boundary]
        res = pole_oracle(loop2, pole2, POLE_TOL)
    else:
        poly = Polygon2D([Point2D(*p) for p in pts])
        r = hx.guarded(poly.pole_of_inaccessibility, POLE_TOL)
        if r[0] == 'raise':
            cs.fail('raises ' + hx.exc_name(r[1]), 'Polygon2D(%s): %s' % (
                ', '.join(pstr(p) for p in pts), str(r[1])[:200]))
            fails_to.extend(cs.out)
            return
        res = pole_oracle(pts, hx.fx(r[1]), POLE_TOL)
    if res is not None:
        cs.fail(res[0], '%s: %s' % (kind, res[1]))
    fails_to.extend(cs.out)


# ------------------------------------------------------------------ streams
def _q2(rng, q, dim):
    step = 10.0 ** rng.uniform(-7, 1.3)
    d = _rv(rng, dim, 1.0, 1.0)
    return q + d * step


def stream_lines(rng, hist, fails_to):
    dim = rng.choice([2, 3])
    is_ray = rng.random() < 0.5
    m = _mag(rng)
    p, v = _rp(rng, dim, m), _rv(rng, dim)
    cls = {(2, False): LineSegment2D, (2, True): Ray2D, (3, False): LineSegment3D,
           (3, True): Ray3D}[(dim, is_ray)]
    obj = cls(p, v)
    n = 0
    for zone, q in line_queries(rng, obj, dim, is_ray):
        check_line(obj, cls.__name__, is_ray, zone, q, _q2(rng, q, dim), fails_to)
        hx.hist_add(hist['line_zone'], '%s/%s' % (cls.__name__, zone))
        n += 1
    return n, ('%s %r' % (cls.__name__, obj))


def stream_arcs(rng, hist, fails_to):
    a2, variant = gen_arc2(rng)
    n = 0
    if rng.random() < 0.5:
        for zone, qx, qy in arc_queries(rng, a2):
            q = Point2D(a2.c.x + qx, a2.c.y + qy)
            check_arc2(a2, variant, zone, q, _q2(rng, q, 2), fails_to)
            hx.hist_add(hist['arc_zone'], 'Arc2D/%s/%s' % (variant, zone))
            n += 1
        return n, _arc_txt(a2)
    pl, pk = hx.rand_plane(rng, _mag(rng))
    a3 = Arc3D(pl, a2.r, a2.a1, a2.a2)
    for zone, qx, qy in arc_queries(rng, a2):
        h = rng.choice([0.0, 1e-6, 0.3, 5.0, -2.0, 300.0]) if zone not in ('on', 'p1', 'p2') \
            else 0.0
        q = pl.xy_to_xyz(Point2D(qx, qy)) + pl.n * h
        check_arc3(a3, variant, zone, q, _q2(rng, q, 3), fails_to)
        hx.hist_add(hist['arc_zone'], 'Arc3D/%s/%s' % (variant, zone))
        n += 1
    return n, _arc_txt(a3)


def stream_planes(rng, hist, fails_to):
    pl, pk = hx.rand_plane(rng, _mag(rng))
    n = 0
    for i in range(4):
        on = i == 0
        if on:
            q = pl.xy_to_xyz(Point2D(rng.uniform(-50, 50), rng.uniform(-50, 50)))
        else:
            q = pl.xy_to_xyz(Point2D(rng.uniform(-50, 50), rng.uniform(-50, 50))) + \
                pl.n * (rng.choice([1, -1]) * 10.0 ** rng.uniform(-6, 3))
        check_plane_point(pl, q, _q2(rng, q, 3), on, fails_to)
        n += 1
    hx.hist_add(hist['plane_kind'], pk, 4)
    for i in range(6):
        is_ray = rng.random() < 0.5
        kind = rng.choice(['random', 'parallel', 'crossing', 'toward', 'away'])
        base = pl.xy_to_xyz(Point2D(rng.uniform(-20, 20), rng.uniform(-20, 20)))
        h = rng.choice([1, -1]) * 10.0 ** rng.uniform(-3, 2)
        p = base + pl.n * h
        if kind == 'parallel':
            v = (pl.x * rng.uniform(-3, 3) + pl.y * rng.uniform(0.1, 3))
        elif kind == 'crossing':
            v = pl.n * (-h * rng.uniform(1.2, 4)) + pl.x * rng.uniform(-3, 3)
        elif kind == 'toward':
            v = pl.n * (-h * rng.uniform(0.05, 0.9)) + pl.y * rng.uniform(-3, 3)
        elif kind == 'away':
            v = pl.n * (h * rng.uniform(0.05, 4)) + pl.x * rng.uniform(-3, 3)
        else:
            v = _rv(rng, 3)
        lr = (Ray3D if is_ray else LineSegment3D)(p, v)
        truth = check_plane_line(pl, lr, is_ray, fails_to)
        hx.hist_add(hist['plane_line'], '%s/%s/%s' % ('Ray3D' if is_ray else 'LineSegment3D',
                                                      kind, truth))
        n += 1
    return n, repr(pl)


def stream_segpairs(rng, hist, fails_to):
    a, b, kind = seg_pair(rng)
    check_seg_pair(a, b, kind, fails_to)
    hx.hist_add(hist['segment_pair'], kind)
    return 1, '%r / %r' % (a, b)


def stream_polygons(rng, hist, fails_to):
    poly, kind = gen_polygon(rng)
    vs = poly.vertices
    n = 0
    xs, ys = [p.x for p in vs], [p.y for p in vs]
    w, h = max(xs) - min(xs), max(ys) - min(ys)
    for zone in ('bbox', 'bbox', 'bbox', 'near-edge-in', 'near-edge-out', 'outside', 'vertex',
                 'far'):
        if zone == 'bbox':
            q = Point2D(rng.uniform(min(xs), max(xs)), rng.uniform(min(ys), max(ys)))
        elif zone in ('near-edge-in', 'near-edge-out'):
            i = rng.randrange(len(vs))
            a, b = vs[i - 1], vs[i]
            t = rng.uniform(0.1, 0.9)
            e = b - a
            nrm = Vector2D(-e.y, e.x).normalize() * (10.0 ** rng.uniform(-6, -1))
            q = Point2D(a.x + e.x * t, a.y + e.y * t) + \
                (nrm if zone == 'near-edge-in' else nrm * -1)
        elif zone == 'outside':
            q = Point2D(rng.uniform(min(xs) - w, max(xs) + w), rng.uniform(min(ys) - h,
                                                                           max(ys) + h))
        elif zone == 'vertex':
            q = vs[rng.randrange(len(vs))]
        else:
            q = Point2D(min(xs) + rng.uniform(-1e3, 1e3), min(ys) + rng.uniform(-1e3, 1e3))
        done = check_polygon(poly, kind, q, _q2(rng, q, 2), zone, fails_to)
        hx.hist_add(hist['polygon_query'], zone if done else 'skipped-vertex-graze')
        n += 1 if done else 0
    hx.hist_add(hist['polygon_kind'], kind)
    return n, 'Polygon2D %s' % kind


def gen_thin_feature_polygon(rng):
    """Valid simple polygons with a deep interior whose area is nevertheless below
    (largest dimension x tolerance): a block with a long thin whisker, or a thin L with a block
    at the corner.  (The implementation returns the bounding-box centre for these.)"""
    a = rng.uniform(1.0, 3.0)                 # block a x a: inradius a/2 >> POLE_TOL
    t = rng.uniform(0.001, 0.004)             # whisker thickness
    ln = rng.uniform(200.0, 400.0) * a * a    # whisker length: area ~ a^2 + ln*t < ln*POLE_TOL
    if rng.random() < 0.5:
        y0 = rng.uniform(0.1, 0.8) * a
        pts = [(0, 0), (a, 0), (a, y0), (a + ln, y0), (a + ln, y0 + t), (a, y0 + t), (a, a), (0, a)]
        kind = 'block+whisker'
    else:
        pts = [(0, 0), (a + ln, 0), (a + ln, t), (a, t), (a, a), (t, a), (t, a + ln), (0, a + ln)]
        kind = 'block+two-whiskers'
    ang = rng.choice([0.0, rng.uniform(0, TWO_PI)])
    pts = [(x, y) for x, y in hx.rot_loop(pts, ang)]
    # (hx.valid_loop rejects thin shapes on purpose; here thinness is the point)
    if hx.min_edge(pts) < 1e-3 or not hx.is_simple_loop([hx.fx(q) for q in pts]):
        return None, kind
    return pts, kind


def stream_poles(rng, hist, fails_to):
    if rng.random() < 0.12:
        pts, kind = gen_thin_feature_polygon(rng)
        if pts is None:
            return 0, ''
        xs, ys = [p[0] for p in pts], [p[1] for p in pts]
        area = abs(float(hx.shoelace2([hx.fx(p) for p in pts]))) / 2
        if area >= max(max(xs) - min(xs), max(ys) - min(ys)) * POLE_TOL:
            return 0, ''
        check_pole(pts, kind, False, rng, fails_to, variant='area<max_dim*tol')
        hx.hist_add(hist['pole'], 'Polygon2D/' + kind)
        return 1, 'pole %s' % kind
    pts, kind = gen_pole_polygon(rng)
    if pts is None:
        return 0, ''
    xs, ys = [p[0] for p in pts], [p[1] for p in pts]
    area = abs(float(hx.shoelace2([hx.fx(p) for p in pts]))) / 2
    if area < 20 * max(max(xs) - min(xs), max(ys) - min(ys)) * POLE_TOL:
        return 0, ''
    use_face = rng.random() < 0.3
    check_pole(pts, kind, use_face, rng, fails_to)
    hx.hist_add(hist['pole'], '%s/%s' % ('Face3D' if use_face else 'Polygon2D', kind))
    return 1, 'pole %s' % kind


STREAMS = [('lines', stream_lines, 4), ('arcs', stream_arcs, 4), ('planes', stream_planes, 2),
           ('segpairs', stream_segpairs, 6), ('polygons', stream_polygons, 2),
           ('poles', stream_poles, 1)]


# ------------------------------------------------------------------ shrinking
def canonical_search(sig, deadline):
    """Look for a small witness of the same signature among canonical objects and lattice
    queries; returns (what, replay dict) or None."""
    site = sig.split('|')[0]
    grid = [x * 0.5 for x in range(-6, 7)]
    out = []
    if site.startswith(('LineSegment2D.c', 'LineSegment2D.distance_to_point', 'Ray2D',
                        'LineSegment3D', 'Ray3D')) and 'between' not in site:
        name = site.split('.')[0]
        dim = 2 if '2D' in name else 3
        is_ray = name.startswith('Ray')
        cls = {'LineSegment2D': LineSegment2D, 'Ray2D': Ray2D, 'LineSegment3D': LineSegment3D,
               'Ray3D': Ray3D}[name]
        obj = cls(Point2D(0, 0), Vector2D(1, 0)) if dim == 2 else \
            cls(Point3D(0, 0, 0), Vector3D(1, 0, 0))
        for x in grid:
            for y in grid:
                if time.time() > deadline:
                    return None
                q = Point2D(x, y) if dim == 2 else Point3D(x, y, 0.5)
                q2 = Point2D(x + 0.25, y) if dim == 2 else Point3D(x + 0.25, y, 0.5)
                out = []
                check_line(obj, name, is_ray, 'canonical', q, q2, out)
                for s, w in out:
                    if s == sig:
                        return w, {'kind': 'line', 'obj': hx.enc(obj), 'cls': name,
                                   'q': hx.enc(q), 'q2': hx.enc(q2)}
    if site.startswith('Arc'):
        variant = sig.split('|')[1]
        arcs = {'circle': [Arc2D(Point2D(0, 0), 1.0)],
                'arc': [Arc2D(Point2D(0, 0), 1.0, 0.0, math.pi),
                        Arc2D(Point2D(0, 0), 1.0, 1.0, 2.0)],
                'inverted': [Arc2D(Point2D(0, 0), 1.0, 1.5 * math.pi, 0.5 * math.pi),
                             Arc2D(Point2D(0, 0), 1.0, 5.0, 1.0)]}.get(variant, [])
        for a in arcs:
            for x in grid:
                for y in grid:
                    if time.time() > deadline:
                        return None
                    if x == 0 and y == 0:
                        continue
                    out = []
                    if site.startswith('Arc2D'):
                        q, q2 = Point2D(x, y), Point2D(x + 0.25, y)
                        check_arc2(a, variant, 'canonical', q, q2, out)
                        obj = a
                    else:
                        obj = Arc3D(Plane(Vector3D(0, 0, 1), Point3D(0, 0, 0)), a.r, a.a1, a.a2)
                        q, q2 = Point3D(x, y, 0.5), Point3D(x + 0.25, y, 0.5)
                        check_arc3(obj, variant, 'canonical', q, q2, out)
                    for s, w in out:
                        if s == sig:
                            return w, {'kind': 'arc', 'obj': hx.enc(obj), 'variant': variant,
                                       'q': hx.enc(q), 'q2': hx.enc(q2)}
    return None


def replay_record(rec):
    """Re-run one encoded evaluation -> [(signature, what)]."""
    out = []
    k = rec['kind']
    if k == 'line':
        obj = hx.dec(rec['obj'])
        check_line(obj, rec['cls'], rec['cls'].startswith('Ray'), 'replay', hx.dec(rec['q']),
                   hx.dec(rec['q2']), out)
    elif k == 'arc':
        obj = hx.dec(rec['obj'])
        if isinstance(obj, Arc2D):
            check_arc2(obj, rec['variant'], 'replay', hx.dec(rec['q']), hx.dec(rec['q2']), out)
        else:
            check_arc3(obj, rec['variant'], 'replay', hx.dec(rec['q']), hx.dec(rec['q2']), out)
    elif k == 'stream':
        rng = random.Random(rec['rng'])
        hist = dict((h, {}) for h in HISTS)
        fn = dict((n, f) for n, f, w in STREAMS)[rec['stream']]
        fn(rng, hist, out)
    return out


HISTS = ('line_zone', 'arc_zone', 'plane_kind', 'plane_line', 'segment_pair', 'polygon_query',
         'polygon_kind', 'pole')


def run(ctx):
    seed = ctx.seed
    thorough = ctx.tier == 'thorough' or bool(ctx.broken)
    budget = 400.0 if thorough else 28.0
    hard = min(ctx.deadline, time.time() + (700.0 if thorough else 42.0))
    t_end = min(ctx.deadline - 6.0, time.time() + budget)
    max_rounds = 100000 if thorough else 700
    hist = dict((h, {}) for h in HISTS)
    hist['stream_evaluations'] = {}
    raw = {}
    evaluations = 0
    nontrivial = set()
    samples = []
    rnd = 0
    while time.time() < t_end and rnd < max_rounds:
        for name, fn, weight in STREAMS:
            for wi in range(weight):
                key = '%s/c12/%s/%d/%d' % (seed, name, rnd, wi)
                rng = random.Random(key)
                out = []
                g = hx.guarded(fn, rng, hist, out)
                if g[0] == 'raise':
                    out.append(('c12.%s|harness raises %s' % (name, hx.exc_name(g[1])),
                                str(g[1])[:300]))
                    n, txt = 0, ''
                else:
                    n, txt = g[1]
                evaluations += n
                hx.hist_add(hist['stream_evaluations'], name, n)
                if n:
                    nontrivial.add(key)
                if len(samples) < 8 and txt and (rnd * 7 + wi) % 41 == 0:
                    samples.append({'stream': name, 'object': txt[:200]})
                for sig, what in out:
                    if sig not in raw:
                        raw[sig] = (what, {'kind': 'stream', 'stream': name, 'rng': key})
        rnd += 1
    fails = hx.Failures()
    for sig, (what, rec) in sorted(raw.items()):
        size = 5
        small = None
        if time.time() < hard - 1.5:
            small = canonical_search(sig, hard - 1)
        if small is not None:
            what, rec = small
            size = 1
        fails.add(sig, what, size, replay=rec, module='c12')
    return {
        'evaluations': evaluations,
        'distinct_nontrivial': len(nontrivial),
        'rule': 'random objects (segments, rays, arcs incl. circles and inverted arcs, planes, '
                'simple polygons incl. one hole, non-crossing segment pairs, pole polygons) '
                'with queries in every zone (before / inside / beyond the range, on the '
                'object, at end points, near the centre, off-plane, far away) and a second '
                'query at 1e-7 .. 20 for the Lipschitz clause; an evaluation is one '
                '(object, query) pair; non-trivial = distinct generated object with at least '
                'one evaluated query',
        'samples': samples,
        'failures': fails.list(),
        'extra': {'histograms': hist},
    }


def replay(ctx, failure):
    rec = failure.get('replay')
    if not rec:
        return None
    out = replay_record(rec)
    for sig, what in out:
        if sig == failure['signature']:
            f = dict(failure)
            f['what'] = what
            return f
    if out:
        f = dict(failure)
        f['signature'], f['what'] = out[0]
        return f
    return None
