"""C09 — coplanar face Booleans and splits partition the face region.

Property oracle on the REAL code (`Face3D.coplanar_union / coplanar_intersection /
coplanar_difference / coplanar_split / coplanar_union_all / split_with_line / split_with_lines /
split_with_polyline / split_through_holes`):

 * every returned face lies in the plane of the (first) input face (all vertices within the
   tolerance of the plane, decided exactly through the known rational frame of the plane) and
   has the same normal direction (within the angle tolerance);
 * the regions of the returned faces (boundary minus holes) realise the set operation and do
   not overlap one another (so that areas are conserved):
   - lattice family: rectilinear integer shapes (optionally with rectangular holes) placed in
     the plane through an exactly orthonormal rational frame (integer quaternion), a scale and
     an origin; returned vertices are mapped back to plane coordinates exactly and the Lean
     specification `Spec.CellBool.check` compares unit cells (cell centres are 1/2 away from
     every lattice edge, so the rounding of the 3D coordinates cannot matter);
   - general-position family: star / convex / concave faces, membership of query points
     >= 10*tol from every input edge (and from the cutting line) by `Spec.CellBool.checkPoints`
     + area identities with exact even-odd areas;
 * split lines / polylines through the interior, through vertices, along edges, through holes,
   partial (ending inside the face): the returned pieces must tile the face (every cell in
   exactly one piece, nothing outside, exact area sum) and a None result (= "not split") is
   accepted exactly when the cut does not separate the cells of the face (connected components
   of the cell set after removing the cut edges, Python `components`).  How finely a face is
   split beyond that is not part of the property (counted in the histograms only).
 * split_through_holes: pieces without holes that tile the face (two generic query points per
   cell, because the pieces are cut along lattice diagonals) + exact area sum.

Failure signatures (site independent where the code is shared):
   Face3D.<op>|hole-touching-boundary-vertex, Face3D.<op>|island-in-hole   (_from_bool_poly grouping)
   Face3D.coplanar_*|sweep zero-length-segment swallowed   (C04 sweep exception caught by coplanar_*)
   Face3D.split_with_*|unsplit-face-drops-holes | cut-along-edge | dangling-cut-end | not-split |
       hole-dropped | piece-lost | overlap | wrong-region
   <site>|<relation class>|<kind>  for everything else (wrong-region, off-plane, normal, raises ...)
Every run also executes a fixed list of minimal cases (`pinned_cases`, `pinned_general_cases`), one
per defect found so far, so that open findings are re-observed on the same input on every seed.
"""
import json
import math
import random
import time
from fractions import Fraction as F

import lbg
from ladybug_geometry import boolean as pb
from ladybug_geometry.geometry2d.pointvector import Point2D
from ladybug_geometry.geometry2d.polygon import Polygon2D
from ladybug_geometry.geometry3d.pointvector import Point3D, Vector3D
from ladybug_geometry.geometry3d.plane import Plane
from ladybug_geometry.geometry3d.face import Face3D
from ladybug_geometry.geometry3d.line import LineSegment3D
from ladybug_geometry.geometry3d.polyline import Polyline3D

try:
    from props import cellbool_common as cc
except ImportError:            # pragma: no cover
    import cellbool_common as cc

TOL = 0.01
ANG = math.radians(1.0)
COS_ANG = F(math.cos(ANG))

ASSUMPTIONS = [
    'valid inputs: planar faces with simple boundary, holes strictly inside and pairwise '
    'disjoint, every feature >= 25*tolerance; tolerance 0.01, angle tolerance 1 degree (radians)',
    'a None result of coplanar_union / coplanar_intersection is accepted exactly when the '
    'interiors of the operands are disjoint (documented: "When the faces ... do not overlap, '
    'None will be returned"); a None result of split_with_* is accepted exactly when the cut '
    'does not separate the face (documented); the number of pieces is not checked',
    'general family: every vertex of one operand (or of the face w.r.t. the cut) is on the '
    'other up to rounding or >= 2e-3 away (quantifier: gaps >= 1e-3); query points >= 10*tol '
    'from every input edge and from the cut, decided exactly',
    'normal direction of the results is compared with the first face; the second operand may be '
    'given with the opposite normal (still coplanar for the library)',
    'lattice family: regions compared on unit cell centres after mapping the returned vertices '
    'back through the exact rational frame; returned vertices must be within the tolerance of '
    'lattice points and edges axis-parallel within the tolerance',
]
TRUSTED = [
    'C09: executable Lean specification Spec/CellBool (crossing number, faces = boundary minus '
    'holes, cell sets, overlap of parts) run by the driver; exact rational plane frames, even-odd '
    'areas, edge margins and connected components of cut cell sets in Python '
    '(props/cellbool_common.py, props/c09.py)',
]

bump = cc.bump


# ------------------------------------------------------------------ exact plane frames
QUATS = [(1, 0, 0, 0), (1, 0, 0, 0), (1, 1, 0, 0), (1, 0, 1, 0), (0, 1, 0, 0), (1, 1, 1, 1),
         (1, 2, 3, 4), (2, -1, 3, 1), (3, 1, -2, 5), (1, 4, 2, -3), (5, 2, 1, 1), (2, 3, -6, 1),
         (7, 1, 2, -4), (1, 0, 2, 0), (3, 0, 0, 1), (4, -3, 2, 2)]


class Frame(object):
    """Plane with an exactly orthonormal rational frame X, Y, N (rotation of an integer
    quaternion), rational origin o and lattice scale s:  (u, v) -> o + s*(u*X + v*Y)."""

    def __init__(self, quat, o, s):
        a, b, c, d = [F(q) for q in quat]
        n = a * a + b * b + c * c + d * d
        self.quat, self.o, self.s = tuple(quat), tuple(F(x) for x in o), F(s)
        self.X = ((a * a + b * b - c * c - d * d) / n, 2 * (b * c + a * d) / n,
                  2 * (b * d - a * c) / n)
        self.Y = (2 * (b * c - a * d) / n, (a * a - b * b + c * c - d * d) / n,
                  2 * (c * d + a * b) / n)
        self.N = (2 * (b * d + a * c) / n, 2 * (c * d - a * b) / n,
                  (a * a - b * b - c * c + d * d) / n)

    def to3(self, u, v):
        """Lattice / plane coordinates -> float 3D point (rounded once per coordinate)."""
        u, v = F(u), F(v)
        return tuple(float(self.o[k] + self.s * (u * self.X[k] + v * self.Y[k]))
                     for k in range(3))

    def to2(self, p):
        """Float 3D point -> exact (u, v) in lattice units and exact offset w from the plane."""
        d = [F(p[k]) - self.o[k] for k in range(3)]
        u = sum(d[k] * self.X[k] for k in range(3)) / self.s
        v = sum(d[k] * self.Y[k] for k in range(3)) / self.s
        w = sum(d[k] * self.N[k] for k in range(3))
        return u, v, w

    def plane(self):
        return Plane(Vector3D(*[float(x) for x in self.N]), Point3D(*[float(x) for x in self.o]),
                     Vector3D(*[float(x) for x in self.X]))

    def describe(self):
        return {'quat': list(self.quat), 'o': [str(x) for x in self.o], 's': str(self.s)}

    @staticmethod
    def of(d):
        return Frame(d['quat'], [F(x) for x in d['o']], F(d['s']))


def random_frame(rng, scales=(1, 1, 2, 3, F(1, 2), F(1, 4), 10)):
    s = rng.choice(list(scales))
    q = rng.choice(QUATS)
    if rng.random() < 0.4:
        o = (0, 0, 0)
    else:
        m = rng.choice([8, 100, 2000])
        o = tuple(F(rng.randint(-m * 4, m * 4), 4) for _ in range(3))
    return Frame(q, o, s)


# ------------------------------------------------------------------ building / reading faces
def make_face(frame, loops, variant):
    """loops[0] boundary, rest holes, in plane coordinates."""
    b = [Point3D(*frame.to3(u, v)) for (u, v) in loops[0]]
    hs = [[Point3D(*frame.to3(u, v)) for (u, v) in h] for h in loops[1:]]
    pl = frame.plane() if 'plane' in variant else None
    f = Face3D(b, pl, hs if hs else None)
    if 'flip' in variant:
        f = f.flip()
    return f


def normal_sign(frame, face):
    n = face.normal
    d = F(n.x) * frame.N[0] + F(n.y) * frame.N[1] + F(n.z) * frame.N[2]
    return 1 if d > 0 else -1


def face_loops(frame, face):
    """-> ([boundary, holes...] in exact plane coords, max |offset from plane|)."""
    if not isinstance(face, Face3D):
        raise TypeError('result item is %s, not a Face3D' % type(face).__name__)
    loops, wmax = [], F(0)
    for lp in [face.boundary] + list(face.holes or []):
        out = []
        for p in lp:
            u, v, w = frame.to2((p.x, p.y, p.z))
            wmax = max(wmax, abs(w))
            out.append((u, v))
        loops.append(out)
    return loops, wmax


def normal_ok(frame, face, sign=1):
    n = face.normal
    ln2 = F(n.x) ** 2 + F(n.y) ** 2 + F(n.z) ** 2
    if ln2 == 0:
        return False
    dot = sign * (F(n.x) * frame.N[0] + F(n.y) * frame.N[1] + F(n.z) * frame.N[2])
    # dot / |n| >= cos(angle tolerance), decided exactly
    return dot > 0 and dot * dot >= COS_ANG * COS_ANG * ln2


def read_faces(frame, faces, site, problems, sign=1):
    """Returned faces -> list of parts (lists of loops); appends plane / normal problems."""
    if not isinstance(faces, (list, tuple)):
        raise TypeError('%s returned %s, not a list of Face3D' % (site, type(faces).__name__))
    parts = []
    for f in faces:
        loops, wmax = face_loops(frame, f)
        if wmax > F(TOL):
            problems.append(('off-plane', '%s: returned vertex is %.3g off the plane' % (
                site, float(wmax))))
        if not normal_ok(frame, f, sign):
            problems.append(('normal', '%s: returned face normal %r differs from the normal of '
                             'the input face' % (site, tuple(f.normal))))
        parts.append(loops)
    return parts


# ------------------------------------------------------------------ cuts on the lattice
def components(cells, cut_edges):
    """Connected components of a cell set when neighbours across the unit edges in
    `cut_edges` (undirected lattice unit edges) are not connected."""
    cells = set(cells)
    seen, out = set(), []
    for c0 in sorted(cells):
        if c0 in seen:
            continue
        comp = {c0}
        seen.add(c0)
        st = [c0]
        while st:
            (i, j) = st.pop()
            nb = [((i + 1, j), ((i + 1, j), (i + 1, j + 1))), ((i - 1, j), ((i, j), (i, j + 1))),
                  ((i, j + 1), ((i, j + 1), (i + 1, j + 1))), ((i, j - 1), ((i, j), (i + 1, j)))]
            for (c, e) in nb:
                if c in cells and c not in seen and e not in cut_edges:
                    seen.add(c)
                    comp.add(c)
                    st.append(c)
        out.append(frozenset(comp))
    return out


def unit_edges_of_segment(a, b):
    (x0, y0), (x1, y1) = a, b
    out = set()
    if y0 == y1:
        for x in range(min(x0, x1), max(x0, x1)):
            out.add(((x, y0), (x + 1, y0)))
    elif x0 == x1:
        for y in range(min(y0, y1), max(y0, y1)):
            out.add(((x0, y), (x0, y + 1)))
    else:
        raise ValueError('not a lattice line')
    return out


def py_cells(loops_eo, box):
    """Cells of an even-odd region with integer vertices (used only to place cuts and for the
    component structure; the region comparison itself is done by the Lean specification)."""
    x0, y0, x1, y1 = box
    out = set()
    for i in range(x0, x1):
        for j in range(y0, y1):
            px, py = 2 * i + 1, 2 * j + 1
            cnt = 0
            for lp in loops_eo:
                n = len(lp)
                for k in range(n):
                    (ax, ay), (bx, by) = lp[k], lp[(k + 1) % n]
                    ax, ay, bx, by = 2 * ax, 2 * ay, 2 * bx, 2 * by
                    if (ay <= py < by) or (by <= py < ay):
                        o = (bx - ax) * (py - ay) - (by - ay) * (px - ax)
                        if (ay < by and o > 0) or (by < ay and o < 0):
                            cnt += 1
            if cnt % 2:
                out.add((i, j))
    return out


# ------------------------------------------------------------------ lattice cases
VARIANTS = [[], [], ['plane'], ['flip'], ['plane', 'flip']]
STRATEGIES = ['random', 'random', 'vertex', 'edge', 'edge', 'nested', 'nested', 'reflex',
              'reflex', 'odd', 'equal', 'far']


def gen_bool_case(rng):
    how = rng.choice(STRATEGIES)
    ka, ca = cc.lattice_shape(rng, big=(how in ('nested', 'reflex') or rng.random() < 0.3))
    if how == 'nested':
        ca = cc.double(ca, rng.choice([2, 3]))
    if how == 'equal':
        cb = set(ca)
    else:
        kb, cb0 = cc.lattice_shape(rng)
        if how == 'odd':
            ca, cb0 = cc.double(ca), cc.double(cb0)
        cb = cc.place(rng, ca, cb0, how)
        if cb is None:
            return None
    A = [cc.loop_variant(rng, cc.outline(ca), allow_collinear=False)[0]]
    B = [cc.loop_variant(rng, cc.outline(cb), allow_collinear=False)[0]]
    flags = []
    # holes: a rectangular hole strictly inside; the effective region is cells minus hole
    ra, rb = set(ca), set(cb)
    if rng.random() < 0.25:
        h = cc.rect_hole_in(rng, ca)
        if h:
            A.append(cc.loop_variant(rng, cc.outline(h), allow_collinear=False)[0])
            ra = ca - h
            flags.append('holeA')
    if rng.random() < 0.15:
        h = cc.rect_hole_in(rng, cb)
        if h:
            B.append(cc.loop_variant(rng, cc.outline(h), allow_collinear=False)[0])
            rb = cb - h
            flags.append('holeB')
    extra = []
    kind = 'bool'
    if rng.random() < 0.25:
        # further faces for coplanar_difference([B, C, ..]) and coplanar_union_all([A, B, C, ..])
        kind = 'multi'
        for _ in range(rng.randint(1, 3)):
            _, cx = cc.lattice_shape(rng)
            cx = cc.place(rng, ca, cx, rng.choice(['random', 'vertex', 'edge']))
            extra.append([cc.loop_variant(rng, cc.outline(cx), allow_collinear=False)[0]])
    fr = random_frame(rng)
    return {'family': 'lattice', 'kind': kind, 'A': A, 'B': B, 'extra': extra,
            'rel': (cc.relation(ra, rb) if not flags else cc.relation(ca, cb) + '+holes') +
            ('+multi' if extra else ''),
            'how': how, 'flags': flags, 'frame': fr.describe(),
            'varA': rng.choice(VARIANTS[:3]), 'varB': rng.choice(VARIANTS)}


def gen_split_case(rng):
    """A lattice face (maybe with holes) and lattice cut lines."""
    kind, cells = cc.lattice_shape(rng, big=rng.random() < 0.5)
    k = rng.choice([1, 2, 2, 3])
    cells = cc.double(cells, k) if k > 1 else cells
    loops = [cc.loop_variant(rng, cc.outline(cells), allow_collinear=False)[0]]
    region = set(cells)
    flags = []
    if rng.random() < 0.4:
        h = cc.rect_hole_in(rng, cells)
        if h:
            loops.append(cc.loop_variant(rng, cc.outline(h), allow_collinear=False)[0])
            region = cells - h
            flags.append('hole')
            if rng.random() < 0.3:
                h2 = cc.rect_hole_in(rng, cells)
                if h2 and not any((i + a, j + b) in h for (i, j) in h2
                                  for a in (-1, 0, 1) for b in (-1, 0, 1)):
                    loops.append(cc.outline(h2))
                    region = region - h2
                    flags.append('hole2')
    x0, y0, x1, y1 = cc.cell_bbox(cells)
    mode = rng.choice(['line', 'line', 'line', 'lines', 'polyline'])

    def rand_line():
        ext = rng.choice([1, 1, 2, 0])      # how far the segment extends beyond the bounding box
        if rng.random() < 0.5:
            x = rng.randint(x0, x1)
            if ext == 0:            # ends inside / on the boundary: partial cut
                ya, yb = sorted(rng.sample(range(y0, y1 + 1), 2))
            else:
                ya, yb = y0 - ext, y1 + ext
            seg = ((x, ya), (x, yb))
        else:
            y = rng.randint(y0, y1)
            if ext == 0:
                xa, xb = sorted(rng.sample(range(x0, x1 + 1), 2))
            else:
                xa, xb = x0 - ext, x1 + ext
            seg = ((xa, y), (xb, y))
        return seg if rng.random() < 0.5 else (seg[1], seg[0])

    if mode == 'line':
        cuts = [rand_line()]
    elif mode == 'lines':
        cuts = [rand_line() for _ in range(rng.randint(2, 3))]
    else:
        # an L- or Z-shaped lattice polyline from outside to outside
        xm, ym = rng.randint(x0, x1), rng.randint(y0, y1)
        pts = [(x0 - 1, ym), (xm, ym), (xm, y1 + 1)]
        if rng.random() < 0.4:
            xm2 = rng.randint(x0, x1)
            ym2 = rng.randint(y0, y1)
            if xm2 != xm and ym2 != ym:
                pts = [(x0 - 1, ym), (xm, ym), (xm, ym2), (xm2, ym2), (xm2, y1 + 1)]
        if rng.random() < 0.5:
            pts.reverse()
        cuts = [pts]
    fr = random_frame(rng)
    return {'family': 'lattice', 'kind': 'split', 'mode': mode, 'A': loops, 'cuts': cuts,
            'flags': flags, 'frame': fr.describe(), 'varA': rng.choice(VARIANTS[:3]),
            'rel': 'split:' + mode + ('+hole' if flags else '')}


def gen_holes_case(rng):
    kind, cells = cc.lattice_shape(rng, big=True)
    cells = cc.double(cells, rng.choice([2, 3]))
    loops = [cc.loop_variant(rng, cc.outline(cells), allow_collinear=False)[0]]
    holes = []
    for _ in range(rng.choice([1, 2, 2, 3, 3, 4])):
        h = cc.rect_hole_in(rng, cells)
        if h and not any((i + a, j + b) in hh for hh in holes for (i, j) in h
                         for a in (-1, 0, 1) for b in (-1, 0, 1)):
            holes.append(h)
    if not holes:
        return None
    for h in holes:
        loops.append(cc.loop_variant(rng, cc.outline(h), allow_collinear=False)[0])
    fr = random_frame(rng)
    return {'family': 'lattice', 'kind': 'holes', 'A': loops, 'frame': fr.describe(),
            'varA': rng.choice(VARIANTS[:3]), 'rel': 'holes:%d' % len(holes), 'flags': []}


# ------------------------------------------------------------------ running the real code
CALL_LIMIT_S = 20      # a single library call on these small inputs takes milliseconds


def _call(site, fn, out, **kw):
    # the graph-based split keys its nodes by coordinates rounded to a grid
    # (network.coordinates_hash); when two computations of one and the same point fall on
    # different sides of a rounding boundary the graph gets two nodes for it.  That configuration
    # is observed here (not the symptom): the hash function is wrapped during the call.
    from ladybug_geometry import network as _nw
    seen = []
    orig = _nw.coordinates_hash

    def spy(point, tolerance):
        k = orig(point, tolerance)
        seen.append((point.x, point.y, k))
        return k
    _nw.coordinates_hash = spy
    import signal

    class CallTimeout(Exception):
        pass

    def _on_alarm(signum, frame):
        raise CallTimeout('no answer within %d s' % CALL_LIMIT_S)
    old_handler = signal.signal(signal.SIGALRM, _on_alarm)
    signal.alarm(CALL_LIMIT_S)
    try:
        try:
            out.append(dict(site=site, result=fn(), err=None, **kw))
        except Exception as e:                                        # noqa
            out.append(dict(site=site, result=None,
                            err='%s: %s' % (type(e).__name__, str(e)[:160]), **kw))
    finally:
        signal.alarm(0)
        signal.signal(signal.SIGALRM, old_handler)
        _nw.coordinates_hash = orig
        del seen[200000:]
    split = False
    if seen:
        byk = {}
        for (x, y, k) in seen:
            byk.setdefault(k, (x, y))
        reps = sorted(byk.values())
        for i, (x, y) in enumerate(reps):
            for (x2, y2) in reps[i + 1:i + 40]:
                if x2 - x > 1e-7:
                    break
                if abs(y2 - y) <= 1e-9 * max(1.0, abs(y)) and \
                        abs(x2 - x) <= 1e-9 * max(1.0, abs(x)):
                    split = True
                    break
            if split:
                break
    out[-1]['key_split'] = split


def eval_bool(case, frame):
    fa = make_face(frame, case['A'], case['varA'])
    fb = make_face(frame, case['B'], case['varB'])
    ex = [make_face(frame, lp, []) for lp in case['extra']]
    out = []
    if not ex:
        _call('Face3D.coplanar_union', lambda: Face3D.coplanar_union(fa, fb, TOL, ANG), out,
              op='union', idx=[0, 1], single=True, none_ok='disjoint')
        _call('Face3D.coplanar_intersection',
              lambda: Face3D.coplanar_intersection(fa, fb, TOL, ANG), out,
              op='intersect', idx=[0, 1], none_ok='disjoint')
        _call('Face3D.coplanar_difference', lambda: fa.coplanar_difference([fb], TOL, ANG), out,
              op='difference', idx=[0, 1])
        _call('Face3D.coplanar_split', lambda: Face3D.coplanar_split(fa, fb, TOL, ANG), out,
              op='split', idx=[0, 1])
        _call('Face3D.coplanar_union_all', lambda: Face3D.coplanar_union_all([fa, fb], TOL, ANG),
              out, op='union', idx=[0, 1])
    else:
        n = len(ex)
        _call('Face3D.coplanar_difference', lambda: fa.coplanar_difference([fb] + ex, TOL, ANG),
              out, op='difference', idx=list(range(n + 2)))
        _call('Face3D.coplanar_union_all',
              lambda: Face3D.coplanar_union_all([fa, fb] + ex, TOL, ANG), out,
              op='union', idx=list(range(n + 2)))
    return out, (fa, fb)


def seg3(frame, a, b):
    return LineSegment3D.from_end_points(Point3D(*frame.to3(*a)), Point3D(*frame.to3(*b)))


def eval_split(case, frame):
    fa = make_face(frame, case['A'], case['varA'])
    out = []
    if case['mode'] == 'line':
        a, b = case['cuts'][0]
        _call('Face3D.split_with_line', lambda: fa.split_with_line(seg3(frame, a, b), TOL), out,
              op='first', idx=[0], none_ok='nocut')
        _call('Face3D.split_with_lines', lambda: fa.split_with_lines([seg3(frame, a, b)], TOL),
              out, op='first', idx=[0], none_ok='nocut')
        mid = (F(a[0] + b[0]) / 2, F(a[1] + b[1]) / 2)
        _call('Face3D.split_with_polyline', lambda: fa.split_with_polyline(
            Polyline3D([Point3D(*frame.to3(*a)), Point3D(*frame.to3(*mid)),
                        Point3D(*frame.to3(*b))]), TOL), out,
              op='first', idx=[0], none_ok='nocut')
    elif case['mode'] == 'lines':
        _call('Face3D.split_with_lines', lambda: fa.split_with_lines(
            [seg3(frame, a, b) for (a, b) in case['cuts']], TOL), out,
              op='first', idx=[0], none_ok='nocut')
    else:
        pts = case['cuts'][0]
        _call('Face3D.split_with_polyline', lambda: fa.split_with_polyline(
            Polyline3D([Point3D(*frame.to3(*p)) for p in pts]), TOL), out,
              op='first', idx=[0], none_ok='nocut')
    return out, (fa,)


def eval_holes(case, frame):
    fa = make_face(frame, case['A'], case['varA'])
    out = []
    _call('Face3D.split_through_holes', lambda: list(fa.split_through_holes()), out,
          op='first', idx=[0], no_holes=True)
    return out, (fa,)


# ------------------------------------------------------------------ requests / judgement
def build_checks(case, frame, results, problems, sign=1):
    """-> (checks for the driver, index: one entry per check with site info).  sign: +1 when the
    first input face's normal is the frame's N, -1 when it is -N."""
    checks, index = [], []
    for r in results:
        site = r['site']
        if r['err'] is not None:
            index.append(dict(r, ci=None))
            continue
        res = r['result']
        try:
            if r['op'] == 'split':
                if not isinstance(res, tuple) or len(res) != 2:
                    raise TypeError('coplanar_split returned %r' % type(res).__name__)
                for k, op in ((0, 'first'), (1, 'second')):
                    pr = []
                    parts = read_faces(frame, res[k], site, pr, sign)
                    if k == 0 or case.get('_same_normals', True):
                        problems.extend((kind, what, site) for (kind, what) in pr)
                    else:
                        problems.extend((kind, what, site) for (kind, what) in pr
                                        if kind != 'normal')
                    index.append(dict(r, site='%s[%d]' % (site, k), op=op, ci=len(checks),
                                      parts=parts))
                    checks.append([op, True, [cc.wregion(p) for p in parts]])
                continue
            if res is None:
                index.append(dict(r, ci=len(checks), parts=None))
                checks.append([r['op'], True, []])
                continue
            if r.get('single'):
                res = [res]
            pr = []
            parts = read_faces(frame, res, site, pr, sign)
            problems.extend((kind, what, site) for (kind, what) in pr)
            index.append(dict(r, ci=len(checks), parts=parts))
            checks.append([r['op'], True, [cc.wregion(p) for p in parts]])
        except Exception as e:                                    # noqa
            index.append(dict(r, ci=None, err='%s: %s' % (type(e).__name__, str(e)[:160])))
    return checks, index


def operand_regions(case):
    if case['kind'] in ('bool', 'multi'):
        return [case['A'], case['B']] + list(case['extra'])
    return [case['A']]


def touching_pair(parts, tol_l):
    """Two returned faces whose boundaries touch: a boundary vertex of one within tol of the
    boundary loop of the other."""
    t2 = F(tol_l) ** 2
    for i, p in enumerate(parts):
        for j, q in enumerate(parts):
            if i == j:
                continue
            lb = q[0]
            n = len(lb)
            for v in p[0]:
                for k in range(n):
                    if cc.seg_dist2(v, lb[k], lb[(k + 1) % n]) <= t2:
                        return (i, j)
    return None


def diagnose_swallowed_all(faces):
    """The same for coplanar_union_all (snap_polygons, sweep tolerance tol/100)."""
    try:
        pl = faces[0].plane
        polys, is_hole = [], []
        for k, f in enumerate(faces):
            polys.append(f.boundary_polygon2d if k == 0 else
                         Polygon2D(tuple(pl.xyz_to_xy(p) for p in f.boundary)))
            is_hole.append(False)
            for h in (f.holes or []):
                polys.append(Polygon2D(tuple(pl.xyz_to_xy(p) for p in h)))
                is_hole.append(True)
        polys = [p.remove_colinear_vertices(TOL) for p in polys]
        polys = Polygon2D.snap_polygons(polys, TOL)
        groups = []
        for p, h in zip(polys, is_hole):
            lp = [pb.BooleanPoint(v.x, v.y) for v in p.vertices]
            if h:
                groups[-1].append(lp)
            else:
                groups.append([lp])
        pb.union_all([pb.BooleanPolygon(g) for g in groups], TOL / 100)
    except Exception as e:                                        # noqa
        return str(e)
    return None


def island_in_hole(parts):
    """A face one of whose hole loops lies inside another of its hole loops."""
    for p in parts:
        hs = p[1:]
        for i, h1 in enumerate(hs):
            for j, h2 in enumerate(hs):
                if i != j:
                    # midpoint of an edge of h2 strictly inside h1
                    m = ((h2[0][0] + h2[1][0]) / 2, (h2[0][1] + h2[1][1]) / 2)
                    if cc.inside_exact(m, h1):
                        return True
    return False


def diagnose_swallowed(fa, fb, site=''):
    """Does the sweep raise on the operands as coplanar_* prepares them?  -> message | None"""
    if 'union_all' in site:
        return diagnose_swallowed_all([fa, fb])
    try:
        pl = fa.plane
        f1 = fa.boundary_polygon2d.remove_colinear_vertices(TOL)
        f2 = Polygon2D(tuple(pl.xyz_to_xy(p) for p in fb.boundary)).remove_colinear_vertices(TOL)
        s2 = f1.snap_to_polygon(f2, TOL)
        r1 = [[(p.x, p.y) for p in f1.vertices]]
        r2 = [[(p.x, p.y) for p in s2.vertices]]
        for h in (fa.hole_polygon2d or []):
            r1.append([(p.x, p.y) for p in h.vertices])
        for h in (fb.holes or []):
            r2.append([(q.x, q.y) for q in (pl.xyz_to_xy(p) for p in h)])
        mk = lambda rr: pb.BooleanPolygon([[pb.BooleanPoint(x, y) for (x, y) in lp] for lp in rr])  # noqa
        pb.union(mk(r1), mk(r2), TOL / 1000)
    except Exception as e:                                        # noqa
        return str(e)
    return None


BAD_KEYS = ('missing', 'extra', 'overlap', 'offgrid', 'diagonal')


def flat_request(case, frame, index, reports):
    """For every returned list whose face-wise reading is wrong: the same loops read with
    even-odd nesting over the whole list (tells a wrong grouping into faces/holes from wrong
    loops).  -> (request | None, [sites])"""
    checks, sites = [], []
    if case['kind'] == 'holes':
        return None, []
    for e in index:
        if e.get('ci') is None or e.get('parts') is None:
            continue
        rp = reports[e['ci']]
        if any(rp.get(k) is not None for k in BAD_KEYS):
            checks.append([e['op'], False, [[lp for p in e['parts'] for lp in cc.wregion(p)]]])
            sites.append(e['site'])
    if not checks:
        return None, []
    rect_tol = F(10 ** 9) if case['kind'] in ('holes', 'split') else F(TOL) / frame.s
    return ('cellbool.check', [[cc.wregion(r) for r in operand_regions(case)], checks,
                               lbg.wnum(rect_tol)]), sites


def judge_holes(case, frame, index, reports, problems, failures, hist):
    """split_through_holes: reports are point reports (two generic points per cell)."""
    tol_l = F(TOL) / frame.s
    for (kind, what, site) in problems:
        failures.append(mk_failure(case, site, kind, what))
    for e in index:
        site = e['site']
        if e.get('err') is not None:
            failures.append(mk_failure(case, site, 'raises ' + e['err'].split(':')[0],
                                       '%s raised %s' % (site, e['err'])))
            continue
        rp = reports[e['ci']]
        bump(hist, 'site:' + site)
        if e['parts'] is None:
            failures.append(mk_failure(case, site, 'returns None', '%s returned None' % site))
            continue
        if any(len(p) > 1 for p in e['parts']):
            failures.append(mk_failure(case, site, 'has-holes',
                                       '%s returned a face with holes' % site))
        if rp['bad'] or rp['multi']:
            failures.append(mk_failure(
                case, site, 'wrong-region' if rp['bad'] else 'overlap',
                '%s: %d query points are classified differently by the pieces than by the face, '
                '%d lie in two pieces (faces: %d)' % (site, len(rp['bad']), len(rp['multi']),
                                                      len(e['parts'])), report=rp))
            continue
        asum = sum((cc.even_odd_area(p) for p in e['parts']), F(0))
        area = abs(cc.shoelace([(F(x), F(y)) for (x, y) in case['A'][0]])) - sum(
            abs(cc.shoelace([(F(x), F(y)) for (x, y) in h])) for h in case['A'][1:])
        per = sum(abs(lp[k][0] - lp[k - 1][0]) + abs(lp[k][1] - lp[k - 1][1])
                  for lp in case['A'] for k in range(len(lp)))
        if abs(asum - area) > tol_l * per:
            failures.append(mk_failure(
                case, site, 'area-sum', '%s: the pieces have total area %.9g, the face %s'
                % (site, float(asum), area)))


def judge(case, frame, index, reports, problems, faces, failures, hist, cells_info=None,
          flat=None):
    if case['kind'] == 'holes':
        return judge_holes(case, frame, index, reports, problems, failures, hist)
    n_before = len(failures)
    _judge(case, frame, index, reports, problems, faces, failures, hist, cells_info, flat)
    relabel_union(failures, n_before)


def _judge(case, frame, index, reports, problems, faces, failures, hist, cells_info, flat):
    tol_l = F(TOL) / frame.s
    for (kind, what, site) in problems:
        failures.append(mk_failure(case, site, kind, what))
    by_site = dict((st, {'flat': rp}) for st, rp in (flat or {}).items())
    for e in index:
        site = e['site']
        if e.get('err') is not None:
            failures.append(mk_failure(case, site, 'raises ' + e['err'].split(':')[0],
                                       '%s raised %s' % (site, e['err'])))
            continue
        rp = reports[e['ci']]
        bump(hist, 'site:' + site)
        if e['parts'] is None:
            # None result
            bump(hist, 'none:' + site)
            why = e.get('none_ok')
            ok = False
            if why == 'disjoint':
                # interiors disjoint <=> |A ∪ B| = |A| + |B| ; use the expected count of union
                ok = none_is_fine_bool(case, rp, e)
            elif why == 'nocut':
                ok = cells_info is not None and len(cells_info['components']) <= 1
            if not ok:
                cause = None
                if case['kind'] == 'bool' and len(faces) == 2:
                    cause = diagnose_swallowed(faces[0], faces[1], site)
                if cause and 'Zero-length segment' in cause:
                    failures.append(mk_failure(
                        case, site, 'sweep zero-length-segment swallowed',
                        '%s returned None for overlapping faces: the 2D sweep raised "%s" on '
                        'the projected operands and the exception was swallowed' % (site, cause),
                        sig='Face3D.coplanar_*|sweep zero-length-segment swallowed'))
                elif why == 'nocut':
                    kind, sig, more = classify_split(case, e, rp, cells_info, none=True)
                    failures.append(mk_failure(
                        case, site, kind, '%s returned None (= not split) although the cut '
                        'separates the face into %d pieces%s'
                        % (site, len(cells_info['components']), more), sig=sig))
                else:
                    failures.append(mk_failure(
                        case, site, 'returns None',
                        '%s returned None although %s' % (
                            site, 'the interiors of the operands intersect'
                            if why == 'disjoint' else 'the cut separates the face into %d pieces'
                            % (len(cells_info['components']) if cells_info else -1))))
            continue
        if e.get('no_holes') and any(len(p) > 1 for p in e['parts']):
            failures.append(mk_failure(case, site, 'has-holes',
                                       '%s returned a face with holes' % site))
        bad = [k for k in BAD_KEYS if rp.get(k) is not None]
        if bad:
            flt = by_site.get(site, {}).get('flat')
            flat_ok = flt is not None and all(flt.get(k) is None for k in
                                              ('missing', 'extra', 'offgrid', 'diagonal'))
            k = bad[0]
            detail = '%s cell/edge %s' % (k, rp[k])
            kind = 'wrong-region'
            sig = None
            if case['kind'] == 'split':
                kind, sig, more = classify_split(case, e, rp, cells_info)
                detail += more
            elif flat_ok and touching_pair(e['parts'], tol_l) is not None:
                kind = 'hole-touching-boundary-vertex'
                base = site.split('[')[0]
                sig = '%s|hole-touching-boundary-vertex' % base
                detail += ('; the returned loops are right when read with even-odd nesting, but '
                           'a loop that touches the boundary of another face at a vertex was '
                           'returned as a separate face instead of a hole')
            elif flat_ok and island_in_hole(e['parts']):
                kind = 'island-in-hole'
                sig = '%s|island-in-hole' % site.split('[')[0]
                detail += ('; the returned loops are right when read with even-odd nesting, but '
                           'a loop lying inside a hole of a face (an island) was returned as '
                           'another hole of that face')
            elif flat_ok:
                kind = 'loop-grouping'
                detail += '; the returned loops are right but grouped wrongly into faces/holes'
            elif case['kind'] == 'bool' and len(faces) == 2 and \
                    same_as_input(e, rp) and 'Zero-length segment' in (
                        diagnose_swallowed(faces[0], faces[1], site) or ''):
                kind = 'sweep zero-length-segment swallowed'
                sig = 'Face3D.coplanar_*|sweep zero-length-segment swallowed'
            failures.append(mk_failure(
                case, site, kind,
                '%s: %s; |expected|=%d |returned|=%d cells (faces: %d)' % (
                    site, detail, rp['n_expected'], rp['n_result'], len(e['parts'])),
                sig=sig, report=rp))
        if not bad and case['kind'] in ('split', 'holes'):
            # pieces may overlap in slivers that contain no cell centre: exact area sum
            asum = sum((cc.even_odd_area(p) for p in e['parts']), F(0))
            per = sum(abs(lp[k][0] - lp[k - 1][0]) + abs(lp[k][1] - lp[k - 1][1])
                      for lp in case['A'] for k in range(len(lp)))
            if abs(asum - rp['n_expected']) > tol_l * per:
                kind, sig, more = 'area-sum', None, ''
                if case['kind'] == 'split':
                    kind, sig, more = classify_split(case, e, dict(rp, overlap=True),
                                                     cells_info)
                failures.append(mk_failure(
                    case, site, kind, '%s: the pieces have total area %.9g, the face %d '
                    '(lattice units; allowed %.3g = tol * perimeter)%s' % (
                        site, float(asum), rp['n_expected'], float(tol_l * per), more),
                    sig=sig))
        if not bad and cells_info is not None and case['kind'] == 'split':
            # component structure of the split
            comps = cells_info['components']
            # (not part of the property: the pieces tile the face, but the split is coarser
            # or finer than the connected components of the cut face; counted only)
            if len(e['parts']) != len(comps):
                bump(hist, 'split:pieces_differ_from_components:' + site)


def _case_fp(case):
    """Fingerprint of the failing input (face loops, cuts, placement).  Symptom-only classes
    carry it in their signature, so that a listed finding covers exactly its recorded input
    and any other input with the same symptom is reported."""
    import hashlib
    key = json.dumps({k: case.get(k) for k in ('A', 'cuts', 'frame')}, sort_keys=True,
                     default=str)
    return hashlib.sha1(key.encode()).hexdigest()[:8]


def classify_split(case, e, rp, info, none=False):
    kind, sig, extra = _classify_split(case, e, rp, info, none)
    if kind in ('not-split', 'hole-dropped', 'piece-lost', 'overlap', 'wrong-region',
                'cut-along-edge', 'dangling-cut-end'):
        if e.get('key_split'):
            return ('key-rounding', 'Face3D.split_with_*|key-rounding',
                    extra + '; during the call one point received two different node keys '
                    '(its coordinates straddle a rounding boundary of coordinates_hash), so the '
                    'split graph has two nodes for it')
        sig = '%s#%s' % (sig, _case_fp(case))
    return (kind, sig, extra)


def _classify_split(case, e, rp, info, none=False):
    """Signature of a split failure: the configuration when it is a known trigger (cut collinear
    with an edge, cutting segment ending inside the face), otherwise the symptom.  Site and
    mode independent: split_with_line / lines / polyline share the graph code."""
    info = info or {}
    ncomp = len(info.get('components', []))
    if not none and len(e['parts']) == 1 and len(e['parts'][0]) < len(case['A']) and \
            rp.get('missing') is None and rp.get('extra') is not None and ncomp <= 1:
        return ('unsplit-face-drops-holes', 'Face3D.split_with_*|unsplit-face-drops-holes',
                '; the cut did not separate the face and the single face returned is the input '
                'without %d of its %d hole(s)' % (len(case['A']) - len(e['parts'][0]),
                                                  len(case['A']) - 1))
    if info.get('along_edge'):
        return ('cut-along-edge', 'Face3D.split_with_*|cut-along-edge',
                '; a cutting segment overlaps a boundary or hole edge of the face collinearly '
                '(the graph-based split then loses pieces, returns regions outside the face or '
                'does not split)')
    if info.get('dangling'):
        return ('dangling-cut-end', 'Face3D.split_with_*|dangling-cut-end',
                '; one cutting segment ends strictly inside the face')
    if none:
        return ('not-split', 'Face3D.split_with_*|not-split',
                '; None (= not split) although the cut separates the face into %d pieces and '
                'no cutting segment is collinear with an edge or ends inside the face' % ncomp)
    if rp.get('missing') is None and rp.get('overlap') is None and rp.get('extra') is not None \
            and rp['n_result'] - rp['n_expected'] <= hole_cells(case):
        return ('hole-dropped', 'Face3D.split_with_*|hole-dropped',
                '; the pieces cover the face and %d cells of its holes'
                % (rp['n_result'] - rp['n_expected']))
    if rp.get('missing') is not None and rp.get('extra') is None and rp.get('overlap') is None:
        return ('piece-lost', 'Face3D.split_with_*|piece-lost',
                '; the returned faces lie inside the face and do not overlap, but %d of its %d '
                'cells are in no returned face' % (rp['n_expected'] - rp['n_result'],
                                                   rp['n_expected']))
    if rp.get('missing') is None and rp.get('extra') is None:
        return ('overlap', 'Face3D.split_with_*|overlap', '; returned pieces overlap')
    return ('wrong-region', 'Face3D.split_with_*|wrong-region', '')


def hole_cells(case):
    n = 0
    for h in case['A'][1:]:
        n += abs(sum(h[k][0] * h[(k + 1) % len(h)][1] - h[(k + 1) % len(h)][0] * h[k][1]
                     for k in range(len(h)))) // 2
    return n


def relabel_union(failures, start):
    """coplanar_union returns only the largest face of the union: when coplanar_union_all of
    the same case shows the hole-touching-boundary-vertex grouping defect, the extra cells of
    coplanar_union are the same defect (the hole was returned as a face and then dropped)."""
    mine = failures[start:]
    if any(f['signature'] == 'Face3D.coplanar_union_all|hole-touching-boundary-vertex'
           for f in mine):
        for f in mine:
            if f['site'] == 'Face3D.coplanar_union' and f['signature'].endswith('wrong-region') \
                    and f.get('report', {}).get('missing') is None:
                f['signature'] = 'Face3D.coplanar_union|hole-touching-boundary-vertex'
                f['what'] += (' (coplanar_union_all on the same operands returns the hole as a '
                              'separate face: same grouping defect, the hole is then dropped)')


def same_as_input(e, rp):
    return rp['n_result'] == rp['n_operands'][0] and len(e['parts']) == 1


def none_is_fine_bool(case, rp, e):
    """coplanar_union / coplanar_intersection may return None when the operands do not overlap.
    rp is the report of [op, faceMode, no parts]: n_expected is |op(A, B)|."""
    nA, nB = rp['n_operands'][0], rp['n_operands'][1]
    if e['op'] == 'intersect':
        return rp['n_expected'] == 0
    if e['op'] == 'union':
        return rp['n_expected'] == nA + nB
    return False


def mk_failure(case, site, kind, what, sig=None, report=None):
    fl = {'signature': sig or '%s|%s|%s' % (site.split('[')[0], case['rel'], kind),
          'site': site, 'family': case['family'], 'case': case,
          'what': '%s [%s]' % (what, describe(case))}
    if report is not None:
        fl['report'] = report
    if fl['signature'] in REPRO:
        fl['minimal_repro'] = REPRO[fl['signature']]
    if case['family'] == 'lattice':
        try:
            fl['repro_snippet'] = snippet(case, site)
        except Exception:                                         # noqa
            pass
    return fl


def snippet(case, site=''):
    """Stand-alone python reproduction of a lattice case (exact float coordinates)."""
    fr = Frame.of(case['frame'])

    def pts(lp):
        return '[' + ', '.join('Point3D(%r, %r, %r)' % fr.to3(u, v) for (u, v) in lp) + ']'

    def face(name, loops, var):
        pl = 'None'
        if 'plane' in var:
            pl = 'Plane(Vector3D(%r, %r, %r), Point3D(%r, %r, %r), Vector3D(%r, %r, %r))' % tuple(
                [float(x) for x in fr.N] + [float(x) for x in fr.o] + [float(x) for x in fr.X])
        holes = '[' + ', '.join(pts(h) for h in loops[1:]) + ']' if len(loops) > 1 else 'None'
        out = '%s = Face3D(%s, %s, %s)' % (name, pts(loops[0]), pl, holes)
        if 'flip' in var:
            out += '; %s = %s.flip()' % (name, name)
        return out
    lines = ['import math',
             'from ladybug_geometry.geometry3d.pointvector import Point3D, Vector3D',
             'from ladybug_geometry.geometry3d.plane import Plane',
             'from ladybug_geometry.geometry3d.face import Face3D',
             'from ladybug_geometry.geometry3d.line import LineSegment3D',
             'from ladybug_geometry.geometry3d.polyline import Polyline3D',
             face('fa', case['A'], case.get('varA', []))]
    name = site.split('.')[-1].split('[')[0]
    if case['kind'] in ('bool', 'multi'):
        lines.append(face('fb', case['B'], case.get('varB', [])))
        others = ['fb']
        for k, lp in enumerate(case.get('extra', [])):
            lines.append(face('fx%d' % k, lp, []))
            others.append('fx%d' % k)
        if name == 'coplanar_difference':
            lines.append('r = fa.coplanar_difference([%s], 0.01, math.radians(1))'
                         % ', '.join(others))
        elif name == 'coplanar_union_all':
            lines.append('r = Face3D.coplanar_union_all([fa, %s], 0.01, math.radians(1))'
                         % ', '.join(others))
        else:
            lines.append('r = Face3D.%s(fa, fb, 0.01, math.radians(1))' % (name or 'coplanar_split'))
    elif case['kind'] == 'split':
        if case['mode'] == 'polyline' or name == 'split_with_polyline':
            c = case['cuts'][0]
            if len(c) == 2:
                c = [c[0], (F(c[0][0] + c[1][0]) / 2, F(c[0][1] + c[1][1]) / 2), c[1]]
            lines.append('r = fa.split_with_polyline(Polyline3D(%s), 0.01)' % pts(c))
        else:
            segs = ['LineSegment3D.from_end_points(%s)' % pts(c)[1:-1] for c in case['cuts']]
            if name == 'split_with_line':
                lines.append('r = fa.split_with_line(%s, 0.01)' % segs[0])
            else:
                lines.append('r = fa.split_with_lines([%s], 0.01)' % ', '.join(segs))
    else:
        lines.append('r = fa.split_through_holes()')
    lines.append('print(fa.area, r if r is None or not isinstance(r, (list, tuple)) else '
                 '[getattr(x, "area", x) for x in r])')
    return '\n'.join(lines)


def describe(case):
    d = {k: case[k] for k in ('A', 'B', 'extra', 'cuts', 'frame', 'varA', 'varB', 'line')
         if k in case and case[k]}
    return ' '.join('%s=%s' % (k, v) for k, v in d.items())


def case_size(case):
    n = sum(len(lp) for lp in case.get('A', [])) + sum(len(lp) for lp in case.get('B', []))
    return n + 20 * len(case.get('extra', [])) + (0 if case['frame']['quat'] == [1, 0, 0, 0]
                                                   else 5)


def run_lattice_case(case):
    """-> (request, context for judge)"""
    frame = Frame.of(case['frame'])
    if case['kind'] in ('bool', 'multi'):
        results, faces = eval_bool(case, frame)
    elif case['kind'] == 'split':
        results, faces = eval_split(case, frame)
    else:
        results, faces = eval_holes(case, frame)
    problems = []
    case['_same_normals'] = len(faces) < 2 or \
        normal_sign(frame, faces[0]) == normal_sign(frame, faces[1])
    checks, index = build_checks(case, frame, results, problems, normal_sign(frame, faces[0]))
    del case['_same_normals']
    # split_through_holes legitimately cuts along diagonals, and where exactly a cut runs inside
    # the face is not part of the property: no rectilinearity requirement for the pieces (the
    # exact area sum is checked instead, see judge)
    rect_tol = F(10 ** 9) if case['kind'] in ('holes', 'split') else F(TOL) / frame.s
    req = ('cellbool.check', [[cc.wregion(r) for r in operand_regions(case)], checks,
                              lbg.wnum(rect_tol)])
    if case['kind'] == 'holes':
        # the pieces are cut along diagonals between lattice points, which may pass exactly
        # through cell centres: query two generic points per cell instead
        pts = [p for lp in case['A'] for p in lp]
        qs = []
        for i in range(min(p[0] for p in pts), max(p[0] for p in pts)):
            for j in range(min(p[1] for p in pts), max(p[1] for p in pts)):
                qs.append((i + F(3701234, 10 ** 7), j + F(6149871, 10 ** 7)))
                qs.append((i + F(7203411, 10 ** 7), j + F(2310977, 10 ** 7)))
        req = ('cellbool.points', [[cc.wregion(r) for r in operand_regions(case)], checks,
                                   cc.wloop(qs)])
    info = None
    if case['kind'] == 'split':
        pts = [p for lp in case['A'] for p in lp]
        box = (min(p[0] for p in pts), min(p[1] for p in pts), max(p[0] for p in pts),
               max(p[1] for p in pts))
        cells = py_cells(case['A'], box)
        cut = set()
        for c in case['cuts']:
            for k in range(len(c) - 1):
                cut |= unit_edges_of_segment(c[k], c[k + 1])
        dangling = False
        for c in case['cuts']:
            for (x, y) in (c[0], c[-1]):
                if all((x + a, y + b) in cells for a in (-1, 0) for b in (-1, 0)):
                    dangling = True      # an end of the cut strictly inside the face
        info = {'components': components(cells, cut),
                'along_edge': bool(cut & cc.unit_edges(cells)), 'dangling': dangling}
    return req, (case, frame, index, problems, faces, info)


# ------------------------------------------------------------------ general-position cases
def hexs(pts):
    return [[float(x).hex() for x in p] for p in pts]


def unhex(pts):
    return [tuple(float.fromhex(x) for x in p) for p in pts]


def gen_general_case(rng):
    fr = random_frame(rng, scales=(1,))
    cx, cy = rng.uniform(-20, 20), rng.uniform(-20, 20)
    r1 = rng.choice([1.0, 3.0, 20.0])
    kind = rng.choice(['bool', 'bool', 'split'])
    A = cc.star_polygon(rng, rng.randint(3, 12), cx, cy, r1, rng.random() < 0.6)
    case = {'family': 'general', 'frame': fr.describe(), 'varA': rng.choice(VARIANTS[:3]),
            'flags': []}
    loops2 = [A]
    if kind == 'bool':
        how = rng.choice(['overlap', 'overlap', 'overlap', 'nested', 'far'])
        r2 = r1 * (rng.uniform(0.1, 0.3) if how == 'nested' else rng.uniform(0.4, 1.4))
        d = {'overlap': rng.uniform(0.2, 1.0) * max(r1, r2), 'nested': 0.0,
             'far': 2.5 * (r1 + r2)}[how]
        th = rng.uniform(0, 2 * math.pi)
        B = cc.star_polygon(rng, rng.randint(3, 12), cx + d * math.cos(th),
                            cy + d * math.sin(th), r2, rng.random() < 0.6)
        if rng.random() < 0.5:
            B.reverse()
        loops2.append(B)
        case.update({'kind': 'bool', 'rel': 'stars-' + how, 'varB': rng.choice(VARIANTS),
                     'extra': []})
    else:
        # a cutting segment through the face: through the centre, through a vertex or along an edge
        mode = rng.choice(['centre', 'vertex', 'edge'])
        if mode == 'centre':
            th = rng.uniform(0, math.pi)
            p, q = (cx - 3 * r1 * math.cos(th), cy - 3 * r1 * math.sin(th)), \
                (cx + 3 * r1 * math.cos(th), cy + 3 * r1 * math.sin(th))
        elif mode == 'vertex':
            v = rng.choice(A)
            dx, dy = v[0] - cx, v[1] - cy
            p, q = (cx - 3 * dx, cy - 3 * dy), (cx + 3 * dx, cy + 3 * dy)
        else:
            k = rng.randrange(len(A))
            a, b = A[k], A[(k + 1) % len(A)]
            p, q = (a[0] - 2 * (b[0] - a[0]), a[1] - 2 * (b[1] - a[1])), \
                (b[0] + 2 * (b[0] - a[0]), b[1] + 2 * (b[1] - a[1]))
        case.update({'kind': 'split', 'mode': 'line', 'rel': 'gsplit-' + mode, 'line': hexs([p, q])})
        loops2.append([p, q])
    # 3D input points and their exact plane coordinates
    pts3 = [[fr.to3(u, v) for (u, v) in lp] for lp in loops2]
    return finish_general_case(rng, case, fr, kind, pts3)


def finish_general_case(rng, case, fr, kind, pts3, margin=10, dense=False):
    """Query points (>= margin*tol from every input edge and from the cut) for given 3D inputs."""
    case['A3'] = hexs(pts3[0])
    if kind == 'bool':
        case['B3'] = hexs(pts3[1])
    else:
        case['L3'] = hexs(pts3[1])
    ex = [[fr.to2(p)[:2] for p in lp] for lp in pts3]
    fl = [[(float(u), float(v)) for (u, v) in lp] for lp in ex]
    # quantifier: gaps between the operands (or face and cut) are zero up to rounding or >= 1e-3
    if not cc.cross_gap_ok([fl[0]], [fl[1]]):
        return None
    ax = [p[0] for p in fl[0]] + ([p[0] for p in fl[1]] if kind == 'bool' else [])
    ay = [p[1] for p in fl[0]] + ([p[1] for p in fl[1]] if kind == 'bool' else [])
    w, h = max(ax) - min(ax), max(ay) - min(ay)
    cand = [(rng.uniform(min(ax) - 0.05 * w, max(ax) + 0.05 * w),
             rng.uniform(min(ay) - 0.05 * h, max(ay) + 0.05 * h)) for _ in range(70)]
    for v in rng.sample(fl[0], min(6, len(fl[0]))):
        a = rng.uniform(0, 2 * math.pi)
        rr = rng.uniform(12, 40) * TOL
        cand.append((v[0] + rr * math.cos(a), v[1] + rr * math.sin(a)))
    if dense:
        # many candidates inside the bounding box of the smaller operand
        bx = [p[0] for p in fl[-1]]
        by = [p[1] for p in fl[-1]]
        cand += [(rng.uniform(min(bx), max(bx)), rng.uniform(min(by), max(by)))
                 for _ in range(400)]
    pts = [p for p in cand if cc.far_from_edges(p, fl, ex, margin * TOL)]
    if len(pts) < 5:
        return None
    case['points'] = hexs(pts[:50] if not dense else pts[:120])
    case['margin'] = margin
    return case


def run_general_case(case):
    frame = Frame.of(case['frame'])
    A3 = unhex(case['A3'])
    fa = Face3D([Point3D(*p) for p in A3], frame.plane() if 'plane' in case['varA'] else None)
    A2 = [frame.to2(p)[:2] for p in A3]
    operands = [[A2]]
    out = []
    faces = (fa,)
    if case['kind'] == 'bool':
        B3 = unhex(case['B3'])
        fb = Face3D([Point3D(*p) for p in B3], frame.plane() if 'plane' in case['varB'] else None)
        if 'flip' in case['varB']:
            fb = fb.flip()
        operands.append([[frame.to2(p)[:2] for p in B3]])
        faces = (fa, fb)
        _call('Face3D.coplanar_union', lambda: Face3D.coplanar_union(fa, fb, TOL, ANG), out,
              op='union', idx=[0, 1], single=True, none_ok='disjoint')
        _call('Face3D.coplanar_intersection',
              lambda: Face3D.coplanar_intersection(fa, fb, TOL, ANG), out,
              op='intersect', idx=[0, 1], none_ok='disjoint')
        _call('Face3D.coplanar_difference', lambda: fa.coplanar_difference([fb], TOL, ANG), out,
              op='difference', idx=[0, 1])
        _call('Face3D.coplanar_split', lambda: Face3D.coplanar_split(fa, fb, TOL, ANG), out,
              op='split', idx=[0, 1])
        _call('Face3D.coplanar_union_all', lambda: Face3D.coplanar_union_all([fa, fb], TOL, ANG),
              out, op='union', idx=[0, 1])
    else:
        L3 = unhex(case['L3'])
        seg = LineSegment3D.from_end_points(Point3D(*L3[0]), Point3D(*L3[1]))
        _call('Face3D.split_with_line', lambda: fa.split_with_line(seg, TOL), out,
              op='first', idx=[0], none_ok='any')
        _call('Face3D.split_with_lines', lambda: fa.split_with_lines([seg], TOL), out,
              op='first', idx=[0], none_ok='any')
    problems = []
    case['_same_normals'] = len(faces) < 2 or \
        normal_sign(frame, faces[0]) == normal_sign(frame, faces[1])
    checks, index = build_checks(case, frame, out, problems, normal_sign(frame, fa))
    del case['_same_normals']
    pts = [(F(x), F(y)) for (x, y) in unhex(case['points'])]
    req = ('cellbool.points', [[cc.wregion(r) for r in operands], checks, cc.wloop(pts)])
    return req, (case, frame, index, problems, faces, operands)


def judge_general(ctx_t, reports, failures, hist, do_area):
    (case, frame, index, problems, faces, operands) = ctx_t
    pts = unhex(case['points'])
    for (kind, what, site) in problems:
        failures.append(mk_failure(case, site, kind, what))
    areas = {}
    n_eval = 0
    for e in index:
        site = e['site']
        if e.get('err') is not None:
            failures.append(mk_failure(case, site, 'raises ' + e['err'].split(':')[0],
                                       '%s raised %s' % (site, e['err'])))
            continue
        if e.get('flat'):
            continue
        n_eval += 1
        rp = reports[e['ci']]
        bump(hist, 'site:' + site)
        if e['parts'] is None:
            bump(hist, 'none:' + site)
            if e.get('none_ok') == 'any':
                continue
            ok = (e['op'] == 'intersect' and rp['n_in'] == 0) or \
                (e['op'] == 'union' and case['rel'] == 'stars-far')
            if not ok and case['rel'] != 'stars-far':
                # decide overlap of interiors by the intersect report of the same case
                ov = [reports[x['ci']]['n_in'] for x in index
                      if x.get('ci') is not None and x['op'] == 'intersect' and not x.get('flat')]
                if ov and ov[0] > 0:
                    cause = diagnose_swallowed(faces[0], faces[1], site) if len(faces) == 2 else None
                    if cause and 'Zero-length segment' in cause:
                        failures.append(mk_failure(
                            case, site, 'swallowed', '%s returned None: the 2D sweep raised "%s"'
                            % (site, cause),
                            sig='Face3D.coplanar_*|sweep zero-length-segment swallowed'))
                    else:
                        failures.append(mk_failure(
                            case, site, 'returns None', '%s returned None although %d query '
                            'points lie in both faces' % (site, ov[0])))
            continue
        if rp['bad'] or rp['multi']:
            which = rp['bad'] or rp['multi']
            p = pts[which[0]]
            kind = 'wrong-membership' if rp['bad'] else 'overlap'
            sig = None
            if len(faces) == 2 and rp['bad'] and len(e['parts']) == 1 and \
                    'Zero-length segment' in (diagnose_swallowed(faces[0], faces[1], site) or ''):
                kind = 'swallowed'
                sig = 'Face3D.coplanar_*|sweep zero-length-segment swallowed'
            failures.append(mk_failure(
                case, site, kind,
                '%s: plane point %r (>= %d*tol from every input edge) is %s; %d of %d query '
                'points' % (site, p, case.get('margin', 10),
                            'classified differently by the returned faces than by the '
                            'set operation' if rp['bad'] else 'covered by two returned faces',
                            len(which), len(pts)), sig=sig, report=rp))
        if do_area:
            areas[site] = sum((cc.even_odd_area(p) for p in e['parts']), F(0))
    if do_area and case['kind'] == 'bool':
        A2, B2 = operands[0][0], operands[1][0]
        band = F(3 * TOL * (cc.perimeter_float(A2) + cc.perimeter_float(B2)))
        aA, aB = abs(cc.shoelace(A2)), abs(cc.shoelace(B2))
        g = areas.get
        idents = [('union+intersection=A+B', 'Face3D.coplanar_union',
                   [g('Face3D.coplanar_union'), g('Face3D.coplanar_intersection')], aA + aB),
                  ('difference+intersection=A', 'Face3D.coplanar_difference',
                   [g('Face3D.coplanar_difference'), g('Face3D.coplanar_intersection')], aA),
                  ('split parts sum to A', 'Face3D.coplanar_split',
                   [g('Face3D.coplanar_split[0]')], aA),
                  ('split parts sum to B', 'Face3D.coplanar_split',
                   [g('Face3D.coplanar_split[1]')], aB)]
        for (name, site, terms, rhs) in idents:
            if any(t is None for t in terms):
                continue
            n_eval += 1
            if abs(sum(terms) - rhs) > band:
                failures.append(mk_failure(
                    case, site, 'area-identity', 'area identity %s violated: %.9g vs %.9g '
                    '(band %.3g)' % (name, float(sum(terms)), float(rhs), float(band))))
    elif do_area and case['kind'] == 'split':
        A2 = operands[0][0]
        band = F(3 * TOL * cc.perimeter_float(A2))
        for site, a in areas.items():
            n_eval += 1
            if abs(a - abs(cc.shoelace(A2))) > band:
                failures.append(mk_failure(
                    case, site, 'area-identity', 'split parts sum to %.9g, the face has %.9g'
                    % (float(a), float(abs(cc.shoelace(A2))))))
    return n_eval


# ------------------------------------------------------------------ pinned cases
PLAIN = {'quat': [1, 0, 0, 0], 'o': ['0', '0', '0'], 's': '1'}
REPRO = {
    'Face3D.split_with_*|cut-along-edge':
        "C=Face3D([Point3D(x,y,0) for x,y in [(3,2),(3,3),(0,3),(0,5),(4,5),(4,0),(0,0),(0,2)]]); "
        "C.split_with_line(LineSegment3D.from_end_points(Point3D(0,-1,0),Point3D(0,6,0)),0.01)"
        "  # the cut lies on the left edges and crosses the notch: the 17-cell face is not "
        "split into its 2 pieces (unchanged tree: one face = the notch, area 3, outside the face)",
    'Face3D.split_with_*|dangling-cut-end':
        "f=Face3D([Point3D(x,y,0) for x,y in [(0,0),(0,4),(4,4),(4,0)]]); "
        "f.split_with_lines([LineSegment3D.from_end_points(Point3D(3,1,0),Point3D(3,0,0)), "
        "LineSegment3D.from_end_points(Point3D(-1,2,0),Point3D(5,2,0))],0.01)  # None, although "
        "the second segment alone splits the square into 8+8",
    'Face3D.coplanar_*|sweep zero-length-segment swallowed':
        "A=Face3D([Point3D(6.317156243509963,4.2515313384991735,14.172874991346617),"
        "Point3D(5.854290351501675,2.8244444928012786,13.555720468668898),"
        "Point3D(5.696515634494251,2.825158582788676,13.345354179325668),"
        "Point3D(5.3856787284362415,3.0580977767188067,12.93090497124832)]); "
        "B=Face3D([Point3D(5.76432483976015,2.730386687006032,13.435766453013532),"
        "Point3D(6.05696155017141,3.484609736925479,13.82594873356188),"
        "Point3D(5.019260705154679,4.014254866796007,12.442347606872904)]); "
        "Face3D.coplanar_union_all([A,B],0.01,math.radians(1))  # None: the sweep (tol/100) "
        "raised 'Zero-length segment detected' and the exception was swallowed",
}


def pinned_cases():
    """Deterministic minimal cases for every defect this module has found (run on every seed:
    open findings are re-observed on the same input, repaired ones must stay silent)."""
    out = []
    L = [(0, 0), (4, 0), (4, 2), (2, 2), (2, 4), (0, 4)]
    out.append({'family': 'lattice', 'kind': 'bool', 'A': [L], 'B': [[(1, 1), (2, 1), (2, 2), (1, 2)]],
                'extra': [], 'rel': 'nested+vertex', 'how': 'pinned', 'flags': [], 'frame': PLAIN,
                'varA': [], 'varB': []})
    out.append({'family': 'lattice', 'kind': 'bool', 'A': [[(0, 0), (8, 0), (8, 8), (0, 8)]],
                'B': [[(1, 1), (7, 1), (7, 7), (1, 7)], [(3, 3), (5, 3), (5, 5), (3, 5)]],
                'extra': [], 'rel': 'nested+holes', 'how': 'pinned', 'flags': ['holeB'],
                'frame': PLAIN, 'varA': [], 'varB': []})
    out.append({'family': 'lattice', 'kind': 'split', 'mode': 'line',
                'A': [[(0, 0), (9, 0), (9, 3), (0, 3)], [(5, 1), (6, 1), (6, 2), (5, 2)]],
                'cuts': [((2, -1), (2, 2))], 'flags': ['hole'], 'frame': PLAIN, 'varA': [],
                'rel': 'split:line+hole'})
    out.append({'family': 'lattice', 'kind': 'split', 'mode': 'line',
                'A': [[(3, 2), (3, 3), (0, 3), (0, 5), (4, 5), (4, 0), (0, 0), (0, 2)]],
                'cuts': [((0, -1), (0, 6))], 'flags': [], 'frame': PLAIN, 'varA': [],
                'rel': 'split:line'})
    out.append({'family': 'lattice', 'kind': 'split', 'mode': 'lines',
                'A': [[(2, 2), (2, 0), (6, 0), (6, 6), (2, 6), (2, 4), (0, 4), (0, 2)]],
                'cuts': [((7, 0), (-1, 0)), ((8, 4), (-2, 4)), ((7, 1), (-1, 1))], 'flags': [],
                'frame': PLAIN, 'varA': [], 'rel': 'split:lines'})
    out.append({'family': 'lattice', 'kind': 'split', 'mode': 'lines',
                'A': [[(0, 0), (0, 4), (4, 4), (4, 0)]],
                'cuts': [((3, 1), (3, 0)), ((-1, 2), (5, 2))], 'flags': [],
                'frame': PLAIN, 'varA': [], 'rel': 'split:lines'})
    out.append({'family': 'lattice', 'kind': 'split', 'mode': 'line',
                'A': [[(0, 0), (10, 0), (10, 8), (2, 8), (2, 2), (0, 2)]],
                'cuts': [((5, 10), (5, -2))], 'flags': [],
                'frame': {'quat': [1, 4, 2, -3], 'o': ['0', '0', '0'], 's': '1/4'},
                'varA': ['plane'], 'rel': 'split:line'})
    # three full horizontal cuts through a concave face: 48 of 180 cells returned
    out.append({'family': 'lattice', 'kind': 'split', 'mode': 'lines',
                'A': [[(8, 8), (10, 8), (10, 0), (14, 0), (14, 14), (0, 14), (0, 0), (8, 0)]],
                'cuts': [((-1, 2), (15, 2)), ((-1, 6), (15, 6)), ((-1, 13), (15, 13))],
                'flags': [], 'frame': PLAIN, 'varA': [], 'rel': 'split:lines'})
    # three cuts, one piece missing (tilted plane, scale 1/4)
    out.append({'family': 'lattice', 'kind': 'split', 'mode': 'lines',
                'A': [[(3, 9), (3, 0), (12, 0), (12, 18), (3, 18), (3, 30), (0, 30), (0, 9)]],
                'cuts': [((13, 28), (-1, 28)), ((-2, 3), (14, 3)), ((-1, 8), (13, 8))],
                'flags': [], 'frame': {'quat': [3, 0, 0, 1], 'o': ['0', '0', '0'], 's': '1/4'},
                'varA': [], 'rel': 'split:lines'})
    # a cut from a hole corner to the boundary: the hole comes back one cell smaller
    out.append({'family': 'lattice', 'kind': 'split', 'mode': 'line',
                'A': [[(0, 0), (0, 4), (2, 4), (2, 6), (6, 6), (6, 0)],
                      [(2, 1), (5, 1), (5, 2), (2, 2)]],
                'cuts': [((5, 1), (6, 1))], 'flags': ['hole'],
                'frame': {'quat': [5, 2, 1, 1], 'o': ['13/2', '13/2', '-3'], 's': '3'},
                'varA': [], 'rel': 'split:line+hole'})
    return out


PINNED_SWALLOWED = {
    'frame': {'quat': [1, 0, 2, 0], 'o': ['-3', '-1/2', '7/4'], 's': '1'},
    'A3': [['0x1.944c49b3663d8p+2', '0x1.101916e63179cp+2', '0x1.c588312244290p+3'],
           ['0x1.76acb1703f3c0p+2', '0x1.698765aaf9724p+1', '0x1.b1c8764ad4d2ap+3'],
           ['0x1.6c93b64fd38d4p+2', '0x1.699ecbe38ba84p+1', '0x1.ab0d243537b38p+3'],
           ['0x1.58aef5d55960ap+2', '0x1.876fbf797d218p+1', '0x1.9dc9f938e6406p+3']],
    'B3': [['0x1.70eab2bb92940p+2', '0x1.5d7d4f9b0ff60p+1', '0x1.adf1cc7d0c62ap+3'],
           ['0x1.83a5420ec7672p+2', '0x1.be07b11db5843p+1', '0x1.ba6e2c09da44cp+3'],
           ['0x1.413b9140af2f0p+2', '0x1.00e98d3eaca6ep+2', '0x1.8e27b62b1f74ap+3']]}


def pinned_general_cases():
    rng = random.Random('c09/pinned')
    d = PINNED_SWALLOWED
    case = {'family': 'general', 'frame': d['frame'], 'varA': [], 'varB': [], 'flags': [],
            'kind': 'bool', 'rel': 'stars-overlap', 'extra': []}
    c = finish_general_case(rng, case, Frame.of(d['frame']), 'bool',
                            [unhex(d['A3']), unhex(d['B3'])], dense=True)
    return [c] if c is not None else []


# ------------------------------------------------------------------ run
def budget(ctx):
    thorough = ctx.tier == 'thorough' or bool(getattr(ctx, 'broken', None))
    if thorough:
        return {'bool': 2500, 'split': 1500, 'holes': 500, 'general': 1200, 'area': 400,
                'secs': 600}
    return {'bool': 150, 'split': 90, 'holes': 160, 'general': 70, 'area': 25, 'secs': 38}


def run(ctx):
    t0 = time.time()
    bud = budget(ctx)
    stop = min(ctx.deadline, t0 + bud['secs'])
    failures, hist, samples = [], {}, []
    nontrivial = set()
    evaluations = 0
    rng = random.Random('%s/c09/lattice' % ctx.seed)
    plan = ['bool'] * bud['bool'] + ['split'] * bud['split'] + ['holes'] * bud['holes']
    random.Random('%s/c09/plan' % ctx.seed).shuffle(plan)
    reqs, ctxs = [], []
    for case in pinned_cases():
        req, c = run_lattice_case(case)
        reqs.append(req)
        ctxs.append(c)
    # The graph-based split has open defects in degenerate configurations (cuts through
    # vertices, along edges, through holes, self-crossing polylines - all inside the property's
    # quantifier).  So that a listed finding covers exactly its recorded input, the split cases
    # are one FIXED stream (independent of the seed; the quick tier explores a prefix of what
    # the thorough tier explores): the failing members of that stream are a finite, listed set
    # and any other failing input - e.g. after a change of the library - is reported.
    rng_split = random.Random('c09/lattice-split/fixed-stream')
    rng_holes = random.Random('c09/lattice-holes/fixed-stream')   # same for split_through_holes
    for kind in plan:
        if time.time() > t0 + 0.45 * (stop - t0):
            break
        case = {'bool': gen_bool_case, 'split': gen_split_case, 'holes': gen_holes_case}[kind](
            rng_split if kind == 'split' else rng_holes if kind == 'holes' else rng)
        if case is None:
            continue
        req, c = run_lattice_case(case)
        reqs.append(req)
        ctxs.append(c)
    ans = ctx.driver.run(reqs) if reqs else []
    flat_reqs, flat_of = [], {}
    for k, (c, (ok, val)) in enumerate(zip(ctxs, ans)):
        if not ok:
            raise lbg.DriverError('cellbool.check: %s' % val)
        rq, sites = flat_request(c[0], c[1], c[2], val)
        if rq is not None:
            flat_of[k] = (len(flat_reqs), sites)
            flat_reqs.append(rq)
    flat_ans = ctx.driver.run(flat_reqs) if flat_reqs else []
    for k, (c, (ok, val)) in enumerate(zip(ctxs, ans)):
        (case, frame, index, problems, faces, info) = c
        evaluations += len(index)
        flat = None
        if k in flat_of:
            fi, sites = flat_of[k]
            fok, fval = flat_ans[fi]
            if not fok:
                raise lbg.DriverError('cellbool.check: %s' % fval)
            flat = dict(zip(sites, fval))
        judge(case, frame, index, val, problems, faces, failures, hist, info, flat)
        bump(hist, 'lattice:%s:%s' % (case['kind'], case['rel']))
        bump(hist, 'frame:quat:%s' % (case['frame']['quat'],))
        bump(hist, 'frame:scale:%s' % case['frame']['s'])
        for f in case.get('flags', []):
            bump(hist, 'flag:' + f)
        for v in case.get('varA', []) + ['B' + x for x in case.get('varB', [])]:
            bump(hist, 'variant:' + v)
        if case['kind'] == 'split':
            bump(hist, 'split:pieces:%d' % len(info['components']))
        if case['rel'] not in ('disjoint',) and not (
                case['kind'] == 'split' and len(info['components']) < 2):
            nontrivial.add(repr((case.get('A'), case.get('B'), case.get('cuts'),
                                 case['frame'])))
    if ctxs:
        samples.append(ctxs[0][0])
        samples.append(ctxs[len(ctxs) // 2][0])

    rng = random.Random('%s/c09/general' % ctx.seed)
    greqs, gctxs = [], []
    for case in pinned_general_cases():
        req, c = run_general_case(case)
        greqs.append(req)
        gctxs.append(c)
    for k in range(bud['general']):
        if time.time() > t0 + 0.8 * (stop - t0):
            break
        case = gen_general_case(rng)
        if case is None:
            continue
        req, c = run_general_case(case)
        greqs.append(req)
        gctxs.append(c)
    ans = ctx.driver.run(greqs) if greqs else []
    for k, (c, (ok, val)) in enumerate(zip(gctxs, ans)):
        if not ok:
            raise lbg.DriverError('cellbool.points: %s' % val)
        evaluations += judge_general(c, val, failures, hist, k < bud['area'])
        case = c[0]
        bump(hist, 'general:' + case['rel'])
        if not case['rel'].endswith('far') and any(r.get('n_in', 0) > 0 for r in val):
            nontrivial.add(repr((case['A3'], case.get('B3'), case.get('L3'))))
    if gctxs:
        samples.append({k: v for k, v in gctxs[0][0].items() if k != 'points'})
    hist['lattice_cases'] = len(ctxs)
    hist['general_cases'] = len(gctxs)
    hist['seconds'] = round(time.time() - t0, 1)
    sites_of = {}
    for f in failures:
        sites_of.setdefault(f['signature'], set()).add(f.get('site', ''))
    failures = cc.small_first(failures, lambda f: case_size(f['case']))
    for f in failures:
        f['sites'] = sorted(sites_of[f['signature']])
    failures = [shrink(ctx, f) if k < 8 and time.time() < stop else f
                for k, f in enumerate(failures)]
    return {
        'evaluations': evaluations,
        'distinct_nontrivial': len(nontrivial),
        'rule': 'lattice: random rectilinear faces (named shapes, polyominoes, optional '
                'rectangular holes) in planes with exact rational frames (16 integer '
                'quaternions x scales x origins), operand placements random / vertex-aligned / '
                'edge-aligned / nested / reflex-corner / transversal / equal / far, second '
                'operand optionally with opposite normal or explicit plane; every coplanar_* '
                'operation, lattice cuts by line / lines / polyline (through interior, vertices, '
                'along edges, through holes, partial), split_through_holes; one evaluation per '
                '(case, operation).  general: star / convex / concave faces, pairs and cutting '
                'segments through centre / vertex / along an edge, checked at query points and '
                'by area identities.  non-trivial: operands not disjoint (bool), the cut '
                'separates the face (split), at least one hole (holes); distinct = distinct '
                'operand vertex lists + frame',
        'samples': samples[:5],
        'failures': failures,
        'extra': {'histograms': hist},
    }


def shrink(ctx, failure):
    """Lattice failures: try the same shapes in the plane z = 0 (identity frame, scale 1, faces
    built without explicit plane / flipping); keep the simpler case when it fails with the same
    signature."""
    case = failure.get('case')
    plain = {'quat': [1, 0, 0, 0], 'o': ['0', '0', '0'], 's': '1'}
    if not case or case.get('family') != 'lattice' or (
            case['frame'] == plain and not case.get('varA') and not case.get('varB')):
        return failure
    c2 = dict(case, frame=plain, varA=[])
    if 'varB' in case:
        c2['varB'] = []
    try:
        again = replay(ctx, dict(failure, case=c2))
    except Exception:                                             # noqa
        return failure
    if again is not None and again['signature'] == failure['signature']:
        again['sites'] = failure.get('sites')
        again['shrunk_from'] = {'frame': case['frame'], 'varA': case.get('varA'),
                                'varB': case.get('varB')}
        return again
    return failure


def replay(ctx, failure):
    case = failure['case']
    out = []
    if case['family'] == 'lattice':
        req, c = run_lattice_case(case)
        (ok, val), = ctx.driver.run([req])
        if not ok:
            raise lbg.DriverError(val)
        (case, frame, index, problems, faces, info) = c
        flat = None
        rq, sites = flat_request(case, frame, index, val)
        if rq is not None:
            (fok, fval), = ctx.driver.run([rq])
            if not fok:
                raise lbg.DriverError(fval)
            flat = dict(zip(sites, fval))
        judge(case, frame, index, val, problems, faces, out, {}, info, flat)
    else:
        req, c = run_general_case(case)
        (ok, val), = ctx.driver.run([req])
        if not ok:
            raise lbg.DriverError(val)
        judge_general(c, val, out, {}, True)
    same = [f for f in out if f['signature'] == failure['signature']]
    return (same or out or [None])[0]
