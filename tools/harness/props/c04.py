"""C04 — polygon Boolean operations compute the exact set operation.

Property oracle on the REAL code (`ladybug_geometry.boolean`, `Polygon2D.boolean_*`):

 (T) the five 16-entry fill-selection tables: each `_select_*` is run on 16 synthetic combined
     segments carrying every combination of the fill bits (above1, below1, above2, below2);
     the fills of the segments it keeps give the table *as the code behaves* (this goes through
     `__select`, so a swapped above/below there is seen as well); the Lean specification
     `Spec.CellBool.tableDiff` decides it against the truth table of the operation.  The
     `is_inverted` flag of the result is checked for the four combinations of inverted operands.
 (L) lattice family: rectilinear integer polygons (rectangles, L/T/U/plus/Z/stair/C/H shapes,
     random polyominoes; nested, overlapping, sharing edges / corners, identical, disjoint;
     either vertex order, every cyclic start, optional extra collinear vertices; lattice scaled
     and shifted to |c| <= 1e4) through every operation; the returned loops are mapped back to
     lattice coordinates exactly and `Spec.CellBool.check` (Lean, exact crossing number at every
     unit-cell centre of the box around everything) answers whether
     cells(result, even-odd) = op(cells A, cells B), that the returned loops are rectilinear on
     the lattice within the tolerance, and the cell counts (area identities exact).
 (G) general-position family: star / convex / concave polygons and rotated-scaled lattice
     shapes (collinear overlaps and touching vertices up to rounding) in floating point;
     membership of query points kept >= 10*tol from every input edge (margin decided exactly)
     by `Spec.CellBool.checkPoints`; area identities with the exact even-odd area of the
     returned loops within 3*tol*(perimeter A + perimeter B).
"""
import math
import random
import time
from fractions import Fraction as F

import lbg
from ladybug_geometry import boolean as pb
from ladybug_geometry.geometry2d.pointvector import Point2D
from ladybug_geometry.geometry2d.polygon import Polygon2D

try:
    from props import cellbool_common as cc
except ImportError:            # pragma: no cover
    import cellbool_common as cc

ASSUMPTIONS = [
    'valid inputs: simple loops, 3..60 vertices, |c| <= 1e4, every feature of one operand '
    '(edge length, gap between non-adjacent edges) >= 25*tolerance, holes (raw BooleanPolygon '
    'operands only) strictly inside their boundary; library tolerance 1e-2 or 1e-3',
    'lattice family: the region of the result is read with even-odd nesting over the whole '
    'returned list; compared on every unit cell centre of the bounding box enlarged by one cell; '
    'returned vertices must lie within the tolerance of lattice points and edges must be '
    'axis-parallel within the tolerance (otherwise some point farther than the tolerance from '
    'every input edge is classified wrongly)',
    'general family: every vertex of one operand is on the boundary of the other up to rounding '
    'or >= 2e-3 away from it (quantifier: smallest gap >= 1e-3; near-degenerate stream: one '
    'operand translated by 2.2e-3..4.5e-3 < tolerance); the module-level boolean.* functions '
    '(no snapping, sweep tolerance tol/1000) are not run on that stream; '
    'query points at distance >= 10*tol from every input edge (decided exactly); '
    'area identities within 3*tol*(perimeter A + perimeter B) because the second operand is '
    'snapped to the first by up to the tolerance and vertices closer than the tolerance are merged',
]
TRUSTED = [
    'C04: executable Lean specification Spec/CellBool (crossing number, cell sets, truth tables) '
    'run by the driver; exact even-odd area and edge-margin predicates in Python Fractions '
    '(props/cellbool_common.py)',
]

OPS2 = ['union', 'intersect', 'difference', 'xor']
TABLES = [('_select_union', 'union'), ('_select_intersect', 'intersect'),
          ('_select_difference', 'difference'), ('_select_difference_rev', 'rdifference'),
          ('_select_xor', 'xor')]


# ------------------------------------------------------------------ (T) tables
def observed_table(selector_name, inv=(False, False)):
    """Run the real selector on the 16 fill combinations.  -> (table, is_inverted, problems)"""
    sel = getattr(pb, selector_name)
    segs = []
    for i in range(16):
        a1, b1, a2, b2 = bool(i & 8), bool(i & 4), bool(i & 2), bool(i & 1)
        s = pb._Segment(start=pb.BooleanPoint(float(i), 0.0), end=pb.BooleanPoint(float(i), 1.0),
                        myfill=pb._Fill(below=b1, above=a1),
                        otherfill=pb._Fill(below=b2, above=a2))
        segs.append(s)
    comb = pb._CombinedPolySegments(segs, inv[0], inv[1])
    out = sel(comb)
    table = [0] * 16
    problems = []
    seen = set()
    for s in out.segments:
        i = int(s.start.x)
        if i in seen:
            problems.append('segment %d kept twice' % i)
        seen.add(i)
        ab, be = bool(s.myfill.above), bool(s.myfill.below)
        if ab and not be:
            table[i] = 1
        elif be and not ab:
            table[i] = 2
        else:
            table[i] = 3          # kept with equal fills: never valid
    return table, bool(out.is_inverted), problems


def table_requests():
    reqs, meta = [], []
    for (nm, op) in TABLES:
        try:
            t, inv, problems = observed_table(nm)
        except Exception as e:                                   # noqa
            meta.append((nm, op, None, 'raises %s: %s' % (type(e).__name__, str(e)[:100])))
            continue
        meta.append((nm, op, t, problems))
        reqs.append(('cellbool.table', [op, t]))
    return reqs, meta


def check_tables(ctx, failures, hist):
    """Returns number of evaluations."""
    reqs, meta = table_requests()
    inv_obs = []
    for (nm, op) in TABLES:
        for i1 in (False, True):
            for i2 in (False, True):
                try:
                    _, inv, _ = observed_table(nm, (i1, i2))
                except Exception:                                 # noqa
                    inv = None
                inv_obs.append((nm, op, i1, i2, inv))
                reqs.append(('cellbool.inverted', [op, i1, i2]))
    ans = ctx.driver.run(reqs)
    k = 0
    n = 0
    for (nm, op, t, problems) in meta:
        n += 16
        if t is None:
            failures.append({'signature': 'boolean.%s|%s' % (nm, problems.split(':')[0]),
                             'family': 'table', 'selector': nm,
                             'what': 'boolean.%s on the 16 fill combinations: %s' % (nm, problems)})
            continue
        ok, val = ans[k]
        k += 1
        if not ok:
            raise lbg.DriverError('cellbool.table: %s' % val)
        if val or problems:
            idx = val[0] if val else None
            failures.append({
                'signature': 'boolean.%s|table-entry' % nm, 'family': 'table', 'selector': nm,
                'observed_table': t, 'bad_indices': val,
                'what': 'boolean.%s behaves as table %s; entries %s differ from the truth table '
                        'of %s (index = 8*above1+4*below1+2*above2+below2; first: %s) %s'
                        % (nm, t, val, op, idx, '; '.join(problems))})
        bump(hist, 'table:' + nm, 16)
    for (nm, op, i1, i2, inv) in inv_obs:
        n += 1
        ok, val = ans[k]
        k += 1
        if not ok:
            raise lbg.DriverError('cellbool.inverted: %s' % val)
        if inv is None or inv != val:
            failures.append({
                'signature': 'boolean.%s|is_inverted' % nm, 'family': 'table', 'selector': nm,
                'what': 'boolean.%s with operands inverted (%s, %s): result is_inverted=%s, '
                        'expected %s' % (nm, i1, i2, inv, val)})
    return n


bump = cc.bump


# ------------------------------------------------------------------ calling the real code
def poly2d(pts):
    return Polygon2D(tuple(Point2D(x, y) for (x, y) in pts))


def bpoly(loops):
    return pb.BooleanPolygon([[pb.BooleanPoint(x, y) for (x, y) in lp] for lp in loops])


def loops_of_polys(polys):
    if not isinstance(polys, (list, tuple)):
        raise TypeError('result is %s, not a list of Polygon2D' % type(polys).__name__)
    out = []
    for p in polys:
        if not isinstance(p, Polygon2D):
            raise TypeError('result item is %s, not a Polygon2D' % type(p).__name__)
        out.append([(v.x, v.y) for v in p.vertices])
    return out


def loops_of_bpoly(bp):
    if not isinstance(bp, pb.BooleanPolygon):
        raise TypeError('result is %s, not a BooleanPolygon' % type(bp).__name__)
    if bp.is_inverted:
        raise ValueError('result of non-inverted operands is_inverted')
    return [[(p.x, p.y) for p in reg] for reg in bp.regions if len(reg) > 0]


def _guard(site, op, idx, fn, out):
    """Run fn() -> loops (or a tuple of loop lists for split).  Appends
    (site, op, operand_indices, loops | None, error | None)."""
    try:
        r = fn()
        out.append((site, op, idx, r, None))
    except Exception as e:                                       # noqa
        out.append((site, op, idx, None, '%s: %s' % (type(e).__name__, str(e)[:160])))


def _split_guard(site, fn, conv, out):
    try:
        r = fn()
        if not isinstance(r, tuple) or len(r) != 3:
            raise TypeError('split result is not a 3-tuple')
        for k, op in enumerate(('intersect', 'difference', 'rdifference')):
            out.append(('%s[%d]' % (site, k), op, None, conv(r[k]), None))
    except Exception as e:                                       # noqa
        out.append((site, 'intersect', None, None, '%s: %s' % (type(e).__name__, str(e)[:160])))


def run_pair_polygon2d(A, B, tol):
    """All Polygon2D-level operations on one pair of vertex lists.  Operand indices None = (0, 1)."""
    out = []
    for op in OPS2:
        _guard('Polygon2D.boolean_' + op, op, None,
               lambda op=op: loops_of_polys(getattr(poly2d(A), 'boolean_' + op)(poly2d(B), tol)),
               out)
    _split_guard('Polygon2D.boolean_split',
                 lambda: Polygon2D.boolean_split(poly2d(A), poly2d(B), tol), loops_of_polys, out)
    _guard('Polygon2D.boolean_union_all', 'union', None,
           lambda: loops_of_polys(Polygon2D.boolean_union_all([poly2d(A), poly2d(B)], tol)), out)
    _guard('Polygon2D.boolean_intersect_all', 'intersect', None,
           lambda: loops_of_polys(Polygon2D.boolean_intersect_all([poly2d(A), poly2d(B)], tol)),
           out)
    return out


RAW = [('union', 'union'), ('intersect', 'intersect'), ('difference', 'difference'),
       ('difference_reversed', 'rdifference'), ('xor', 'xor')]


def run_pair_raw(RA, RB, t):
    """Module-level operations on two regions (lists of loops: boundary + holes)."""
    out = []
    for (fn, op) in RAW:
        _guard('boolean.' + fn, op, None,
               lambda fn=fn: loops_of_bpoly(getattr(pb, fn)(bpoly(RA), bpoly(RB), t)), out)
    _split_guard('boolean.split', lambda: pb.split(bpoly(RA), bpoly(RB), t), loops_of_bpoly, out)
    return out


def run_list(polys, tol, raw_regions=None):
    out = []
    _guard('Polygon2D.boolean_union_all', 'union', None,
           lambda: loops_of_polys(Polygon2D.boolean_union_all([poly2d(p) for p in polys], tol)),
           out)
    _guard('Polygon2D.boolean_intersect_all', 'intersect', None,
           lambda: loops_of_polys(Polygon2D.boolean_intersect_all(
               [poly2d(p) for p in polys], tol)), out)
    regs = raw_regions if raw_regions is not None else [[p] for p in polys]
    _guard('boolean.union_all', 'union', None,
           lambda: loops_of_bpoly(pb.union_all([bpoly(r) for r in regs], tol / 1000)), out)
    _guard('boolean.intersect_all', 'intersect', None,
           lambda: loops_of_bpoly(pb.intersect_all([bpoly(r) for r in regs], tol / 1000)), out)
    return out


# ------------------------------------------------------------------ (L) lattice cases
STRATEGIES = ['random', 'random', 'random', 'vertex', 'vertex', 'edge', 'edge', 'nested',
              'nested', 'nested', 'reflex', 'odd', 'odd', 'equal', 'far']


def gen_lattice_pair(rng):
    """-> case dict (JSON-able) or None."""
    how = rng.choice(STRATEGIES)
    ka, ca = cc.lattice_shape(rng, big=(how in ('nested', 'reflex') or rng.random() < 0.3))
    if how == 'nested':
        ca = cc.double(ca, rng.choice([2, 3]))
    if how == 'equal':
        kb, cb = ka, set(ca)
    else:
        kb, cb0 = cc.lattice_shape(rng)
        if how == 'odd':
            ca, cb0 = cc.double(ca), cc.double(cb0)
        cb = cc.place(rng, ca, cb0, how)
        if cb is None:
            return None
    la, fa = cc.loop_variant(rng, cc.outline(ca))
    lb, fb = cc.loop_variant(rng, cc.outline(cb))
    case = {'family': 'lattice', 'kind': 'pair', 'shapes': [ka, kb], 'how': how,
            'A': [la], 'B': [lb], 'flags': fa + fb, 'rel': cc.relation(ca, cb),
            'frame': [str(x) for x in cc.random_frame(rng)],
            'tol': rng.choice([0.01, 0.01, 0.001])}
    # holes (raw operands only)
    if rng.random() < 0.2:
        ha = cc.rect_hole_in(rng, ca)
        if ha:
            lh, _ = cc.loop_variant(rng, cc.outline(ha), allow_collinear=False)
            case['A'].append(lh)
            case['flags'] = case['flags'] + ['holeA']
        if rng.random() < 0.5:
            hb = cc.rect_hole_in(rng, cb)
            if hb:
                lh, _ = cc.loop_variant(rng, cc.outline(hb), allow_collinear=False)
                case['B'].append(lh)
                case['flags'] = case['flags'] + ['holeB']
    return case


def gen_lattice_list(rng):
    n = rng.randint(3, 6)
    common = rng.random() < 0.6
    cells = []
    _, c0 = cc.lattice_shape(rng, big=True)
    cells.append(c0)
    target = rng.choice(sorted(c0))
    for _ in range(n - 1):
        _, c = cc.lattice_shape(rng, big=rng.random() < 0.4)
        if common:
            # all share one cell of the first polygon: the common intersection is non-empty
            src = rng.choice(sorted(c))
            c = cc.shift_cells(c, target[0] - src[0], target[1] - src[1])
        else:
            c = cc.place(rng, rng.choice(cells), c, rng.choice(['random', 'vertex', 'edge', 'far']))
        cells.append(c)
    loops = [cc.loop_variant(rng, cc.outline(c))[0] for c in cells]
    inter = set(cells[0])
    for c in cells[1:]:
        inter &= c
    rels = sorted({cc.relation(cells[i], cells[j]) for i in range(n) for j in range(i + 1, n)})
    return {'family': 'lattice', 'kind': 'list', 'polys': loops, 'n': n,
            'rel': 'list:' + ('common' if inter else 'nocommon'), 'rels': rels,
            'frame': [str(x) for x in cc.random_frame(rng)], 'tol': rng.choice([0.01, 0.001])}


def frame_of(case):
    return tuple(F(x) for x in case['frame'])


def eval_lattice(case):
    """Run the real code on a lattice case.  -> (operands_lattice_regions, [(site, op, loops|None, err)])"""
    fr = frame_of(case)
    tol = case['tol']
    if case['kind'] == 'pair':
        RA = [cc.to_real(lp, fr) for lp in case['A']]
        RB = [cc.to_real(lp, fr) for lp in case['B']]
        res = []
        if len(RA) == 1 and len(RB) == 1:
            res += run_pair_polygon2d(RA[0], RB[0], tol)
        res += run_pair_raw(RA, RB, tol / 1000)
        operands = [case['A'], case['B']]
    else:
        polys = [cc.to_real(lp, fr) for lp in case['polys']]
        res = run_list(polys, tol)
        operands = [[lp] for lp in case['polys']]
    out = []
    for (site, op, idx, loops, err) in res:
        if loops is not None:
            loops = [cc.to_lattice(lp, fr) for lp in loops]
        out.append((site, op, loops, err))
    return operands, out


def lattice_request(case, operands, results):
    """One driver request for a case; identical results of different sites are checked once.
    -> (request, [(site, op, check_index | None, err)])"""
    s = frame_of(case)[0]
    checks, index, key_of = [], [], {}
    for (site, op, loops, err) in results:
        if loops is None:
            index.append((site, op, None, err))
            continue
        key = (op, tuple(tuple(lp) for lp in loops))
        if key not in key_of:
            key_of[key] = len(checks)
            checks.append([op, False, [cc.wregion(loops)]])
        index.append((site, op, key_of[key], None))
    req = ('cellbool.check', [[cc.wregion(r) for r in operands], checks,
                              lbg.wnum(F(case['tol']) / s)])
    return req, index


def judge_lattice(case, index, reports, failures, hist):
    """Turn the Lean reports of one case into failures.  Returns area facts for the identities."""
    counts = {}
    for (site, op, ci, err) in index:
        base = site
        if err is not None:
            failures.append(exc_failure(case, site, err))
            continue
        rp = reports[ci]
        counts[site] = rp['n_result']
        bad = [k for k in ('missing', 'extra', 'offgrid', 'diagonal') if rp.get(k) is not None]
        if bad:
            k = bad[0]
            detail = {'missing': 'cell %s is in %s(A,B) but not in the returned region',
                      'extra': 'cell %s is in the returned region but not in %s(A,B)',
                      'offgrid': 'returned vertex %s is not on the lattice (%s)',
                      'diagonal': 'returned edge %s is not axis-parallel (%s)'}[k] % (rp[k], op)
            failures.append(mk_failure(
                case, base, 'wrong-region',
                '%s: %s; |expected|=%d |returned|=%d cells' % (
                    site, detail, rp['n_expected'], rp['n_result']), report=rp))
    return counts


def real_operands(case):
    if case['family'] == 'lattice':
        fr = frame_of(case)
        loops = case['A'] + case['B'] if case['kind'] == 'pair' else case['polys']
        return [cc.to_real(lp, fr) for lp in loops]
    return [unhex(case['A']), unhex(case['B'])]


STEEP_REPRO = (
    "A=Polygon2D([Point2D(5.54345,4.28454),Point2D(4.56839,4.73985),Point2D(4.79873,5.192)]); "
    "B=Polygon2D([Point2D(5.43397,4.86834),Point2D(5.27445,3.51164),Point2D(5.43402,3.68823)]); "
    "A.boolean_union(B, 0.01)  # Exception: PolyBool: Zero-length segment detected")
STEEP_CRITERION = (
    "exception message contains 'Zero-length segment' AND an operand (after the snapping the "
    "API applies) has a steep non-vertical edge 0 < |dx| < 0.05*|dy| AND re-running "
    "boolean.union on the snapped operands with a hook on _Intersecter.__eventDivide shows a "
    "divided piece with |start.x - end.x| < sweep tolerance whose start lies above its end "
    "(BooleanPoint.compare(start, end) > 0: its END event sorts before its START event)")


def snapped_operands(case):
    """The operands as the sweep sees them (second snapped to first, lists snapped in turn)."""
    ops = real_operands(case)
    tol = case['tol']
    try:
        if case.get('kind') == 'pair' and len(ops) == 2:
            b = poly2d(ops[0]).snap_to_polygon(poly2d(ops[1]), tol)
            return [ops[0], [(v.x, v.y) for v in b.vertices]]
        if case.get('kind') == 'list':
            return [[(v.x, v.y) for v in p.vertices]
                    for p in Polygon2D.snap_polygons([poly2d(o) for o in ops], tol)]
    except Exception:                                             # noqa
        pass
    return ops


def steep_edges(loops, ratio=0.05):
    out = []
    for lp in loops:
        n = len(lp)
        for k in range(n):
            (ax, ay), (bx, by) = lp[k], lp[(k + 1) % n]
            if 0 < abs(bx - ax) < ratio * abs(by - ay):
                out.append(((ax, ay), (bx, by)))
    return out


def trace_inverted_piece(loops, t):
    """Re-run the sweep (union of the first two loops / union_all) with a hook on the segment
    division.  -> (exception message | None, inverted piece | None)"""
    name = '_Intersecter__eventDivide'
    orig = pb._Intersecter.__dict__.get(name)
    if orig is None:
        return None, None
    found = []

    def hook(self, ev, pt):
        r = orig(self, ev, pt)
        for seg in (ev.seg, getattr(r, 'seg', None)):
            if seg is not None and abs(seg.start.x - seg.end.x) < t and \
                    seg.start.y - seg.end.y >= t:
                found.append(((seg.start.x, seg.start.y), (seg.end.x, seg.end.y)))
        return r
    setattr(pb._Intersecter, name, hook)
    msg = None
    try:
        pb.union_all([bpoly([lp]) for lp in loops], t)
    except Exception as e:                                        # noqa
        msg = str(e)
    finally:
        setattr(pb._Intersecter, name, orig)
    return msg, (found[0] if found else None)


def exc_failure(case, site, err):
    """Failure record for an exception on a valid input.  The sweep's 'Zero-length segment'
    exception caused by a divided steep edge is one defect whatever the entry point: one
    signature, assigned only when the root cause is demonstrated (STEEP_CRITERION)."""
    if 'Zero-length segment' in err:
        fl = mk_failure(case, site, 'raises', '%s raised %s' % (site, err))
        sig = 'boolean.sweep|zero-length-segment|other'
        try:
            ops = snapped_operands(case)
            outer = ops if case['family'] != 'lattice' or case.get('kind') == 'list' else \
                [ops[0], ops[len(case['A'])]]
            steep = steep_edges(ops)
            msg, piece = trace_inverted_piece(outer, case['tol'] / 1000)
            fl['diagnosis'] = {'steep_edges': steep[:3], 'trace_exception': msg,
                               'inverted_piece': piece}
            if steep and piece is not None and msg and 'Zero-length segment' in msg:
                sig = 'boolean.sweep|zero-length-segment|steep-edge'
                fl['criterion'] = STEEP_CRITERION
                fl['minimal_repro'] = STEEP_REPRO
        except Exception as e:                                    # noqa
            fl['diagnosis'] = {'error': '%s: %s' % (type(e).__name__, e)}
        fl['signature'] = sig
        return fl
    return mk_failure(case, site, 'raises ' + err.split(':')[0], '%s raised %s' % (site, err))


def mk_failure(case, site, kind, what, report=None):
    fl = {'signature': '%s|%s|%s' % (site, case['rel'], kind), 'site': site,
          'family': case['family'], 'case': case,
          'what': '%s [%s %s, tol %s]' % (what, case['family'], describe(case), case['tol'])}
    if report is not None:
        fl['report'] = report
    return fl


def describe(case):
    if case['family'] == 'lattice':
        if case['kind'] == 'pair':
            return 'A=%s B=%s frame=%s' % (case['A'], case['B'], case['frame'])
        return 'polys=%s frame=%s' % (case['polys'], case['frame'])
    if case['kind'] == 'pair':
        return 'A=%s B=%s' % (case['A'], case['B'])
    return 'polys=%s' % (case['polys'],)


def case_size(case):
    if case.get('kind') == 'pair':
        return sum(len(lp) for lp in case['A']) + sum(len(lp) for lp in case['B'])
    return sum(len(lp) for lp in case['polys'])


# ------------------------------------------------------------------ (G) general cases
def hexs(pts):
    return [[float(x).hex(), float(y).hex()] for (x, y) in pts]


def unhex(pts):
    return [(float.fromhex(x), float.fromhex(y)) for (x, y) in pts]


def gen_general_pair(rng):
    tol = rng.choice([0.01, 0.01, 0.001])
    mode = rng.choice(['stars', 'stars', 'stars', 'rotlat', 'rotlat', 'jitter', 'jitter'])
    if mode == 'stars':
        mag = rng.choice([0.0, 10.0, 1000.0, 5000.0])
        cx, cy = rng.uniform(-mag, mag), rng.uniform(-mag, mag)
        r1 = rng.choice([1.0, 3.0, 20.0, 150.0])
        r2 = r1 * rng.uniform(0.3, 1.5)
        how = rng.choice(['overlap', 'overlap', 'overlap', 'nested', 'far'])
        d = {'overlap': rng.uniform(0.2, 1.0) * max(r1, r2), 'nested': 0.0,
             'far': 2.5 * (r1 + r2)}[how]
        if how == 'nested':
            r2 = r1 * rng.uniform(0.1, 0.3)
        th = rng.uniform(0, 2 * math.pi)
        A = cc.star_polygon(rng, rng.randint(3, 14), cx, cy, r1, rng.random() < 0.6)
        B = cc.star_polygon(rng, rng.randint(3, 14), cx + d * math.cos(th), cy + d * math.sin(th),
                            r2, rng.random() < 0.6)
        if rng.random() < 0.5:
            A.reverse()
        if rng.random() < 0.5:
            B.reverse()
        rel = 'stars-' + how
        cell = None
    elif mode == 'jitter':
        # near-degenerate stream: a lattice pair one operand of which is translated by less
        # than the tolerance but at least 2.2e-3 per coordinate (or not at all): every gap is
        # either exactly zero or >= 1e-3 as the quantifier requires, and smaller than the
        # tolerance, so the implementation has to treat the contacts as contacts
        tol = 0.01
        how = rng.choice(['random', 'vertex', 'edge', 'nested', 'reflex', 'equal'])
        ka, ca = cc.lattice_shape(rng, big=(how in ('nested', 'reflex')))
        if how == 'equal':
            cb = set(ca)
        else:
            kb, cb0 = cc.lattice_shape(rng)
            cb = cc.place(rng, ca, cb0, how)
            if cb is None:
                return None
        fr = cc.random_frame(rng)
        def jit():
            if rng.random() < 0.3:
                return 0.0
            return rng.choice([-1, 1]) * rng.uniform(2.2e-3, 0.45 * tol)
        la, _ = cc.loop_variant(rng, cc.outline(ca), allow_collinear=False)
        lb, _ = cc.loop_variant(rng, cc.outline(cb), allow_collinear=False)
        A = cc.to_real(la, fr)
        jx, jy = jit(), jit()
        B = [(x + jx, y + jy) for (x, y) in cc.to_real(lb, fr)]
        if rng.random() < 0.3:
            A, B = B, A
        rel = 'jitter-' + cc.relation(ca, cb)
        x0, y0, x1, y1 = cc.cell_bbox(ca | cb)
        sc = float(fr[0])
        cell = [(float(fr[1]) + sc * (i + 0.5), float(fr[2]) + sc * (j + 0.5))
                for i in range(x0 - 1, x1 + 1) for j in range(y0 - 1, y1 + 1)]
    else:
        # a lattice pair under one generic similarity: collinear overlaps / touching vertices
        # survive only up to rounding
        how = rng.choice(['random', 'vertex', 'edge', 'nested', 'equal'])
        ka, ca = cc.lattice_shape(rng, big=(how == 'nested'))
        if how == 'equal':
            cb = set(ca)
        else:
            kb, cb0 = cc.lattice_shape(rng)
            cb = cc.place(rng, ca, cb0, how)
            if cb is None:
                return None
        T, k = cc.similarity(rng, rng.choice([0.0, 50.0, 3000.0]))
        if k * 0.5 < 12 * tol:
            tol = 0.001
        la, _ = cc.loop_variant(rng, cc.outline(ca), allow_collinear=False)
        lb, _ = cc.loop_variant(rng, cc.outline(cb), allow_collinear=False)
        A = [T(p) for p in la]
        B = [T(p) for p in lb]
        rel = 'rotlat-' + cc.relation(ca, cb)
        x0, y0, x1, y1 = cc.cell_bbox(ca | cb)
        cell = [T((i + 0.5, j + 0.5)) for i in range(x0 - 1, x1 + 1) for j in range(y0 - 1, y1 + 1)]
    # quantifier: gaps between the operands are zero (up to rounding) or >= 1e-3
    if not cc.cross_gap_ok([A], [B]):
        return None
    # query points
    loopsf = [A, B]
    loopse = [cc.fpts(A), cc.fpts(B)]
    xs = [p[0] for p in A + B]
    ys = [p[1] for p in A + B]
    w, h = max(xs) - min(xs), max(ys) - min(ys)
    cand = []
    if cell:
        rng.shuffle(cell)
        cand += cell[:50]
    for _ in range(40):
        cand.append((rng.uniform(min(xs) - 0.05 * w, max(xs) + 0.05 * w),
                     rng.uniform(min(ys) - 0.05 * h, max(ys) + 0.05 * h)))
    for v in rng.sample(A + B, min(10, len(A + B))):
        a = rng.uniform(0, 2 * math.pi)
        rr = rng.uniform(12, 40) * tol
        cand.append((v[0] + rr * math.cos(a), v[1] + rr * math.sin(a)))
    pts = [p for p in cand if cc.far_from_edges(p, loopsf, loopse, 10 * tol)]
    if len(pts) < 5:
        return None
    return {'family': 'general', 'kind': 'pair', 'A': hexs(A), 'B': hexs(B), 'rel': rel,
            'tol': tol, 'points': hexs(pts[:60]), 'nA': len(A), 'nB': len(B)}


def pinned_general_cases():
    """Deterministic minimal case of the open finding boolean.sweep|zero-length-segment|steep-edge
    (two triangles; run on every seed)."""
    rng = random.Random('c04/pinned')
    A = [(5.54345, 4.28454), (4.56839, 4.73985), (4.79873, 5.192)]
    B = [(5.43397, 4.86834), (5.27445, 3.51164), (5.43402, 3.68823)]
    tol = 0.01
    cand = [(rng.uniform(4.4, 5.7), rng.uniform(3.4, 5.3)) for _ in range(400)]
    pts = [p for p in cand if cc.far_from_edges(p, [A, B], [cc.fpts(A), cc.fpts(B)], 10 * tol)]
    return [{'family': 'general', 'kind': 'pair', 'A': hexs(A), 'B': hexs(B),
             'rel': 'stars-overlap', 'tol': tol, 'points': hexs(pts[:60]), 'nA': 3, 'nB': 3}]


def eval_general(case):
    A, B = unhex(case['A']), unhex(case['B'])
    res = run_pair_polygon2d(A, B, case['tol'])
    if not case['rel'].startswith('jitter'):
        # the module-level functions do not snap: operands displaced by more than their own
        # tolerance (tol/1000) but less than 1e-3 are outside the valid inputs
        res += run_pair_raw([A], [B], case['tol'] / 1000)
    return [(site, op, loops, err) for (site, op, idx, loops, err) in res]


def general_request(case, results):
    A, B = unhex(case['A']), unhex(case['B'])
    checks, index, key_of = [], [], {}
    for (site, op, loops, err) in results:
        if loops is None:
            index.append((site, op, None, err))
            continue
        key = (op, tuple(tuple(lp) for lp in loops))
        if key not in key_of:
            key_of[key] = len(checks)
            checks.append([op, False, [cc.wregion(cc.fpts(lp) for lp in loops)]])
        index.append((site, op, key_of[key], None))
    req = ('cellbool.points', [[cc.wregion([cc.fpts(A)]), cc.wregion([cc.fpts(B)])], checks,
                               cc.wloop(cc.fpts(unhex(case['points'])))])
    return req, index


def judge_general(case, index, reports, failures):
    pts = unhex(case['points'])
    for (site, op, ci, err) in index:
        if err is not None:
            failures.append(exc_failure(case, site, err))
            continue
        rp = reports[ci]
        if rp['bad']:
            p = pts[rp['bad'][0]]
            failures.append(mk_failure(
                case, site, 'wrong-membership',
                '%s: point %r (>= 10*tol from every input edge) is classified differently by '
                'the returned region than by %s(p in A, p in B); %d of %d query points differ'
                % (site, p, op, len(rp['bad']), len(pts)), report=rp))


def area_identities(case, results, failures):
    """Exact even-odd areas of the Polygon2D-level results against the identities."""
    A, B = cc.fpts(unhex(case['A'])), cc.fpts(unhex(case['B']))
    tol = case['tol']
    band = F(3 * tol * (cc.perimeter_float(A) + cc.perimeter_float(B)))
    aA, aB = abs(cc.shoelace(A)), abs(cc.shoelace(B))
    ar = {}
    for (site, op, loops, err) in results:
        if loops is None or not site.startswith('Polygon2D.'):
            continue
        ar[site] = cc.even_odd_area([cc.fpts(lp) for lp in loops])
    g = ar.get
    idents = [
        ('union+intersect=A+B', 'Polygon2D.boolean_union',
         [g('Polygon2D.boolean_union'), g('Polygon2D.boolean_intersect')], aA + aB),
        ('difference+intersect=A', 'Polygon2D.boolean_difference',
         [g('Polygon2D.boolean_difference'), g('Polygon2D.boolean_intersect')], aA),
        ('split partitions A', 'Polygon2D.boolean_split',
         [g('Polygon2D.boolean_split[0]'), g('Polygon2D.boolean_split[1]')], aA),
        ('split partitions B', 'Polygon2D.boolean_split',
         [g('Polygon2D.boolean_split[0]'), g('Polygon2D.boolean_split[2]')], aB),
        ('xor+2*intersect=A+B', 'Polygon2D.boolean_xor',
         [g('Polygon2D.boolean_xor'), g('Polygon2D.boolean_intersect'),
          g('Polygon2D.boolean_intersect')], aA + aB),
    ]
    n = 0
    for (name, site, terms, rhs) in idents:
        if any(t is None for t in terms):
            continue
        n += 1
        lhs = sum(terms)
        if abs(lhs - rhs) > band:
            failures.append(mk_failure(
                case, site, 'area-identity',
                'area identity %s violated: %.9g vs %.9g (band %.3g)' % (
                    name, float(lhs), float(rhs), float(band))))
    return n


# ------------------------------------------------------------------ run
def budget(ctx):
    thorough = ctx.tier == 'thorough' or bool(getattr(ctx, 'broken', None))
    if thorough:
        return {'pairs': 3000, 'lists': 500, 'general': 1200, 'area': 400, 'secs': 600}
    return {'pairs': 170, 'lists': 30, 'general': 70, 'area': 25, 'secs': 38}


def run(ctx):
    t0 = time.time()
    bud = budget(ctx)
    stop = min(ctx.deadline, t0 + bud['secs'])
    failures, hist, samples = [], {}, []
    nontrivial = set()
    evaluations = check_tables(ctx, failures, hist)
    nontrivial.update(('table', nm, i) for (nm, _) in TABLES for i in range(16))

    # ---- lattice family
    rng = random.Random('%s/c04/lattice' % ctx.seed)
    cases = []
    per = max(2, (bud['pairs'] + bud['lists']) // max(1, bud['lists']))
    for k in range(bud['pairs'] + bud['lists']):
        c = gen_lattice_list(rng) if k % per == per - 1 else gen_lattice_pair(rng)
        if c is not None:
            cases.append(c)
    reqs, metas = [], []
    for c in cases:
        if time.time() > t0 + 0.45 * (stop - t0):
            break
        operands, results = eval_lattice(c)
        req, index = lattice_request(c, operands, results)
        reqs.append(req)
        metas.append((c, index))
    ans = ctx.driver.run(reqs) if reqs else []
    for (c, index), (ok, val) in zip(metas, ans):
        if not ok:
            raise lbg.DriverError('cellbool.check: %s' % val)
        evaluations += len(index)
        counts = judge_lattice(c, index, val, failures, hist)
        bump(hist, 'lattice:rel:' + c['rel'])
        bump(hist, 'lattice:tol:%s' % c['tol'])
        bump(hist, 'lattice:scale:%s' % c['frame'][0])
        for f in c.get('flags', []):
            bump(hist, 'lattice:flag:' + f)
        bump(hist, 'lattice:vertices:%d' % (10 * (case_size(c) // 10)))
        for (site, op, ci, err) in index:
            bump(hist, 'site:' + site)
        if c['rel'] not in ('disjoint', 'list:nocommon'):
            nontrivial.add(('L', repr(c.get('A')), repr(c.get('B')), repr(c.get('polys'))))
        # exact area identities on cell counts (consequence of the region checks, kept as a
        # separate witness of the 'hence' clause)
        if c['kind'] == 'pair' and val:
            nA, nB = val[0]['n_operands']
            u, i_ = counts.get('boolean.union'), counts.get('boolean.intersect')
            if u is not None and i_ is not None and u + i_ != nA + nB:
                failures.append(mk_failure(c, 'boolean.union', 'area-identity',
                                           'cells(union)+cells(intersect)=%d+%d != %d+%d'
                                           % (u, i_, nA, nB)))
    if len(samples) < 3 and metas:
        samples.append({k: v for k, v in metas[0][0].items()})
        samples.append({k: v for k, v in metas[len(metas) // 2][0].items()})

    # ---- general family
    rng = random.Random('%s/c04/general' % ctx.seed)
    greqs, gmetas = [], []
    n_area = 0
    for k in range(-1, bud['general']):
        if time.time() > t0 + 0.8 * (stop - t0):
            break
        c = pinned_general_cases()[0] if k < 0 else gen_general_pair(rng)
        if c is None:
            continue
        results = eval_general(c)
        req, index = general_request(c, results)
        greqs.append(req)
        gmetas.append((c, index))
        if n_area < bud['area']:
            n_area += 1
            evaluations += area_identities(c, results, failures)
    ans = ctx.driver.run(greqs) if greqs else []
    for (c, index), (ok, val) in zip(gmetas, ans):
        if not ok:
            raise lbg.DriverError('cellbool.points: %s' % val)
        evaluations += len(index)
        judge_general(c, index, val, failures)
        bump(hist, 'general:rel:' + c['rel'])
        bump(hist, 'general:tol:%s' % c['tol'])
        bump(hist, 'general:points:%d' % (10 * (len(c['points']) // 10)))
        bump(hist, 'general:vertices:%d' % (10 * ((c['nA'] + c['nB']) // 10)))
        n_in = max([r['n_in'] for r in val] + [0])
        if n_in > 0 and not c['rel'].endswith('far') and not c['rel'].endswith('disjoint'):
            nontrivial.add(('G', repr(c['A']), repr(c['B'])))
    if gmetas:
        c = gmetas[0][0]
        samples.append({'family': 'general', 'rel': c['rel'], 'A': unhex(c['A']),
                        'B': unhex(c['B']), 'tol': c['tol']})
    hist['area_identity_pairs'] = n_area
    hist['lattice_cases'] = len(metas)
    hist['general_cases'] = len(gmetas)
    hist['seconds'] = round(time.time() - t0, 1)
    sites_of = {}
    for f in failures:
        sites_of.setdefault(f['signature'], set()).add(f.get('site', ''))
    failures = cc.small_first(failures, lambda f: case_size(f['case']) if 'case' in f else 0)
    for f in failures:
        f['sites'] = sorted(sites_of[f['signature']])
    failures = [shrink(ctx, f) if k < 8 and time.time() < stop else f
                for k, f in enumerate(failures)]
    return {
        'evaluations': evaluations,
        'distinct_nontrivial': len(nontrivial),
        'rule': 'tables: the 16 fill combinations of each of the 5 selectors (+ 4 inversion '
                'combinations); lattice: random rectilinear pairs/lists (named shapes and '
                'polyominoes; placements random / vertex-aligned / edge-aligned / nested / '
                'equal / far; both orders, any start, collinear extras; scaled+shifted '
                'lattices; raw operands with holes) through every Polygon2D.boolean_* and '
                'boolean.* operation, one evaluation per (case, operation); general: star / '
                'convex / concave pairs and rotated lattice pairs checked at query points '
                '>= 10 tol from all edges + area identities.  A case is non-trivial when the '
                'operands overlap, are nested or share boundary (lattice: relation class other '
                'than disjoint; general: at least one query point in a result and not placed far '
                'apart); distinct = distinct operand vertex lists',
        'samples': samples[:6],
        'failures': failures,
        'extra': {'histograms': hist},
    }


def shrink(ctx, failure):
    """Lattice failures: try the same shapes on the plain integer lattice (scale 1, origin 0);
    keep the simpler case when it fails with the same signature."""
    case = failure.get('case')
    if not case or case.get('family') != 'lattice' or case['frame'] == ['1', '0', '0']:
        return failure
    cand = dict(failure, case=dict(case, frame=['1', '0', '0']))
    try:
        again = replay(ctx, cand)
    except Exception:                                             # noqa
        return failure
    if again is not None and again['signature'] == failure['signature']:
        again['sites'] = failure.get('sites')
        again['shrunk_from'] = {'frame': case['frame']}
        return again
    return failure


def replay(ctx, failure):
    fam = failure.get('family')
    out = []
    if fam == 'table':
        check_tables(ctx, out, {})
        out = [f for f in out if f['signature'] == failure['signature']]
        return out[0] if out else None
    case = failure['case']
    if fam == 'lattice':
        operands, results = eval_lattice(case)
        req, index = lattice_request(case, operands, results)
        (ok, val), = ctx.driver.run([req])
        if not ok:
            raise lbg.DriverError(val)
        judge_lattice(case, index, val, out, {})
    else:
        results = eval_general(case)
        req, index = general_request(case, results)
        (ok, val), = ctx.driver.run([req])
        if not ok:
            raise lbg.DriverError(val)
        judge_general(case, index, val, out)
        area_identities(case, results, out)
    same = [f for f in out if f['signature'] == failure['signature']]
    return (same or out or [None])[0]
